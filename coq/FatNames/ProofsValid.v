(* Proofs: lfn_valid is the VFAT rule, invalid names are rejected with ValueError before
   anything is produced, the checksum is the standard one, the alias uses only legal
   8.3 bytes, and pure 8.3 names need no long-name records. *)
From Coq Require Import List NArith Bool Lia Arith.
From NV Require Import Lib.Res Gen.Fat FatNames.Model FatNames.ProofsAlias.
From NV Require Fat.Spec.
Import ListNotations.
Open Scope N_scope.

(* ---------- lfn_valid = the VFAT rule ---------- *)
(* Microsoft FAT specification 7.1: any character except control characters and
   double quote, * / : < > ? backslash, | ; not empty, no leading space, no trailing space or dot *)
Definition vfat_char (c : N) : bool :=
  (32 <=? c) && negb (memb c [34; 42; 47; 58; 60; 62; 63; 92; 124]).
Definition vfat_valid (s : list N) : bool :=
  match s with
  | [] => false
  | _ => negb (first_is s 32) && negb (last_is s 32) && negb (last_is s 46) && forallb vfat_char s
  end.

Lemma memb_above c l b : forallb (fun d => d <? b) l = true -> b <= c -> memb c l = false.
Proof.
  intros H Hc. unfold memb. induction l as [|d l IH]; [reflexivity|].
  cbn [forallb existsb] in *. apply andb_true_iff in H as [H1 H2]. apply N.ltb_lt in H1.
  rewrite (IH H2). destruct (N.eqb_spec c d); [lia|reflexivity].
Qed.

Lemma denied_char c : negb (memb c lfn_valid_denied_chars) = vfat_char c.
Proof.
  destruct (N.lt_ge_cases c 128) as [H|H].
  - apply (small_cases (fun c => Bool.eqb (negb (memb c lfn_valid_denied_chars)) (vfat_char c)) 128) in H;
      [apply eqb_prop in H; exact H|vm_compute; reflexivity].
  - unfold vfat_char. rewrite (memb_above c _ 128), (memb_above c _ 128); try reflexivity; try lia.
    replace (32 <=? c) with true by (symmetry; apply N.leb_le; lia). reflexivity.
Qed.

Lemma forallb_eq {A} (f g : A -> bool) l : (forall x, f x = g x) -> forallb f l = forallb g l.
Proof. intros H. induction l as [|x l IH]; cbn; [reflexivity|]. rewrite H, IH. reflexivity. Qed.

Theorem lfn_valid_spec s : lfn_valid s = vfat_valid s.
Proof.
  unfold lfn_valid, lfn_regex_match, vfat_valid.
  change lfn_valid_guards_standard with true. change lfn_valid_anchored_end with true. cbn iota.
  destruct s as [|c r]; [reflexivity|].
  rewrite (forallb_eq _ vfat_char) by (intros; apply denied_char).
  rewrite negb_orb, !andb_assoc. reflexivity.
Qed.

(* ---------- the checksum is the one an independent reader computes ---------- *)
Lemma fold_left_eq {A B} (f g : A -> B -> A) l : (forall a b, f a b = g a b) ->
  forall a, fold_left f l a = fold_left g l a.
Proof. intros H. induction l as [|x l IH]; intros a; cbn; [reflexivity|]. rewrite H, IH. reflexivity. Qed.

Theorem checksum_standard sfn ext : sfn_checksum sfn ext = Spec.checksum (sfn ++ ext).
Proof.
  unfold sfn_checksum, Spec.checksum. apply fold_left_eq. intros r c.
  change 255 with (N.ones 8). rewrite N.land_ones, N.shiftl_mul_pow2, N.shiftr_div_pow2.
  reflexivity.
Qed.

(* ---------- invalid names are rejected before anything is produced ---------- *)
Theorem invalid_rejected name up existing entry :
  vfat_valid name = false ->
  create_records name up existing entry = Err ValueError.
Proof.
  intros Hv. unfold create_records. destruct (is_dot_name name); [reflexivity|].
  rewrite lfn_valid_spec, Hv. reflexivity.
Qed.
(* "." and ".." are never stored as the name of a created entry *)
Theorem dot_names_rejected name up existing entry :
  is_dot_name name = true -> create_records name up existing entry = Err ValueError.
Proof. intros Hd. unfold create_records. rewrite Hd. reflexivity. Qed.

Lemma beq_length a : forall b, beq a b = true -> length a = length b.
Proof.
  induction a as [|x a IH]; intros [|y b]; cbn; try discriminate; [reflexivity|].
  intros H. apply andb_true_iff in H as [_ H]. f_equal. apply IH, H.
Qed.
Lemma beq_eq a : forall b, beq a b = true <-> a = b.
Proof.
  induction a as [|x a IH]; intros [|y b]; cbn; split; try discriminate; try reflexivity.
  - intros H. apply andb_true_iff in H as [H1 H2]. apply N.eqb_eq in H1. apply IH in H2. congruence.
  - intros H. inversion H; subst. rewrite N.eqb_refl. apply IH. reflexivity.
Qed.
Lemma make_sfn_length a b : (length (make_sfn a b) <= length a + 1 + length b)%nat.
Proof. unfold make_sfn. destruct b; [lia|]. rewrite !app_length. cbn [length]. lia. Qed.
Lemma utf16_length s : (length (utf16 s) <= 2 * length s)%nat.
Proof.
  induction s as [|c s IH]; [cbn; lia|]. cbn [utf16 flat_map]. fold (utf16 s).
  rewrite app_length. unfold utf16_1 at 1. destruct (c <? 65536); cbn [length]; lia.
Qed.
Lemma le16_flat_length u : length (flat_map le16 u) = (2 * length u)%nat.
Proof. induction u as [|x u IH]; [reflexivity|]. cbn [flat_map le16 app length]. rewrite IH. lia. Qed.

(* a name of more than 12 characters is never stored as a short entry only *)
Lemma case_attr_long name sfn ext : (12 < length name)%nat -> case_attr name sfn ext = None.
Proof.
  intros H. unfold case_attr.
  destruct (Nat.leb (length sfn) 8) eqn:L8; [|reflexivity].
  destruct (Nat.leb (length ext) 3) eqn:L3; [|reflexivity]. cbn [andb].
  apply Nat.leb_le in L8, L3.
  assert (Hn : forall a b, length a = length sfn -> length b = length ext ->
                           beq (latin1_replace name) (make_sfn a b) = false).
  { intros a b La Lb. destruct (beq _ _) eqn:E; [|reflexivity]. apply beq_length in E.
    unfold latin1_replace in E. rewrite map_length in E. pose proof (make_sfn_length a b). lia. }
  rewrite !Hn; try reflexivity; try apply map_length.
Qed.

Theorem too_long_rejected name up existing :
  existsb is_surrogate name = false -> (255 < length (utf16 name))%nat ->
  get_names name up existing = Err ValueError.
Proof.
  intros Hs Hl. unfold get_names.
  rewrite case_attr_long by (pose proof (utf16_length name); lia).
  unfold lfn_encode, utf16le. rewrite Hs. cbn [bind].
  unfold len. rewrite le16_flat_length.
  replace (255 * 2 <? N.of_nat (2 * length (utf16 name))) with true
    by (symmetry; apply N.ltb_lt; lia).
  reflexivity.
Qed.
Corollary too_long_nothing_produced name up existing entry :
  existsb is_surrogate name = false -> (255 < length (utf16 name))%nat ->
  prefix_entries name up existing entry = Err ValueError /\
  create_records name up existing entry = Err ValueError.
Proof.
  intros Hs Hl. assert (P : prefix_entries name up existing entry = Err ValueError)
    by (unfold prefix_entries; rewrite (too_long_rejected name up existing Hs Hl); reflexivity).
  split; [exact P|]. unfold create_records. rewrite P. destruct (is_dot_name name); [reflexivity|]. destruct (lfn_valid name); reflexivity.
Qed.

(* ---------- the alias uses only legal 8.3 bytes ---------- *)
Definition allv (l : list N) : Prop := forallb sfn_valid_char l = true.

Lemma sfn_sub_valid c : sfn_valid_char (sfn_sub c) = true.
Proof. unfold sfn_sub. destruct (sfn_valid_char c) eqn:E; [exact E|reflexivity]. Qed.
Lemma sfn_sub_id c : sfn_valid_char c = true -> sfn_sub c = c.
Proof. unfold sfn_sub. intros ->. reflexivity. Qed.
Lemma allv_map_sub l : allv (map sfn_sub l).
Proof. unfold allv. induction l as [|c l IH]; [reflexivity|]. cbn. rewrite sfn_sub_valid, IH. reflexivity. Qed.
Lemma allv_app a b : allv a -> allv b -> allv (a ++ b).
Proof. unfold allv. intros Ha Hb. rewrite forallb_app, Ha, Hb. reflexivity. Qed.
Lemma allv_firstn n l : allv l -> allv (firstn n l).
Proof.
  unfold allv. revert n; induction l as [|c l IH]; intros [|n] H; try reflexivity.
  cbn in *. apply andb_true_iff in H as [H1 H2]. rewrite H1, (IH n H2). reflexivity.
Qed.
Lemma allv_repeat c n : sfn_valid_char c = true -> allv (repeat c n).
Proof. intros H. unfold allv. induction n; cbn; [reflexivity|]. rewrite H. assumption. Qed.
Lemma allv_ljust n s : allv s -> allv (ljust n 32 s).
Proof. intros H. unfold ljust. apply allv_app; [exact H|apply allv_repeat; reflexivity]. Qed.
Lemma ljust_length n f s : (length s <= n)%nat -> length (ljust n f s) = n.
Proof. intros H. unfold ljust. rewrite app_length, repeat_length. lia. Qed.
Lemma digit_valid d : is_digit d = true -> sfn_valid_char d = true.
Proof. unfold is_digit, sfn_valid_char. intros ->. destruct ((65 <=? d) && (d <=? 90)); reflexivity. Qed.
Lemma allv_digits ds : digits ds = true -> allv ds.
Proof.
  unfold digits, allv. induction ds as [|d ds IH]; cbn; [reflexivity|]. intros H.
  apply andb_true_iff in H as [H1 H2]. rewrite (digit_valid d H1), (IH H2). reflexivity.
Qed.
Lemma valid_lt256 c : sfn_valid_char c = true -> c < 256.
Proof.
  intros H. destruct (N.lt_ge_cases c 256) as [|Hge]; [assumption|exfalso].
  unfold sfn_valid_char in H. rewrite (memb_above c sfn_symbols 256) in H; [|reflexivity|exact Hge].
  replace (c <=? 90) with false in H by (symmetry; apply N.leb_gt; lia).
  replace (c <=? 57) with false in H by (symmetry; apply N.leb_gt; lia).
  replace (c <=? 255) with false in H by (symmetry; apply N.leb_gt; lia).
  rewrite !andb_false_r in H. discriminate.
Qed.
Lemma latin1_valid_id l : allv l -> latin1_replace l = l.
Proof.
  unfold allv, latin1_replace. induction l as [|c l IH]; cbn; [reflexivity|]. intros H.
  apply andb_true_iff in H as [H1 H2]. apply valid_lt256 in H1.
  replace (c <? 256) with true by (symmetry; apply N.ltb_lt; exact H1). rewrite (IH H2). reflexivity.
Qed.

Lemma case_attr_lengths name sfn ext a :
  case_attr name sfn ext = Some a -> (length sfn <= 8 /\ length ext <= 3)%nat.
Proof.
  unfold case_attr. destruct (Nat.leb (length sfn) 8) eqn:L8; [|discriminate].
  destruct (Nat.leb (length ext) 3) eqn:L3; [|discriminate].
  apply Nat.leb_le in L8, L3. auto.
Qed.

Lemma short_parts_valid name up :
  is_dot_name name = false -> allv (fst (short_parts name up)) /\ allv (snd (short_parts name up)).
Proof. intros H. unfold short_parts. rewrite H. cbn [fst snd]. split; apply allv_map_sub. Qed.

(* the alias text: at most 8 legal characters *)
Lemma alias_of_standard prefix n :
  allv prefix -> n < max_sfn_suffix ->
  allv (alias_of prefix n) /\ (length (alias_of prefix n) <= 8)%nat.
Proof.
  intros Hp Hn. pose proof max_le as Hm.
  assert (Hok : dec_ok n = true) by (apply dec_ok_all; lia).
  unfold dec_ok in Hok. unfold alias_of. set (d := dec_str n) in *.
  apply andb_true_iff in Hok as [Hok _]. apply andb_true_iff in Hok as [Hok Hd].
  apply andb_true_iff in Hok as [L1 L5]. apply Nat.leb_le in L1, L5.
  split.
  - apply allv_app; [apply allv_firstn, Hp|]. apply allv_app; [reflexivity|apply allv_digits, Hd].
  - rewrite !app_length. cbn [length]. pose proof (firstn_le_length (7 - length d) prefix). lia.
Qed.

Lemma firstn_in {A} (x : A) n : forall l, In x (firstn n l) -> In x l.
Proof.
  induction n as [|n IH]; intros [|y l] H; cbn in *; try contradiction.
  destruct H as [H|H]; [left; exact H|right; apply IH, H].
Qed.
Lemma rsplit_dot_some s : forall a b, rsplit_dot s = Some (a, b) ->
  s = a ++ 46 :: b /\ ~ In 46 b.
Proof.
  induction s as [|c s IH]; intros a b H; cbn [rsplit_dot] in H; [discriminate|].
  destruct (rsplit_dot s) as [[a' b']|] eqn:R.
  - inversion H; subst. destruct (IH a' b eq_refl) as [E Hn]. subst s. auto.
  - destruct (N.eqb_spec c 46) as [->|Hc]; [|discriminate]. inversion H; subst. split; [reflexivity|].
    clear H IH. intros Hin. revert R Hin. induction b as [|x b IH]; [contradiction|].
    cbn [rsplit_dot]. destruct (rsplit_dot b) as [[? ?]|] eqn:R'; [discriminate|].
    destruct (N.eqb_spec x 46) as [->|Hx]; [discriminate|]. intros _ [Hin|Hin]; [congruence|].
    apply (IH eq_refl Hin).
Qed.

Lemma no_e5_parts name up :
  is_dot_name name = false -> ~ In 229 up ->
  ~ In 229 (fst (short_parts name up)) /\ ~ In 229 (snd (short_parts name up)).
Proof.
  intros Hd Hu. unfold short_parts. rewrite Hd.
  set (s := filter (fun c => negb (c =? 32)) (latin1_replace up)).
  assert (Hs : ~ In 229 s).
  { intros Hin. apply filter_In in Hin as [Hin _]. unfold latin1_replace in Hin.
    apply in_map_iff in Hin as (c & Hc & Hin). destruct (c <? 256); [subst c; auto|discriminate]. }
  assert (Hsub : forall l, ~ In 229 l -> ~ In 229 (map sfn_sub l)).
  { intros l Hl Hin. apply in_map_iff in Hin as (c & Hc & Hin). unfold sfn_sub in Hc.
    destruct (sfn_valid_char c); [subst c; auto|discriminate]. }
  destruct (rsplit_dot s) as [[a b]|] eqn:R; cbn [fst snd].
  - apply rsplit_dot_some in R as [E _].
    split; apply Hsub; intros Hin; apply Hs; rewrite E; apply in_or_app; [left|right; right]; exact Hin.
  - split; apply Hsub; [exact Hs|intros []].
Qed.

Theorem alias_standard name up existing lfn sfn8 ext3 attr :
  is_dot_name name = false ->
  get_names name up existing = Ok (lfn, sfn8, ext3, attr) ->
  length sfn8 = 8%nat /\ length ext3 = 3%nat /\
  forallb sfn_valid_char sfn8 = true /\ forallb sfn_valid_char ext3 = true /\
  (~ In 229 up -> ~ In 229 sfn8).
Proof.
  intros Hd H. unfold get_names in H.
  destruct (short_parts_valid name up Hd) as [Vs Ve].
  set (sfn := fst (short_parts name up)) in *. set (ext := snd (short_parts name up)) in *.
  assert (Hrep : forall l k, ~ In 229 l -> ~ In 229 (ljust k 32 l)).
  { intros l k Hl Hin. unfold ljust in Hin. apply in_app_or in Hin as [Hin|Hin]; [auto|].
    apply repeat_spec in Hin. discriminate. }
  destruct (case_attr name sfn ext) as [a|] eqn:C.
  - inversion H; subst. apply case_attr_lengths in C as [L8 L3].
    repeat split; try (apply ljust_length; assumption); try (apply allv_ljust; assumption).
    intros Hu. apply Hrep. apply (no_e5_parts name up Hd Hu).
  - destruct (lfn_encode name) as [l|e]; [|discriminate]. cbn [bind] in H.
    assert (L3 : (length (firstn 3 ext) <= 3)%nat) by apply firstn_le_length.
    assert (V3 : allv (firstn 3 ext)) by apply allv_firstn, Ve.
    set (e3 := firstn 3 ext) in *. clearbody e3.
    destruct (unique_sfn sfn e3 existing) as [alias|e] eqn:U; [|discriminate].
    cbn [bind] in H. inversion H; subst.
    apply unique_sfn_least in U as (n & -> & _ & Hn & _).
    destruct (alias_of_standard sfn n Vs Hn) as [Va La].
    rewrite (latin1_valid_id _ Va).
    repeat split; try (apply ljust_length); try (apply allv_ljust); auto.
    + intros Hu. apply Hrep. unfold alias_of. intros Hin.
      apply in_app_or in Hin as [Hin|Hin].
      * apply firstn_in in Hin. apply (proj1 (no_e5_parts name up Hd Hu)), Hin.
      * cbn [app] in Hin. destruct Hin as [Hin|Hin]; [discriminate|].
        pose proof max_le. assert (Hok : dec_ok n = true) by (apply dec_ok_all; lia).
        unfold dec_ok in Hok. apply andb_true_iff in Hok as [Hok _]. apply andb_true_iff in Hok as [_ Hdg].
        unfold digits in Hdg. rewrite forallb_forall in Hdg. specialize (Hdg _ Hin). discriminate.
Qed.

(* ---------- the short record ---------- *)
Tactic Notation "explode" ident(l) ident(H) integer(n) :=
  do n (destruct l as [|? l]; [cbn [length] in H; lia|]);
  (destruct l as [|? l]; [|cbn [length] in H; lia]).

Lemma short_record_fields e s8 x3 a :
  length e = 32%nat -> length s8 = 8%nat -> length x3 = 3%nat ->
  let r := short_record e s8 x3 a in
  Spec.rbytes de_filename r = s8 /\ Spec.rbytes de_ext r = x3 /\
  Spec.rfield de_attr2 r = a /\ Spec.rfield de_attr r = Spec.rfield de_attr e /\
  firstn 11 r = s8 ++ x3 /\ nth 0 r 0 = nth 0 s8 0 /\ length r = 32%nat /\
  skipn 13 r = skipn 13 e.
Proof.
  intros He Hs Hx. explode e He 32. explode s8 Hs 8. explode x3 Hx 3.
  cbv zeta. repeat split; try reflexivity.
  vm_compute. apply N.add_0_r.
Qed.

Lemma rstrip_sp_repeat k : Spec.rstrip_sp (repeat 32 k) = [].
Proof. induction k as [|k IH]; [reflexivity|]. cbn [repeat Spec.rstrip_sp]. rewrite IH. reflexivity. Qed.
Lemma rstrip_sp_ljust s k : ~ In 32 s -> Spec.rstrip_sp (ljust k 32 s) = s.
Proof.
  unfold ljust. generalize (k - length s)%nat as m. intros m.
  induction s as [|c s IH]; intros Hn; cbn [app]; [apply rstrip_sp_repeat|].
  cbn [Spec.rstrip_sp]. rewrite IH by (intros Hin; apply Hn; right; exact Hin).
  destruct s; [|reflexivity].
  destruct (N.eqb_spec c 32) as [->|_]; [exfalso; apply Hn; left; reflexivity|reflexivity].
Qed.

Lemma is_dot_name_cases name : is_dot_name name = true -> name = [46] \/ name = [46; 46].
Proof.
  unfold is_dot_name. intros H. apply orb_true_iff in H as [H|H]; apply beq_eq in H; auto.
Qed.

Lemma short_parts_clean name up :
  let sp := short_parts name up in
  ~ In 32 (fst sp) /\ ~ In 32 (snd sp) /\ hd 0 (fst sp) <> 5.
Proof.
  cbv zeta. unfold short_parts. destruct (is_dot_name name) eqn:Hd.
  - apply is_dot_name_cases in Hd as [-> | ->]; cbn [fst snd hd]; repeat split; try discriminate;
      intros H; cbn [In] in H; intuition discriminate.
  - set (s := filter (fun c => negb (c =? 32)) (latin1_replace up)).
    assert (Hs : ~ In 32 s).
    { intros Hin. apply filter_In in Hin as [_ Hin]. discriminate. }
    assert (Hsub : forall l, ~ In 32 l -> ~ In 32 (map sfn_sub l)).
    { intros l Hl Hin. apply in_map_iff in Hin as (c & Hc & Hin). unfold sfn_sub in Hc.
      destruct (sfn_valid_char c); [subst c; auto|discriminate]. }
    assert (H5 : forall l, hd 0 (map sfn_sub l) <> 5).
    { intros [|c l]; cbn; [discriminate|]. intros E. pose proof (sfn_sub_valid c) as V. rewrite E in V. discriminate. }
    destruct (rsplit_dot s) as [[a b]|] eqn:R; cbn [fst snd].
    + apply rsplit_dot_some in R as [E _].
      repeat split; try apply H5; apply Hsub; intros Hin; apply Hs; rewrite E; apply in_or_app;
        [left|right; right]; exact Hin.
    + repeat split; try apply H5; apply Hsub; [exact Hs|intros []].
Qed.

Lemma case_attr_cases name sfn ext a :
  case_attr name sfn ext = Some a ->
  (a = 0 /\ latin1_replace name = make_sfn sfn ext) \/
  (a = 16 /\ latin1_replace name = make_sfn sfn (map lower_b ext)) \/
  (a = 8 /\ latin1_replace name = make_sfn (map lower_b sfn) ext) \/
  (a = 24 /\ latin1_replace name = make_sfn (map lower_b sfn) (map lower_b ext)).
Proof.
  unfold case_attr. destruct (_ && _); [|discriminate].
  repeat match goal with
         | |- context [beq ?x ?y] => let E := fresh "E" in destruct (beq x y) eqn:E;
             [apply beq_eq in E; intros H; inversion H; subst; tauto|]
         end.
  discriminate.
Qed.

(* a name stored as a short entry only: no long-name record, NT case flags, and the
   independent reader displays exactly the name and the alias *)
Theorem short_only_shows_name name up existing entry attr :
  let sp := short_parts name up in
  case_attr name (fst sp) (snd sp) = Some attr -> length entry = 32%nat ->
  let r := short_record entry (ljust 8 32 (fst sp)) (ljust 3 32 (snd sp)) attr in
  prefix_entries name up existing entry = Ok [r] /\
  In attr [0; 8; 16; 24] /\
  Spec.short_name r = (latin1_replace name, make_sfn (fst sp) (snd sp)).
Proof.
  cbv zeta. intros C He.
  destruct (short_parts_clean name up) as (N1 & N2 & N5).
  set (sfn := fst (short_parts name up)) in *. set (ext := snd (short_parts name up)) in *.
  split; [|split].
  - unfold prefix_entries, get_names. fold sfn. fold ext. rewrite C. reflexivity.
  - apply case_attr_cases in C. cbn. intuition.
  - pose proof (case_attr_lengths _ _ _ _ C) as [L8 L3].
    destruct (short_record_fields entry (ljust 8 32 sfn) (ljust 3 32 ext) attr He
                (ljust_length 8 32 sfn L8) (ljust_length 3 32 ext L3)) as (F1 & F2 & F3 & _).
    unfold Spec.short_name, Spec.sfn_text. rewrite F1, F2, F3.
    rewrite (rstrip_sp_ljust sfn 8 N1), (rstrip_sp_ljust ext 3 N2). cbn [fst snd].
    assert (E5 : match sfn with 5 :: r => 229 :: r | _ => sfn end = sfn).
    { destruct sfn as [|c r]; [reflexivity|]. cbn [hd] in N5.
      destruct (N.eqb_spec c 5); [contradiction|].
      destruct c as [|p]; [reflexivity|]. do 3 (destruct p as [p|p|]; try reflexivity). congruence. }
    rewrite E5. change Spec.lower_ascii with lower_b.
    apply case_attr_cases in C. unfold make_sfn in *.
    destruct C as [[-> E]|[[-> E]|[[-> E]|[-> E]]]]; rewrite E; cbn [N.land N.eqb negb];
      destruct ext; reflexivity.
Qed.

(* ---------- pure 8.3 names ---------- *)
(* str.upper() on ASCII *)
Definition upper_b (c : N) : N := if (97 <=? c) && (c <=? 122) then c - 32 else c.
(* an ASCII character legal in an 8.3 name as it stands (no lower-case letter, no space) *)
Definition up_ok (c : N) : bool := sfn_valid_char c && negb (c =? 32) && (c <? 128).
(* ... or legal once upper-cased, and not an upper-case letter *)
Definition lo_ok (c : N) : bool := up_ok (upper_b c) && negb ((65 <=? c) && (c <=? 90)).
(* base[.ext]: 1-8 and 0-3 legal characters, base and ext each all-upper or all-lower *)
Definition pure83 (base ext : list N) : bool :=
  Nat.leb 1 (length base) && Nat.leb (length base) 8 && Nat.leb (length ext) 3 &&
  (forallb up_ok base || forallb lo_ok base) && (forallb up_ok ext || forallb lo_ok ext).

Lemma up_ok_lt c : up_ok c = true -> c < 128.
Proof. unfold up_ok. intros H. apply andb_true_iff in H as [_ H]. apply N.ltb_lt in H. exact H. Qed.
Lemma lo_ok_lt c : lo_ok c = true -> c < 128.
Proof.
  unfold lo_ok. intros H. apply andb_true_iff in H as [H _]. apply up_ok_lt in H.
  unfold upper_b in H. destruct ((97 <=? c) && (c <=? 122)) eqn:E; [|exact H].
  apply andb_true_iff in E as [_ E]. apply N.leb_le in E. lia.
Qed.
Lemma char_facts c : c < 128 ->
  (up_ok c = true -> upper_b c = c /\ sfn_valid_char c = true /\ c <> 32 /\ c <> 46) /\
  (lo_ok c = true -> lower_b (upper_b c) = c /\ up_ok (upper_b c) = true /\ c <> 46).
Proof.
  intros H.
  apply (small_cases (fun c =>
     implb (up_ok c) ((upper_b c =? c) && sfn_valid_char c && negb (c =? 32) && negb (c =? 46)) &&
     implb (lo_ok c) ((lower_b (upper_b c) =? c) && up_ok (upper_b c) && negb (c =? 46))) 128) in H;
    [|vm_compute; reflexivity].
  apply andb_true_iff in H as [H1 H2]. split; intros Hc; [rewrite Hc in H1|rewrite Hc in H2]; cbn [implb] in *.
  - repeat (apply andb_true_iff in H1 as [H1 ?]). b2p. auto.
  - repeat (apply andb_true_iff in H2 as [H2 ?]). b2p. auto.
Qed.

(* what the upper-cased part looks like *)
Definition part_ok (p : list N) : Prop :=
  (forallb up_ok p = true \/ forallb lo_ok p = true).
Lemma part_upper p : part_ok p ->
  forallb up_ok (map upper_b p) = true /\ ~ In 46 p /\
  (map upper_b p = p \/ map lower_b (map upper_b p) = p) /\
  forallb (fun c => c <? 256) p = true.
Proof.
  intros [H|H]; induction p as [|c p IH]; cbn [forallb map In] in *;
    try (repeat split; auto; tauto);
    apply andb_true_iff in H as [Hc Hp]; destruct (IH Hp) as (I1 & I2 & I3 & I4).
  - pose proof (up_ok_lt c Hc) as Hl. destruct (proj1 (char_facts c Hl) Hc) as (U & V & N32 & N46).
    rewrite U, Hc, I1, I4. replace (c <? 256) with true by (symmetry; apply N.ltb_lt; lia).
    repeat split; auto; [intros [E|E]; [congruence|auto]|].
    left. f_equal. clear -Hp. induction p as [|d p IH]; [reflexivity|]. cbn [forallb map] in *.
    apply andb_true_iff in Hp as [Hd Hp]. pose proof (up_ok_lt d Hd) as Hl.
    rewrite (proj1 (proj1 (char_facts d Hl) Hd)), (IH Hp). reflexivity.
  - pose proof (lo_ok_lt c Hc) as Hl. destruct (proj2 (char_facts c Hl) Hc) as (U & V & N46).
    rewrite U, V, I1, I4. replace (c <? 256) with true by (symmetry; apply N.ltb_lt; lia).
    repeat split; auto; [intros [E|E]; [congruence|auto]|].
    right. f_equal. clear -Hp. induction p as [|d p IH]; [reflexivity|]. cbn [forallb map] in *.
    apply andb_true_iff in Hp as [Hd Hp]. pose proof (lo_ok_lt d Hd) as Hl.
    rewrite (proj1 (proj2 (char_facts d Hl) Hd)), (IH Hp). reflexivity.
Qed.

Lemma rsplit_dot_none s : ~ In 46 s -> rsplit_dot s = None.
Proof.
  induction s as [|c s IH]; intros H; [reflexivity|]. cbn [rsplit_dot].
  rewrite IH by (intros Hin; apply H; right; exact Hin).
  destruct (N.eqb_spec c 46) as [->|_]; [exfalso; apply H; left; reflexivity|reflexivity].
Qed.
Lemma rsplit_dot_app a b : ~ In 46 b -> rsplit_dot (a ++ 46 :: b) = Some (a, b).
Proof.
  intros H. induction a as [|c a IH]; cbn [app rsplit_dot].
  - rewrite (rsplit_dot_none b H). reflexivity.
  - rewrite IH. reflexivity.
Qed.
Lemma up_ok_all_props p : forallb up_ok p = true ->
  allv p /\ ~ In 32 p /\ ~ In 46 p /\ latin1_replace p = p.
Proof.
  induction p as [|c p IH]; intros H; [repeat split; auto|].
  cbn [forallb] in H. apply andb_true_iff in H as [Hc Hp]. destruct (IH Hp) as (I1 & I2 & I3 & I4).
  pose proof (up_ok_lt c Hc) as Hl. destruct (proj1 (char_facts c Hl) Hc) as (U & V & N32 & N46).
  unfold allv in *. cbn [forallb In latin1_replace map]. rewrite V, I1.
  replace (c <? 256) with true by (symmetry; apply N.ltb_lt; lia).
  unfold latin1_replace in I4. rewrite I4.
  repeat split; auto; intros [E|E]; try congruence; auto.
Qed.
Lemma filter_id {A} (f : A -> bool) l : forallb f l = true -> filter f l = l.
Proof.
  induction l as [|x l IH]; cbn; [reflexivity|]. intros H. apply andb_true_iff in H as [H1 H2].
  rewrite H1, (IH H2). reflexivity.
Qed.
Lemma map_sub_id l : allv l -> map sfn_sub l = l.
Proof.
  unfold allv. induction l as [|c l IH]; cbn; [reflexivity|]. intros H.
  apply andb_true_iff in H as [H1 H2]. rewrite (sfn_sub_id c H1), (IH H2). reflexivity.
Qed.
Lemma no32_filter l : ~ In 32 l -> forallb (fun c => negb (c =? 32)) l = true.
Proof.
  induction l as [|c l IH]; intros H; [reflexivity|]. cbn [forallb].
  rewrite IH by (intros Hin; apply H; right; exact Hin).
  destruct (N.eqb_spec c 32) as [->|_]; [exfalso; apply H; left; reflexivity|reflexivity].
Qed.
Lemma latin1_lt256 l : forallb (fun c => c <? 256) l = true -> latin1_replace l = l.
Proof.
  unfold latin1_replace. induction l as [|c l IH]; cbn; [reflexivity|]. intros H.
  apply andb_true_iff in H as [H1 H2]. rewrite H1, (IH H2). reflexivity.
Qed.

(* names that are pure 8.3, optionally with an all-lower-case base and/or extension,
   need no long-name records; the case flags make the reader display the name *)
Theorem pure_83_no_lfn base ext up existing entry :
  pure83 base ext = true ->
  let name := make_sfn base ext in
  up = map upper_b name -> length entry = 32%nat ->
  exists attr,
    let r := short_record entry (ljust 8 32 (map upper_b base)) (ljust 3 32 (map upper_b ext)) attr in
    prefix_entries name up existing entry = Ok [r] /\
    In attr [0; 8; 16; 24] /\
    Spec.short_name r = (name, make_sfn (map upper_b base) (map upper_b ext)).
Proof.
  intros Hp name Hup He. unfold pure83 in Hp.
  apply andb_true_iff in Hp as [Hp He']. apply andb_true_iff in Hp as [Hp Hb'].
  apply andb_true_iff in Hp as [Hp L3]. apply andb_true_iff in Hp as [L1 L8].
  apply Nat.leb_le in L1, L8, L3.
  assert (Pb : part_ok base) by (apply orb_true_iff in Hb'; exact Hb').
  assert (Pe : part_ok ext) by (apply orb_true_iff in He'; exact He').
  destruct (part_upper base Pb) as (Ub & Db & Cb & Bb). destruct (part_upper ext Pe) as (Ue & De & Ce & Be).
  set (UB := map upper_b base) in *. set (UE := map upper_b ext) in *.
  destruct (up_ok_all_props UB Ub) as (Vb & Sb & Db' & Lb).
  destruct (up_ok_all_props UE Ue) as (Ve & Se & De' & Le).
  (* the name is not "." or ".." *)
  assert (Hdot : is_dot_name name = false).
  { destruct base as [|c base]; [cbn in L1; lia|].
    assert (c <> 46) by (intros ->; apply Db; left; reflexivity).
    unfold is_dot_name, name, make_sfn. destruct ext; cbn [app beq];
      destruct (N.eqb_spec c 46); try contradiction; reflexivity. }
  (* the two parts of the short name *)
  assert (Hup' : up = make_sfn UB UE).
  { rewrite Hup. unfold name, make_sfn, UB, UE. destruct ext; [reflexivity|].
    rewrite map_app. reflexivity. }
  assert (Hsp : short_parts name up = (UB, UE)).
  { unfold short_parts. rewrite Hdot, Hup'. unfold make_sfn. destruct UE as [|e UE'] eqn:EUE.
    - rewrite Lb, (filter_id _ UB (no32_filter UB Sb)), (rsplit_dot_none UB Db'). cbn [fst snd map].
      rewrite (map_sub_id UB Vb). reflexivity.
    - assert (L : latin1_replace (UB ++ [46] ++ e :: UE') = UB ++ [46] ++ e :: UE').
      { unfold latin1_replace in *. rewrite map_app, Lb. cbn [map app]. cbn [map] in Le.
        injection Le as Le0 Le1. rewrite Le0, Le1. reflexivity. }
      rewrite L. rewrite filter_id.
      + cbn [app]. rewrite (rsplit_dot_app UB (e :: UE') De'). cbn [fst snd].
        rewrite (map_sub_id UB Vb), (map_sub_id _ Ve). reflexivity.
      + apply no32_filter. intros Hin. apply in_app_or in Hin as [Hin|Hin]; [auto|].
        cbn [app In] in Hin. destruct Hin as [Hin|Hin]; [discriminate|]. apply Se. exact Hin. }
  (* the name as bytes *)
  assert (Hl : latin1_replace name = name).
  { apply latin1_lt256. unfold name, make_sfn. destruct ext as [|e ext']; [exact Bb|].
    rewrite forallb_app, Bb. cbn [app forallb] in *. exact Be. }
  (* one of the four comparisons succeeds *)
  assert (Hform : name = make_sfn UB UE \/ name = make_sfn UB (map lower_b UE) \/
                  name = make_sfn (map lower_b UB) UE \/ name = make_sfn (map lower_b UB) (map lower_b UE)).
  { destruct ext as [|e ext'].
    - destruct Cb as [Cb|Cb]; [left|right; right; left]; rewrite Cb; reflexivity.
    - destruct Cb as [Cb|Cb], Ce as [Ce|Ce];
        [left|right; left|right; right; left|right; right; right]; rewrite Cb, Ce; reflexivity. }
  assert (Hc : exists attr, case_attr name UB UE = Some attr).
  { unfold case_attr. unfold UB at 1, UE at 1. rewrite !map_length.
    replace (Nat.leb (length base) 8) with true by (symmetry; apply Nat.leb_le; lia).
    replace (Nat.leb (length ext) 3) with true by (symmetry; apply Nat.leb_le; lia).
    cbn [andb]. rewrite Hl.
    destruct (beq name (make_sfn UB UE)) eqn:E1; [eauto|].
    destruct (beq name (make_sfn UB (map lower_b UE))) eqn:E2; [eauto|].
    destruct (beq name (make_sfn (map lower_b UB) UE)) eqn:E3; [eauto|].
    destruct (beq name (make_sfn (map lower_b UB) (map lower_b UE))) eqn:E4; [eauto|].
    exfalso. destruct Hform as [F|[F|[F|F]]]; apply beq_eq in F; congruence. }
  destruct Hc as [attr Hc]. exists attr.
  pose proof (short_only_shows_name name up existing entry attr) as T. cbv zeta in T.
  rewrite Hsp in T. cbn [fst snd] in T. rewrite Hl in T. apply T; assumption.
Qed.

(* ---------- the name test of __getitem__ ---------- *)
(* an entry answers to the upper-cased long name and to the alias; the first such entry
   wins, so appending an entry never changes what an existing name resolves to *)
Lemma lookup_from_hit uname ex : forall i lu s,
  (beq lu uname || beq s uname = true) ->
  lookup_from i uname ((lu, s) :: ex) = Some i.
Proof. intros i lu s H. cbn [lookup_from]. rewrite H. reflexivity. Qed.

Theorem lookup_found uname ex : forall i lu s,
  In (lu, s) ex -> (lu = uname \/ s = uname) ->
  exists j, lookup_from i uname ex = Some j.
Proof.
  induction ex as [|[lu' s'] ex IH]; intros i lu s Hin Hm; [contradiction|].
  cbn [lookup_from]. destruct (beq lu' uname || beq s' uname) eqn:E; [eauto|].
  destruct Hin as [Hin|Hin]; [|apply (IH (i + 1) lu s Hin Hm)].
  inversion Hin; subst. apply orb_false_iff in E as [E1 E2].
  destruct Hm as [->| ->]; [rewrite (proj2 (beq_eq uname uname) eq_refl) in E1
                           |rewrite (proj2 (beq_eq uname uname) eq_refl) in E2]; discriminate.
Qed.

Theorem lookup_stable uname ex new : forall i j,
  lookup_from i uname ex = Some j -> lookup_from i uname (ex ++ [new]) = Some j.
Proof.
  induction ex as [|[lu s] ex IH]; intros i j H; [discriminate|].
  cbn [app lookup_from] in *. destruct (beq lu uname || beq s uname); [exact H|]. apply IH, H.
Qed.

Theorem lookup_new uname ex lu s : forall i,
  lookup_from i uname ex = None ->
  lookup_from i uname (ex ++ [(lu, s)]) =
  if beq lu uname || beq s uname then Some (i + N.of_nat (length ex)) else None.
Proof.
  induction ex as [|[lu' s'] ex IH]; intros i H.
  - cbn [app lookup_from length N.of_nat]. rewrite N.add_0_r. destruct (_ || _); reflexivity.
  - cbn [app lookup_from] in *. destruct (beq lu' uname || beq s' uname); [discriminate|].
    rewrite (IH (i + 1) H). cbn [length]. destruct (_ || _); [f_equal; lia|reflexivity].
Qed.
