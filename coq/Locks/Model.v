(* Model of nobodd/locks.py (LightSwitch, RWLock, _ReadLock, _WriteLock) at the
   granularity of primitive-lock operations.  Executable definitions only.

   Global state: the three primitive locks (held?) and LightSwitch._counter.
   Per thread: RWLockState (read, write, ignored), a program counter inside the
   method being executed, and the remaining program.  One transition per
   primitive-lock operation, plus one per method call (the thread-local
   computations before the first primitive operation).  A blocked blocking
   acquire is "no transition" ([Blocked]); an assertion failure / RuntimeError
   is [Crash] (the thread never moves again, state unchanged).

   [dg] selects the shape of the downgrade path of _WriteLock.release
   (true: release block_writers, re-enter the switch, release block_readers;
   false: the older "hack the counter under the mutex" path); the translator
   tells which one the source has ([Gen.Locks.downgrade_fixed]).
   [w] resolves the only nondeterminism of a thread: a timed acquire of a held
   primitive either keeps waiting (w = true) or times out (w = false). *)
From Coq Require Import List Arith Bool String.
From NV Require Import Gen.Locks.
Import ListNotations.

Inductive mode := MB | MN | MT.            (* blocking, non-blocking, timed *)
Inductive side := SR | SW.
Inductive op := Acq (s : side) (m : mode) | Rel (s : side).

(* who called LightSwitch.acquire / LightSwitch.release *)
Inductive kont := KRead | KUpgFail | KDown.
Inductive rkont := JRel | JUpg (m : mode).

Inductive pc :=
| Idle
| RA_turn (m : mode)            (* _ReadLock.acquire: about to acquire block_readers *)
| RA_turnrel (m : mode)         (* ... about to release it again (turnstile) *)
| SA_mx (m : mode) (k : kont)   (* LightSwitch.acquire: about to acquire _mutex *)
| SA_lock (m : mode) (k : kont) (* ... counter incremented, first: about to acquire _lock *)
| SA_rel (b : bool) (k : kont)  (* ... finally: about to release _mutex, result b *)
| SR_mx (j : rkont)             (* LightSwitch.release: about to acquire _mutex *)
| SR_lock (j : rkont)           (* ... last one out: about to release _lock *)
| SR_rel (j : rkont)            (* ... about to release _mutex *)
| WA_br (m : mode)              (* _WriteLock.acquire: about to acquire block_readers *)
| WA_bw (m : mode)              (* ... about to acquire block_writers *)
| WA_brrel                      (* ... block_writers failed: about to release block_readers *)
| WR_br | WR_bw                 (* _WriteLock.release, plain *)
| WD_bw | WD_br                 (* _WriteLock.release, downgrade (dg = true) *)
| LD_mx | LD_mxrel | LD_br.     (* _WriteLock.release, downgrade (dg = false) *)

Record thread := mkT { rd : nat; wr : nat; ig : nat; tpc : pc; prog : list op }.
Record glob := mkG { bw : bool; br : bool; mx : bool; cnt : nat }.
Record state := mkS { gl : glob; ths : list thread }.

Inductive lk := Lbw | Lbr | Lmx.
Inductive act := ACall | AAcq (l : lk) (m : mode) | AFail (l : lk) (m : mode) | ARel (l : lk).
Inductive ret := RNone | RVoid | RBool (b : bool).
Inductive outcome :=
| Next (g : glob) (t : thread) (a : act) (r : ret)
| Blocked (l : lk)
| Crash
| Finished.

(* after a failed acquire the program skips to just after the matching release *)
Fixpoint skip_block (d : nat) (p : list op) : list op :=
  match p with
  | [] => []
  | Acq _ _ :: r => skip_block (S d) r
  | Rel _ :: r => match d with O => r | S d' => skip_block d' r end
  end.

Definition set_pc (t : thread) (p : pc) : thread := mkT (rd t) (wr t) (ig t) p (prog t).
Definition ret_false (t : thread) : thread :=
  mkT (rd t) (wr t) (ig t) Idle (skip_block 0 (prog t)).

Definition set_bw g b := mkG b (br g) (mx g) (cnt g).
Definition set_br g b := mkG (bw g) b (mx g) (cnt g).
Definition set_mx g b := mkG (bw g) (br g) b (cnt g).
Definition set_mx_cnt g b c := mkG (bw g) (br g) b c.
Definition set_cnt g c := mkG (bw g) (br g) (mx g) c.

Inductive acqres := Got | Failed | Wait.
Definition try_acq (held : bool) (m : mode) (w : bool) : acqres :=
  if held then match m with MB => Wait | MN => Failed | MT => if w then Wait else Failed end
  else Got.

(* LightSwitch.acquire returned b to its caller k, in the step that did action a *)
Definition kret (g : glob) (t : thread) (k : kont) (b : bool) (a : act) : outcome :=
  match k with
  | KRead => if b then Next g (mkT 1 (wr t) (ig t) Idle (prog t)) a (RBool true)
             else Next g (ret_false t) a (RBool false)
  | KUpgFail => Next g (ret_false t) a (RBool false)
  | KDown => Next g (set_pc t WD_br) a RNone
  end.

(* the thread-local part of a method call, up to the first primitive operation *)
Definition call_step (dg : bool) (g : glob) (t : thread) : outcome :=
  match prog t with
  | [] => Finished
  | Acq SR m :: p =>
    match wr t, rd t with
    | S _, _ => Next g (mkT (rd t) (wr t) (S (ig t)) Idle p) ACall (RBool true)
    | O, S _ => Next g (mkT (S (rd t)) (wr t) (ig t) Idle p) ACall (RBool true)
    | O, O => Next g (mkT (rd t) (wr t) (ig t) (RA_turn m) p) ACall RNone
    end
  | Rel SR :: p =>
    match wr t, rd t with
    | S _, _ => match ig t with
                | S i => Next g (mkT (rd t) (wr t) i Idle p) ACall RVoid
                | O => Crash
                end
    | O, S (S r) => Next g (mkT (S r) (wr t) (ig t) Idle p) ACall RVoid
    | O, S O => Next g (mkT 0 (wr t) (ig t) (SR_mx JRel) p) ACall RNone
    | O, O => Crash
    end
  | Acq SW m :: p =>
    match wr t, rd t with
    | S _, _ => Next g (mkT (rd t) (S (wr t)) (ig t) Idle p) ACall (RBool true)
    | O, S _ => match ig t with
                | O => Next g (mkT (rd t) (wr t) (ig t) (SR_mx (JUpg m)) p) ACall RNone
                | S _ => Crash
                end
    | O, O => Next g (mkT (rd t) (wr t) (ig t) (WA_br m) p) ACall RNone
    end
  | Rel SW :: p =>
    match wr t with
    | O => Crash
    | S (S v) => Next g (mkT (rd t) (S v) (ig t) Idle p) ACall RVoid
    | S O =>
      match rd t with
      | S _ => match ig t with
               | O => Next g (mkT (rd t) 0 (ig t) (if dg then WD_bw else LD_mx) p) ACall RNone
               | S _ => Crash
               end
      | O => Next g (mkT (rd t) 0 (ig t) WR_br p) ACall RNone
      end
    end
  end.

(* one transition of one thread *)
Definition tstep (dg w : bool) (g : glob) (t : thread) : outcome :=
  match tpc t with
  | Idle => call_step dg g t
  | RA_turn m =>
    match try_acq (br g) m w with
    | Got => Next (set_br g true) (set_pc t (RA_turnrel m)) (AAcq Lbr m) RNone
    | Failed => Next g (ret_false t) (AFail Lbr m) (RBool false)
    | Wait => Blocked Lbr
    end
  | RA_turnrel m => Next (set_br g false) (set_pc t (SA_mx m KRead)) (ARel Lbr) RNone
  | SA_mx m k =>
    match try_acq (mx g) m w with
    | Got => let c := S (cnt g) in
             Next (set_mx_cnt g true c)
                  (set_pc t (if ls_first_test c then SA_lock m k else SA_rel true k))
                  (AAcq Lmx m) RNone
    | Failed => kret g t k false (AFail Lmx m)
    | Wait => Blocked Lmx
    end
  | SA_lock m k =>
    match try_acq (bw g) m w with
    | Got => Next (set_bw g true) (set_pc t (SA_rel true k)) (AAcq Lbw m) RNone
    | Failed => Next (match ls_fail_reset with Some v => set_cnt g v | None => g end)
                     (set_pc t (SA_rel false k)) (AFail Lbw m) RNone
    | Wait => Blocked Lbw
    end
  | SA_rel b k => kret (set_mx g false) t k b (ARel Lmx)
  | SR_mx j =>
    if mx g then Blocked Lmx else
    match cnt g with
    | O => Crash
    | S c => Next (set_mx_cnt g true c)
                  (set_pc t (if ls_last_test c then SR_lock j else SR_rel j))
                  (AAcq Lmx MB) RNone
    end
  | SR_lock j => Next (set_bw g false) (set_pc t (SR_rel j)) (ARel Lbw) RNone
  | SR_rel j =>
    match j with
    | JRel => Next (set_mx g false) (set_pc t Idle) (ARel Lmx) RVoid
    | JUpg m => Next (set_mx g false) (set_pc t (WA_br m)) (ARel Lmx) RNone
    end
  | WA_br m =>
    match try_acq (br g) m w with
    | Got => Next (set_br g true) (set_pc t (WA_bw m)) (AAcq Lbr m) RNone
    | Failed => match rd t with
                | S _ => Next g (set_pc t (SA_mx MB KUpgFail)) (AFail Lbr m) RNone
                | O => Next g (ret_false t) (AFail Lbr m) (RBool false)
                end
    | Wait => Blocked Lbr
    end
  | WA_bw m =>
    match try_acq (bw g) m w with
    | Got => Next (set_bw g true) (mkT (rd t) 1 (ig t) Idle (prog t)) (AAcq Lbw m) (RBool true)
    | Failed => Next g (set_pc t WA_brrel) (AFail Lbw m) RNone
    | Wait => Blocked Lbw
    end
  | WA_brrel =>
    match rd t with
    | S _ => Next (set_br g false) (set_pc t (SA_mx MB KUpgFail)) (ARel Lbr) RNone
    | O => Next (set_br g false) (ret_false t) (ARel Lbr) (RBool false)
    end
  | WR_br => Next (set_br g false) (set_pc t WR_bw) (ARel Lbr) RNone
  | WR_bw => Next (set_bw g false) (set_pc t Idle) (ARel Lbw) RVoid
  | WD_bw => Next (set_bw g false) (set_pc t (SA_mx MB KDown)) (ARel Lbw) RNone
  | WD_br => Next (set_br g false) (set_pc t Idle) (ARel Lbr) RVoid
  | LD_mx =>
    if mx g then Blocked Lmx else
    match cnt g with
    | O => Next (set_mx_cnt g true legacy_downgrade_counter) (set_pc t LD_mxrel) (AAcq Lmx MB) RNone
    | S _ => Crash
    end
  | LD_mxrel => Next (set_mx g false) (set_pc t LD_br) (ARel Lmx) RNone
  | LD_br => Next (set_br g false) (set_pc t Idle) (ARel Lbr) RVoid
  end.

Fixpoint upd {A} (l : list A) (i : nat) (x : A) : list A :=
  match l, i with
  | [], _ => []
  | _ :: r, O => x :: r
  | y :: r, S i' => y :: upd r i' x
  end.

(* global step of thread i *)
Definition stepP (dg w : bool) (st : state) (i : nat) : option (state * act * ret) :=
  match nth_error (ths st) i with
  | None => None
  | Some t =>
    match tstep dg w (gl st) t with
    | Next g t' a r => Some (mkS g (upd (ths st) i t'), a, r)
    | _ => None
    end
  end.
Definition step := stepP downgrade_fixed.

(* well-nested programs *)
Definition side_eqb (a b : side) : bool :=
  match a, b with SR, SR => true | SW, SW => true | _, _ => false end.
Fixpoint wnb (stk : list side) (p : list op) : bool :=
  match p with
  | [] => match stk with [] => true | _ => false end
  | Acq s _ :: r => wnb (s :: stk) r
  | Rel s :: r => match stk with
                  | s' :: stk' => side_eqb s s' && wnb stk' r
                  | [] => false
                  end
  end.

Definition free : glob := mkG false false false 0.
Definition init (progs : list (list op)) : state :=
  mkS free (map (fun p => mkT 0 0 0 Idle p) progs).

Definition finishedb (t : thread) : bool :=
  match tpc t, prog t with Idle, [] => true | _, _ => false end.
Definition enabledb (dg : bool) (g : glob) (t : thread) : bool :=
  match tstep dg false g t with Next _ _ _ _ => true | _ => false end.
(* some thread is unfinished and no thread can move (blocked or crashed) *)
Definition stuckb (dg : bool) (st : state) : bool :=
  existsb (fun t => negb (finishedb t)) (ths st) &&
  forallb (fun t => negb (enabledb dg (gl st) t)) (ths st).

(* run a schedule (thread id, keep-waiting flag); steps that are not enabled are skipped *)
Fixpoint runP (dg : bool) (st : state) (sch : list (nat * bool)) : state :=
  match sch with
  | [] => st
  | (i, w) :: r => match stepP dg w st i with
                   | Some (st', _, _) => runP dg st' r
                   | None => runP dg st r
                   end
  end.

(* bounded depth-first search for a stuck state; returns the schedule (search
   tool for the harness, not part of any theorem) *)
Fixpoint search (dg : bool) (fuel : nat) (st : state) : option (list nat) :=
  if stuckb dg st then Some [] else
  match fuel with
  | O => None
  | S f =>
    (fix try (is : list nat) : option (list nat) :=
       match is with
       | [] => None
       | i :: r => match stepP dg false st i with
                   | Some (st', _, _) =>
                     match search dg f st' with
                     | Some s => Some (i :: s)
                     | None => try r
                     end
                   | None => try r
                   end
       end) (seq 0 (List.length (ths st)))
  end.

(* the source text the model was written against (canonical per-method digests
   computed by the translator); compared in Props/C13.v *)
Open Scope string_scope.
Definition expected_digests : list (string * string) := [
  ("remaining", "65aa73b42ae534598894aaae");
  ("LightSwitch.__init__", "4fed69c74f7fedee71dd87e5");
  ("LightSwitch.acquire", "f3c582c1b1c676974ada318e");
  ("LightSwitch.release", "be30b053a8559d517a2a0f7a");
  ("RWLockState.__init__", "be3788cf830cc4424fa6a15e");
  ("RWLock.__init__", "888bbf0fb8fa7f34ca252033");
  ("_BaseLock.__init__", "2a447a7b0a4c0c7d57d16433");
  ("_BaseLock._get_state", "0398ebb61f7492e00b67067e");
  ("_ReadLock.__init__", "5b8a69c820f64654aea22408");
  ("_ReadLock.acquire", "1be029f4131a79524b48a69a");
  ("_ReadLock.release", "712cdce1ab82e96d145a648a");
  ("_WriteLock.__init__", "576461e67b0c46269d79060d");
  ("_WriteLock.acquire", "91693d7d4b9f8e6ef04cc90b");
  ("_WriteLock.release", "cae68988a03ab9efba396dd7")].
Fixpoint digests_eqb (a b : list (string * string)) : bool :=
  match a, b with
  | [], [] => true
  | (n, d) :: a', (n', d') :: b' => String.eqb n n' && String.eqb d d' && digests_eqb a' b'
  | _, _ => false
  end.
Definition source_shape_ok : bool := digests_eqb method_digests expected_digests.
