(* The statements of the lock theorems that other properties rest on (C07: transfers share a volume
   under the read side; C14: serial equivalence), as named propositions, so that their Props files
   can restate them without importing the whole lock development. *)
From Coq Require Import List Arith Bool.
From NV Require Import Gen.Locks Locks.Model Locks.Inv Locks.ProofsInv Locks.ProofsExcl
  Locks.ProofsNoop Locks.ProofsProgress Locks.Proofs.
Import ListNotations.

(* the model is the text of the current nobodd/locks.py (per-method digests, repaired downgrade) *)
Definition model_matches_source_statement : Prop := source_shape_ok = true /\ downgrade_fixed = true.
Lemma model_matches_source_holds : model_matches_source_statement.
Proof. exact source_is_repaired. Qed.

(* while a thread holds the write side no other thread holds the write side or is in the read
   critical section: any number of threads, any well-nested programs, every interleaving *)
Definition exclusion_statement : Prop := forall progs st i j t u,
  well_nested progs -> reach progs st -> i <> j ->
  nth_error (ths st) i = Some t -> nth_error (ths st) j = Some u ->
  in_write t -> ~ in_write u /\ ~ in_read u.
Lemma exclusion_holds : exclusion_statement.
Proof. exact exclusion_reach. Qed.

(* as long as some thread has not finished, some thread can move *)
Definition no_deadlock_statement : Prop := forall progs st,
  well_nested progs -> reach progs st ->
  (exists t, In t (ths st) /\ finishedb t = false) ->
  exists i st' a r, step false st i = Some (st', a, r).
Lemma no_deadlock_holds : no_deadlock_statement.
Proof. exact no_deadlock_reach. Qed.
