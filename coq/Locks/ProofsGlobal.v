(* The accounting invariant GI is preserved by every transition of one thread
   (repaired protocol), stated over the totals held by the other threads. *)
From Coq Require Import List Arith Bool Lia.
From NV Require Import Gen.Locks Locks.Model Locks.Inv Locks.ProofsLocal.
Import ListNotations.

Local Opaque Nat.min Nat.sub.

Ltac destr_all :=
  repeat match goal with
  | m : mode |- _ => destruct m
  | k : kont |- _ => destruct k
  | j : rkont |- _ => destruct j
  end.

Ltac fin H :=
  try discriminate H; inversion H; subst; clear H;
  unfold hmx, hbr, hbw, hsw, hpd, kdown; simpl;
  first [ assumption
        | destr_all; simpl in *; repeat split; lia ].

Theorem tstep_G : forall w g t g' t' a r oM oBr oBw oSw oPd,
  L t -> oPd <= oM ->
  GI g (oM + hmx t) (oBr + hbr t) (oBw + hbw t) (oSw + hsw t) (oPd + hpd t) ->
  tstep true w g t = Next g' t' a r ->
  GI g' (oM + hmx t') (oBr + hbr t') (oBw + hbw t') (oSw + hsw t') (oPd + hpd t').
Proof.
  intros w g [r0 w0 i0 p0 pr] g' t' a r oM oBr oBw oSw oPd HL Hle HG H.
  destruct g as [gbw gbr gmx gc].
  assert (Bbw : b2n gbw <= 1) by (destruct gbw; simpl; lia).
  assert (Bbr : b2n gbr <= 1) by (destruct gbr; simpl; lia).
  assert (Bmx : b2n gmx <= 1) by (destruct gmx; simpl; lia).
  unfold L in HL. unfold GI in *. unfold tstep in H.
  unfold hmx, hbr, hbw, hsw, hpd in HG. simpl in *.
  destruct p0; simpl in *.
  - (* Idle *)
    unfold call_step in H; simpl in H.
    destruct pr as [|[[|] m|[|]] pr]; try discriminate H.
    + destruct w0, r0; fin H.
    + destruct w0, r0; try destruct i0; fin H.
    + destruct w0; [destruct r0 as [|[|r0]]|destruct i0]; fin H.
    + destruct w0 as [|[|w0]]; [| destruct r0; [|destruct i0] |]; fin H.
  - destruct HL as (-> & -> & _). destruct gbr, m, w; simpl in H; fin H.
  - fin H.
  - (* SA_mx *)
    unfold ls_first_test in H. unfold kmclass in HL.
    destruct gmx; simpl in H.
    + destruct m; [discriminate H| |destruct w; [discriminate H|]];
        (destruct k; simpl in HL; unfold WAcond in HL; simpl in HL; try contradiction);
        destruct HL as (-> & -> & _); fin H.
    + destruct gc; simpl in H; destruct k; destruct m; simpl in HL; unfold WAcond in HL; simpl in HL; try contradiction; fin H.
  - (* SA_lock *)
    unfold ls_fail_reset in H. unfold kmclass in HL.
    destruct gbw; simpl in H.
    + destruct m; [discriminate H| |destruct w; [discriminate H|]];
        (destruct k; simpl in HL; unfold WAcond in HL; simpl in HL; try contradiction); fin H.
    + destruct k; destruct m; simpl in HL; unfold WAcond in HL; simpl in HL; try contradiction; fin H.
  - (* SA_rel *)
    unfold kbclass in HL.
    destruct k, b; simpl in HL; unfold WAcond in HL; simpl in HL; try contradiction; simpl in H.
    + destruct HL as (_ & -> & _). fin H.
    + destruct HL as (-> & -> & _). fin H.
    + destruct HL as (Hr & -> & _). destruct r0; [lia|]. fin H.
    + fin H.
  - (* SR_mx *)
    unfold ls_last_test in H.
    destruct gmx; [discriminate H|]. destruct gc as [|[|gc]]; [discriminate H| |]; simpl in H; fin H.
  - fin H.
  - destruct j; simpl in HL; [destruct HL as (-> & -> & _)|]; fin H.
  - (* WA_br *)
    unfold WAcond in HL; simpl in HL.
    destruct HL as (-> & _). destruct gbr, m, w; simpl in H; try discriminate H; destruct r0; fin H.
  - (* WA_bw *)
    unfold WAcond in HL; simpl in HL. destruct HL as (-> & _).
    destruct gbw, m, w; simpl in H; fin H.
  - unfold WAcond in HL; simpl in HL. destruct HL as (-> & _). destruct r0; fin H.
  - fin H.
  - destruct HL as (-> & -> & _). fin H.
  - fin H.
  - destruct HL as (Hr & -> & _). destruct r0; [lia|]. fin H.
  - contradiction.
  - contradiction.
  - contradiction.
Qed.
