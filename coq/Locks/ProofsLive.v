(* Deadlock freedom of the repaired protocol: in every state satisfying the
   invariant, if some thread is unfinished then some thread can move. *)
From Coq Require Import List Arith Bool Lia.
From NV Require Import Gen.Locks Locks.Model Locks.Inv Locks.ProofsLocal Locks.ProofsGlobal
  Locks.ProofsInv Locks.ProofsExcl.
Import ListNotations.

Definition waits (t : thread) : option lk :=
  match tpc t with
  | RA_turn MB | WA_br MB => Some Lbr
  | SA_mx MB _ | SR_mx _ | LD_mx => Some Lmx
  | SA_lock MB _ | WA_bw MB => Some Lbw
  | _ => None
  end.
Definition held (g : glob) (l : lk) : bool :=
  match l with Lbw => bw g | Lbr => br g | Lmx => mx g end.

(* not enabled = finished, or waiting in a blocking acquire of a held primitive *)
Definition NE (g : glob) (t : thread) : Prop :=
  finishedb t = true \/ exists l, waits t = Some l /\ held g l = true.

Lemma not_enabled_NE : forall g t,
  tstep true false g t <> Crash -> enabledb true g t = false -> NE g t.
Proof.
  intros g t Hc He. unfold enabledb in He. unfold NE, waits, finishedb.
  unfold tstep in *. destruct (tpc t) eqn:E.
  - unfold call_step in *. destruct (prog t) as [|[[|] m|[|]] p]; [left; reflexivity|..];
      exfalso; destruct (wr t) as [|[|?]], (rd t) as [|[|?]], (ig t);
      simpl in *; try discriminate; congruence.
  - destruct (br g) eqn:B, m; simpl in *; try discriminate. right. exists Lbr. auto.
  - discriminate.
  - destruct (mx g) eqn:B, m; simpl in *; try discriminate;
      try (destruct k; simpl in *; discriminate). right. exists Lmx. auto.
  - destruct (bw g) eqn:B, m; simpl in *; try discriminate. right. exists Lbw. auto.
  - destruct k, b; simpl in *; discriminate.
  - destruct (mx g) eqn:B.
    + right. exists Lmx. auto.
    + destruct (cnt g); [congruence|discriminate].
  - discriminate.
  - destruct j; discriminate.
  - destruct (br g) eqn:B, m; simpl in *; try discriminate;
      try (destruct (rd t); discriminate). right. exists Lbr. auto.
  - destruct (bw g) eqn:B, m; simpl in *; try discriminate. right. exists Lbw. auto.
  - destruct (rd t); discriminate.
  - discriminate.
  - discriminate.
  - discriminate.
  - discriminate.
  - destruct (mx g) eqn:B; [|destruct (cnt g); [discriminate|congruence]].
    right. exists Lmx. auto.
  - discriminate.
  - discriminate.
Qed.

(* what a thread that cannot move may hold *)
Lemma NE_holds : forall g t, L t -> NE g t ->
  hbw t = 0 /\
  (0 < hmx t -> hpd t = 1 /\ bw g = true) /\
  (0 < hsw t -> hpd t = 1 \/ mx g = true) /\
  (0 < hbr t -> bw g = true \/ mx g = true).
Proof.
  intros g t HL [Hf|(l & Hw & Hh)].
  - unfold finishedb in Hf. destruct (tpc t) eqn:E; try discriminate.
    destruct (prog t) eqn:Ep; try discriminate.
    destruct (L_finished t HL E Ep) as (Hr & Hw & _).
    unfold hbw, hmx, hsw, hbr. rewrite E, Hr, Hw. repeat split; intros; lia.
  - unfold L in HL. unfold waits in Hw. unfold hbw, hmx, hsw, hbr, hpd.
    destruct (tpc t) eqn:E; try discriminate; simpl in HL; try contradiction;
      try (destruct m; try discriminate); inversion Hw; subst; simpl in Hh;
      try (destruct k; simpl in *);
      repeat split; intros; try lia; auto.
Qed.

Section Stuck.
  Variable st : state.
  Hypothesis HI : Inv st.
  Hypothesis HNE : forall t, In t (ths st) -> NE (gl st) t.

  Let HLt : forall t, In t (ths st) -> L t.
  Proof. destruct HI as [_ HL]. rewrite Forall_forall in HL. exact HL. Qed.

  Lemma stuck_no_pd_holder : forall i t, nth_error (ths st) i = Some t -> hpd t = 1 ->
    1 <= sumf hpd (ths st).
  Proof. intros i t H E. pose proof (sumf_ge hpd _ _ _ H). lia. Qed.

  Lemma stuck_bw_free : bw (gl st) = true -> False.
  Proof.
    intros Hb. destruct HI as [(HM & HBr & HBw & HSw & HPd & HPM) _].
    assert (Z : sumf hbw (ths st) = 0).
    { apply sumf_zero. intros t Hin. apply (NE_holds (gl st) t); auto. }
    rewrite Z, Hb in HBw. cbn [b2n] in HBw.
    pose proof (b2n_le1 (mx (gl st))).
    assert (Pd0 : sumf hpd (ths st) = 0) by lia.
    assert (Hpos : 0 < sumf hsw (ths st)) by lia.
    destruct (sumf_pos_ex _ _ Hpos) as (i & s & Hi & Hs).
    pose proof (nth_error_In _ _ Hi) as Hin.
    destruct (NE_holds (gl st) s (HLt s Hin) (HNE s Hin)) as (_ & _ & Hsw & _).
    destruct (Hsw Hs) as [Hp|Hm].
    - pose proof (stuck_no_pd_holder _ _ Hi Hp). lia.
    - rewrite Hm in HM. cbn [b2n] in HM.
      assert (Hpos' : 0 < sumf hmx (ths st)) by lia.
      destruct (sumf_pos_ex _ _ Hpos') as (k & h & Hk & Hh).
      pose proof (nth_error_In _ _ Hk) as Hink.
      destruct (NE_holds (gl st) h (HLt h Hink) (HNE h Hink)) as (_ & Hmx & _).
      destruct (Hmx Hh) as [Hp _]. pose proof (stuck_no_pd_holder _ _ Hk Hp). lia.
  Qed.

  Lemma stuck_mx_free : mx (gl st) = true -> False.
  Proof.
    intros Hm. destruct HI as [(HM & _) _]. rewrite Hm in HM. cbn [b2n] in HM.
    assert (Hpos : 0 < sumf hmx (ths st)) by lia.
    destruct (sumf_pos_ex _ _ Hpos) as (k & h & Hk & Hh).
    pose proof (nth_error_In _ _ Hk) as Hink.
    destruct (NE_holds (gl st) h (HLt h Hink) (HNE h Hink)) as (_ & Hmx & _).
    destruct (Hmx Hh) as [_ Hb]. exact (stuck_bw_free Hb).
  Qed.

  Lemma stuck_br_free : br (gl st) = true -> False.
  Proof.
    intros Hm. destruct HI as [(_ & HBr & _) _]. rewrite Hm in HBr. cbn [b2n] in HBr.
    assert (Hpos : 0 < sumf hbr (ths st)) by lia.
    destruct (sumf_pos_ex _ _ Hpos) as (k & h & Hk & Hh).
    pose proof (nth_error_In _ _ Hk) as Hink.
    destruct (NE_holds (gl st) h (HLt h Hink) (HNE h Hink)) as (_ & _ & _ & Hb).
    destruct (Hb Hh); [exact (stuck_bw_free H)|exact (stuck_mx_free H)].
  Qed.

  Lemma stuck_all_finished : forall t, In t (ths st) -> finishedb t = true.
  Proof.
    intros t Hin. destruct (HNE t Hin) as [Hf|(l & Hw & Hh)]; auto. exfalso.
    destruct l; simpl in Hh.
    - exact (stuck_bw_free Hh).
    - exact (stuck_br_free Hh).
    - exact (stuck_mx_free Hh).
  Qed.
End Stuck.

Theorem no_deadlock : forall st, Inv st ->
  (exists t, In t (ths st) /\ finishedb t = false) ->
  exists i st' a r, stepP true false st i = Some (st', a, r).
Proof.
  intros st HI (u & Hu & Hf).
  destruct (existsb (enabledb true (gl st)) (ths st)) eqn:E.
  - apply existsb_exists in E. destruct E as (t & Hin & He).
    destruct (In_nth_error _ _ Hin) as (i & Hi). exists i.
    unfold stepP. rewrite Hi. unfold enabledb in He.
    destruct (tstep true false (gl st) t); try discriminate. eauto.
  - exfalso. assert (HNE : forall t, In t (ths st) -> NE (gl st) t).
    { intros t Hin. destruct (In_nth_error _ _ Hin) as (i & Hi).
      apply not_enabled_NE.
      - eapply no_crash; eauto.
      - destruct (enabledb true (gl st) t) eqn:Et; auto.
        assert (existsb (enabledb true (gl st)) (ths st) = true)
          by (apply existsb_exists; eauto). congruence. }
    pose proof (stuck_all_finished st HI HNE u Hu). congruence.
Qed.

Theorem never_stuck : forall st, Inv st -> stuckb true st = false.
Proof.
  intros st HI. unfold stuckb.
  destruct (existsb (fun t => negb (finishedb t)) (ths st)) eqn:E; [|reflexivity].
  apply existsb_exists in E. destruct E as (u & Hu & Hf). apply negb_true_iff in Hf.
  destruct (no_deadlock st HI (ex_intro _ u (conj Hu Hf))) as (i & st' & a & r & H).
  unfold stepP in H. destruct (nth_error (ths st) i) as [t|] eqn:Hi; [|discriminate].
  simpl. apply not_true_iff_false. intros Hall. rewrite forallb_forall in Hall.
  specialize (Hall t (nth_error_In _ _ Hi)). unfold enabledb in Hall.
  destruct (tstep true false (gl st) t); try discriminate.
Qed.
