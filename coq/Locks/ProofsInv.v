(* The invariant Inv = G /\ Forall L holds in every reachable state of the
   repaired protocol, for any number of threads and any well-nested programs. *)
From Coq Require Import List Arith Bool Lia.
From NV Require Import Gen.Locks Locks.Model Locks.Inv Locks.ProofsLocal Locks.ProofsGlobal.
Import ListNotations.

Definition Inv (st : state) : Prop := G st /\ Forall L (ths st).

Inductive reachP (dg : bool) (st0 : state) : state -> Prop :=
| reach0 : reachP dg st0 st0
| reachS : forall st st' i w a r,
    reachP dg st0 st -> stepP dg w st i = Some (st', a, r) -> reachP dg st0 st'.

Definition zt : thread := mkT 0 0 0 Idle [].

Lemma upd_upd : forall {A} (l : list A) i x y, upd (upd l i x) i y = upd l i y.
Proof. induction l; intros [|i] x y; simpl; auto. f_equal. apply IHl. Qed.

Lemma Forall_upd : forall {A} (P : A -> Prop) l i x, Forall P l -> P x -> Forall P (upd l i x).
Proof.
  induction l; intros [|i] x Hl Hx; simpl; auto; inversion Hl; subst; constructor; auto.
Qed.

Lemma Forall_nth : forall {A} (P : A -> Prop) l i x, Forall P l -> nth_error l i = Some x -> P x.
Proof. intros A P l i x H Hn. rewrite Forall_forall in H. apply H. eapply nth_error_In; eauto. Qed.

Lemma hpd_le_hmx : forall t, hpd t <= hmx t.
Proof. intros t. unfold hpd, hmx. destruct (tpc t); lia. Qed.

(* split the totals into thread i and the others *)
Lemma sumf_split : forall f l i t, nth_error l i = Some t -> f zt = 0 ->
  sumf f l = sumf f (upd l i zt) + f t.
Proof. intros f l i t H Hz. pose proof (sumf_upd f l i t zt H). lia. Qed.

Lemma sumf_split' : forall f l i t t', nth_error l i = Some t -> f zt = 0 ->
  sumf f (upd l i t') = sumf f (upd l i zt) + f t'.
Proof.
  intros f l i t t' H Hz.
  pose proof (sumf_upd f (upd l i zt) i zt t' (nth_upd_same l i zt t H)).
  rewrite upd_upd in H0. lia.
Qed.

Theorem Inv_step : forall w st i st' a r,
  Inv st -> stepP true w st i = Some (st', a, r) -> Inv st'.
Proof.
  intros w st i st' a r [HG HL] H. unfold stepP in H.
  destruct (nth_error (ths st) i) as [t|] eqn:En; [|discriminate].
  destruct (tstep true w (gl st) t) as [g t' a' r'| | |] eqn:Et; try discriminate.
  inversion H; subst; clear H.
  pose proof (Forall_nth _ _ _ _ HL En) as HLt.
  split.
  - unfold G in *; simpl.
    rewrite (sumf_split hmx _ _ _ En eq_refl), (sumf_split hbr _ _ _ En eq_refl),
            (sumf_split hbw _ _ _ En eq_refl), (sumf_split hsw _ _ _ En eq_refl),
            (sumf_split hpd _ _ _ En eq_refl) in HG.
    rewrite (sumf_split' hmx _ _ _ t' En eq_refl), (sumf_split' hbr _ _ _ t' En eq_refl),
            (sumf_split' hbw _ _ _ t' En eq_refl), (sumf_split' hsw _ _ _ t' En eq_refl),
            (sumf_split' hpd _ _ _ t' En eq_refl).
    eapply tstep_G; eauto. apply sumf_le. apply hpd_le_hmx.
  - simpl. apply Forall_upd; auto. eapply tstep_L; eauto.
Qed.

Lemma sumf_init : forall f progs, (forall p, f (mkT 0 0 0 Idle p) = 0) ->
  sumf f (map (fun p => mkT 0 0 0 Idle p) progs) = 0.
Proof. intros f progs H. induction progs; simpl; auto. rewrite H, IHprogs. reflexivity. Qed.

Definition well_nested (progs : list (list op)) : Prop := Forall (fun p => wnb [] p = true) progs.

Theorem Inv_init : forall progs, well_nested progs -> Inv (init progs).
Proof.
  intros progs H. split.
  - unfold G, init, GI; simpl. rewrite !sumf_init by reflexivity. simpl. repeat split; lia.
  - unfold init; simpl. induction H; simpl; constructor; auto. apply L_init; auto.
Qed.

Theorem Inv_reach : forall progs st, well_nested progs -> reachP true (init progs) st -> Inv st.
Proof.
  intros progs st Hw H. induction H.
  - apply Inv_init; auto.
  - eapply Inv_step; eauto.
Qed.
