(* Property-level statements about the model instantiated with the facts the
   translator extracted from the current source ([step] = [stepP downgrade_fixed]). *)
From Coq Require Import List Arith Bool Lia.
From NV Require Import Gen.Locks Locks.Model Locks.Inv Locks.ProofsLocal Locks.ProofsGlobal
  Locks.ProofsInv Locks.ProofsExcl Locks.ProofsLive Locks.ProofsNoop Locks.ProofsProgress.
Import ListNotations.

Definition reach (progs : list (list op)) (st : state) : Prop :=
  reachP downgrade_fixed (init progs) st.

Lemma source_is_repaired : source_shape_ok = true /\ downgrade_fixed = true.
Proof. split; reflexivity. Qed.

Lemma reach_Inv : forall progs st, well_nested progs -> reach progs st -> Inv st.
Proof.
  unfold reach. destruct source_is_repaired as [_ ->]. apply Inv_reach.
Qed.

Theorem exclusion_reach : forall progs st i j t u,
  well_nested progs -> reach progs st -> i <> j ->
  nth_error (ths st) i = Some t -> nth_error (ths st) j = Some u ->
  in_write t -> ~ in_write u /\ ~ in_read u.
Proof. intros. eapply exclusion; eauto using reach_Inv. Qed.

Theorem counter_reach : forall progs st,
  well_nested progs -> reach progs st -> cnt (gl st) = sumf hsw (ths st).
Proof. intros. apply counter_consistent. eauto using reach_Inv. Qed.

Theorem quiescent_reach : forall progs st,
  well_nested progs -> reach progs st ->
  (forall t, In t (ths st) -> finishedb t = true) ->
  gl st = free /\ forall t, In t (ths st) -> rd t = 0 /\ wr t = 0 /\ ig t = 0.
Proof. intros. apply quiescent; eauto using reach_Inv. Qed.

Theorem no_crash_reach : forall progs st i t w,
  well_nested progs -> reach progs st -> nth_error (ths st) i = Some t ->
  tstep downgrade_fixed w (gl st) t <> Crash.
Proof.
  intros. destruct source_is_repaired as [_ E]. rewrite E. eapply no_crash; eauto using reach_Inv.
Qed.

Theorem no_deadlock_reach : forall progs st,
  well_nested progs -> reach progs st ->
  (exists t, In t (ths st) /\ finishedb t = false) ->
  exists i st' a r, step false st i = Some (st', a, r).
Proof.
  intros. unfold step. destruct source_is_repaired as [_ E]. rewrite E.
  apply no_deadlock; eauto using reach_Inv.
Qed.

Theorem never_stuck_reach : forall progs st,
  well_nested progs -> reach progs st -> stuckb downgrade_fixed st = false.
Proof.
  intros. destruct source_is_repaired as [_ E]. rewrite E. apply never_stuck. eauto using reach_Inv.
Qed.

Theorem progress_measure : forall w st i st' a r,
  step w st i = Some (st', a, r) -> measure st' < measure st.
Proof. intros. eapply step_measure; eauto. Qed.

(* a call of thread i that began in st0 and is still running in st1 *)
Definition in_call (i : nat) (st0 st1 : state) : Prop := seg i st0 st1.

Theorem failed_attempt_noop_reach : forall progs i st0 st1 st2 t0 s m p w a,
  well_nested progs -> reach progs st0 ->
  nth_error (ths st0) i = Some t0 -> tpc t0 = Idle -> prog t0 = Acq s m :: p ->
  in_call i st0 st1 ->
  step w st1 i = Some (st2, a, RBool false) ->
  exists t2, nth_error (ths st2) i = Some t2 /\
    tpc t2 = Idle /\ rd t2 = rd t0 /\ wr t2 = wr t0 /\ ig t2 = ig t0 /\
    prog t2 = skip_block 0 p /\
    ((forall j, j <> i -> nth_error (ths st2) j = nth_error (ths st0) j) -> gl st2 = gl st0).
Proof.
  intros progs i st0 st1 st2 t0 s m p w a Hw Hr H0 Hpc Hp Hs Hst.
  unfold step in Hst. destruct source_is_repaired as [_ E]. rewrite E in Hst.
  eapply failed_attempt_noop; eauto using reach_Inv.
Qed.
