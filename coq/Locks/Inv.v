(* Invariants of the lock model: what each thread holds at each program point
   (ghost accounting), the global accounting invariant GI, and the thread-local
   invariant L (well-nestedness bookkeeping). *)
From Coq Require Import List Arith Bool Lia.
From NV Require Import Gen.Locks Locks.Model.
Import ListNotations.

Definition b2n (b : bool) : nat := if b then 1 else 0.
Definition kdown (k : kont) : nat := match k with KDown => 1 | _ => 0 end.

(* holds the switch mutex *)
Definition hmx (t : thread) : nat :=
  match tpc t with
  | SA_lock _ _ | SA_rel _ _ | SR_lock _ | SR_rel _ | LD_mxrel => 1
  | _ => 0
  end.
(* holds block_readers *)
Definition hbr (t : thread) : nat :=
  match tpc t with
  | Idle => match wr t with O => 0 | S _ => 1 end
  | RA_turnrel _ | WA_bw _ | WA_brrel | WR_br | WD_bw | WD_br | LD_mx | LD_mxrel | LD_br => 1
  | SA_mx _ k | SA_lock _ k | SA_rel _ k => kdown k
  | _ => 0
  end.
(* holds block_writers personally (as writer, or as the last reader about to release it) *)
Definition hbw (t : thread) : nat :=
  match tpc t with
  | Idle => match wr t with O => 0 | S _ => 1 end
  | WR_br | WR_bw | WD_bw | SR_lock _ | LD_mx => 1
  | _ => 0
  end.
(* is counted in LightSwitch._counter *)
Definition hsw (t : thread) : nat :=
  match tpc t with
  | Idle => match wr t, rd t with O, S _ => 1 | _, _ => 0 end
  | SA_lock _ _ | SA_rel true _ | SR_mx _ | WD_br | LD_mxrel | LD_br => 1
  | _ => 0
  end.
(* counted, but the switch does not hold block_writers yet *)
Definition hpd (t : thread) : nat :=
  match tpc t with SA_lock _ _ => 1 | _ => 0 end.

Fixpoint sumf (f : thread -> nat) (l : list thread) : nat :=
  match l with [] => 0 | t :: r => f t + sumf f r end.

Lemma sumf_upd : forall f l i t t',
  nth_error l i = Some t -> sumf f (upd l i t') + f t = sumf f l + f t'.
Proof.
  induction l as [|y l IH]; intros [|i] t t' H; simpl in *; try discriminate.
  - inversion H; subst. lia.
  - specialize (IH i t t' H). lia.
Qed.

Lemma sumf_ge : forall f l i t, nth_error l i = Some t -> f t <= sumf f l.
Proof.
  induction l as [|y l IH]; intros [|i] t H; simpl in *; try discriminate.
  - inversion H; subst. lia.
  - specialize (IH i t H). lia.
Qed.

Lemma sumf_two : forall f l i j t u, i <> j ->
  nth_error l i = Some t -> nth_error l j = Some u -> f t + f u <= sumf f l.
Proof.
  induction l as [|y l IH]; intros [|i] [|j] t u Hn Hi Hj; simpl in *;
    try discriminate; try congruence.
  - inversion Hi; subst. pose proof (sumf_ge f l j u Hj). lia.
  - inversion Hj; subst. pose proof (sumf_ge f l i t Hi). lia.
  - assert (i <> j) by congruence. specialize (IH i j t u H Hi Hj). lia.
Qed.

Lemma sumf_pos_ex : forall f l, 0 < sumf f l ->
  exists i t, nth_error l i = Some t /\ 0 < f t.
Proof.
  induction l as [|y l IH]; simpl; intros H; [lia|].
  destruct (f y) eqn:E.
  - destruct IH as (i & t & Hi & Ht); [lia|]. exists (S i), t. auto.
  - exists 0, y. simpl. split; [reflexivity|lia].
Qed.

Lemma sumf_zero : forall f l, (forall t, In t l -> f t = 0) -> sumf f l = 0.
Proof.
  induction l as [|y l IH]; simpl; intros H; [reflexivity|].
  rewrite (H y), IH; auto.
Qed.

Lemma sumf_le : forall f h l, (forall t, f t <= h t) -> sumf f l <= sumf h l.
Proof. induction l; simpl; intros H; [lia|]. pose proof (H a). specialize (IHl H). lia. Qed.

Lemma nth_upd_same : forall {A} (l : list A) i x t,
  nth_error l i = Some t -> nth_error (upd l i x) i = Some x.
Proof. induction l; intros [|i] x t H; simpl in *; try discriminate; eauto. Qed.

Lemma nth_upd_other : forall {A} (l : list A) i j x, i <> j ->
  nth_error (upd l i x) j = nth_error l j.
Proof.
  induction l; intros [|i] [|j] x H; simpl; try reflexivity; try congruence.
  apply IHl. congruence.
Qed.

Lemma upd_length : forall {A} (l : list A) i x, length (upd l i x) = length l.
Proof. induction l; intros [|i] x; simpl; auto. Qed.

(* the accounting invariant, over the totals of what the threads hold *)
Definition GI (g : glob) (M Br Bw Sw Pd : nat) : Prop :=
  M = b2n (mx g) /\ Br = b2n (br g) /\ Bw + min 1 (cnt g - Pd) = b2n (bw g) /\
  cnt g = Sw /\ (1 <= Pd -> cnt g = 1) /\ Pd <= M.

Definition G (st : state) : Prop :=
  GI (gl st) (sumf hmx (ths st)) (sumf hbr (ths st)) (sumf hbw (ths st))
     (sumf hsw (ths st)) (sumf hpd (ths st)).

(* shape of the stack of open acquisitions (top first) against (read, write, ignored) *)
Inductive shp : list side -> nat -> nat -> nat -> Prop :=
| shp_nil : shp [] 0 0 0
| shp_r : forall stk r, shp stk r 0 0 -> shp (SR :: stk) (S r) 0 0
| shp_w : forall stk r w i, shp stk r w i -> shp (SW :: stk) r (S w) i
| shp_i : forall stk r w i, shp stk r (S w) i -> shp (SR :: stk) r (S w) (S i).

Inductive class := CIdle | CReadAcq | CZero | CWriteAcq | CUpgFail | CDown | CBad.
Definition kclass (k : kont) : class :=
  match k with KRead => CReadAcq | KUpgFail => CUpgFail | KDown => CDown end.
Definition jclass (j : rkont) : class :=
  match j with JRel => CZero | JUpg _ => CWriteAcq end.
(* the switch is re-entered on behalf of a failed upgrade / a downgrade only in
   blocking mode, so those calls cannot fail *)
Definition kmclass (m : mode) (k : kont) : class :=
  match k, m with
  | KRead, _ => CReadAcq
  | _, MB => kclass k
  | _, _ => CBad
  end.
Definition kbclass (b : bool) (k : kont) : class :=
  match k, b with
  | KRead, _ => CReadAcq
  | _, true => kclass k
  | _, false => CBad
  end.
Definition pclass (p : pc) : class :=
  match p with
  | Idle => CIdle
  | RA_turn _ | RA_turnrel _ => CReadAcq
  | SA_mx m k | SA_lock m k => kmclass m k
  | SA_rel b k => kbclass b k
  | SR_mx j | SR_lock j | SR_rel j => jclass j
  | WA_br _ | WA_bw _ | WA_brrel => CWriteAcq
  | WR_br | WR_bw => CZero
  | WD_bw | WD_br => CDown
  | LD_mx | LD_mxrel | LD_br => CBad
  end.

Definition WAcond (t : thread) : Prop :=
  wr t = 0 /\ ig t = 0 /\ exists stk, shp stk (rd t) 0 0 /\ wnb (SW :: stk) (prog t) = true.

Definition Lc (c : class) (t : thread) : Prop :=
  match c with
  | CIdle => exists stk, shp stk (rd t) (wr t) (ig t) /\ wnb stk (prog t) = true
  | CReadAcq => rd t = 0 /\ wr t = 0 /\ ig t = 0 /\ wnb [SR] (prog t) = true
  | CZero => rd t = 0 /\ wr t = 0 /\ ig t = 0 /\ wnb [] (prog t) = true
  | CWriteAcq => WAcond t
  | CUpgFail => 0 < rd t /\ WAcond t
  | CDown => 0 < rd t /\ wr t = 0 /\ ig t = 0 /\
             exists stk, shp stk (rd t) 0 0 /\ wnb stk (prog t) = true
  | CBad => False
  end.
Definition L (t : thread) : Prop := Lc (pclass (tpc t)) t.
