(* A failed non-blocking / timed attempt changes nothing.
   [seg i st0 st1]: thread i made its call step in st0 (not returning yet) and is
   still inside that call in st1; other threads moved arbitrarily in between. *)
From Coq Require Import List Arith Bool Lia.
From NV Require Import Gen.Locks Locks.Model Locks.Inv Locks.ProofsLocal Locks.ProofsGlobal
  Locks.ProofsInv Locks.ProofsExcl.
Import ListNotations.

Inductive seg (i : nat) : state -> state -> Prop :=
| seg_call : forall st st' w,
    stepP true w st i = Some (st', ACall, RNone) -> seg i st st'
| seg_own : forall st st1 st2 w a,
    seg i st st1 -> stepP true w st1 i = Some (st2, a, RNone) -> seg i st st2
| seg_other : forall st st1 st2 j w a r,
    seg i st st1 -> j <> i -> stepP true w st1 j = Some (st2, a, r) -> seg i st st2.

Lemma seg_Inv : forall i st st1, Inv st -> seg i st st1 -> Inv st1.
Proof. intros i st st1 HI H. induction H; eauto using Inv_step. Qed.

(* inside a call, a step that does not return only moves the program counter *)
Lemma own_RNone : forall w g t g' t' a,
  tpc t <> Idle -> tstep true w g t = Next g' t' a RNone ->
  rd t' = rd t /\ wr t' = wr t /\ ig t' = ig t /\ prog t' = prog t /\ tpc t' <> Idle.
Proof.
  intros w g t g' t' a Hp H. unfold tstep in H.
  destruct (tpc t) eqn:E; try congruence;
    repeat match type of H with
    | context [try_acq ?h ?m ?w] => destruct (try_acq h m w)
    | context [kret _ _ ?k _ _] => destruct k; simpl in H
    | context [if ?b then _ else _] => is_var b; destruct b
    | context [match rd t with _ => _ end] => destruct (rd t) eqn:?
    | context [if mx g then _ else _] => destruct (mx g)
    | context [match cnt g with _ => _ end] => destruct (cnt g)
    | context [match ?j with JRel => _ | JUpg _ => _ end] => destruct j
    end; try discriminate; inversion H; subst; simpl;
    repeat split; try congruence; try discriminate; try (destruct (ls_first_test _); discriminate);
    try (destruct (ls_last_test _); discriminate).
Qed.

Lemma own_false : forall w g t g' t' a,
  tpc t <> Idle -> tstep true w g t = Next g' t' a (RBool false) -> t' = ret_false t.
Proof.
  intros w g t g' t' a Hp H. unfold tstep in H.
  destruct (tpc t) eqn:E; try congruence;
    repeat match type of H with
    | context [try_acq ?h ?m ?w] => destruct (try_acq h m w)
    | context [kret _ _ ?k _ _] => destruct k; simpl in H
    | context [if ?b then _ else _] => is_var b; destruct b
    | context [match rd t with _ => _ end] => destruct (rd t) eqn:?
    | context [if mx g then _ else _] => destruct (mx g)
    | context [match cnt g with _ => _ end] => destruct (cnt g)
    | context [match ?j with JRel => _ | JUpg _ => _ end] => destruct j
    end; try discriminate; inversion H; subst; reflexivity.
Qed.

(* the call step of an acquire that does not return at once keeps the counts *)
Lemma call_acq_RNone : forall g t g' t' s m p,
  prog t = Acq s m :: p -> call_step true g t = Next g' t' ACall RNone ->
  rd t' = rd t /\ wr t' = wr t /\ ig t' = ig t /\ prog t' = p /\ tpc t' <> Idle /\ g' = g.
Proof.
  intros g t g' t' s m p Hp H. unfold call_step in H. rewrite Hp in H.
  destruct s, (wr t), (rd t), (ig t); try discriminate; inversion H; subst; simpl;
    repeat split; discriminate.
Qed.

Lemma seg_thread : forall i st0 st1 t0 s m p,
  nth_error (ths st0) i = Some t0 -> tpc t0 = Idle -> prog t0 = Acq s m :: p ->
  seg i st0 st1 ->
  exists t1, nth_error (ths st1) i = Some t1 /\ rd t1 = rd t0 /\ wr t1 = wr t0 /\
             ig t1 = ig t0 /\ prog t1 = p /\ tpc t1 <> Idle.
Proof.
  intros i st0 st1 t0 s m p H0 Hpc Hp H. induction H.
  - unfold stepP in H. rewrite H0 in H.
    destruct (tstep true w (gl st) t0) eqn:Et; try discriminate. inversion H; subst.
    unfold tstep in Et. rewrite Hpc in Et.
    destruct (call_acq_RNone _ _ _ _ _ _ _ Hp Et) as (? & ? & ? & ? & ? & ?).
    exists t. simpl. erewrite nth_upd_same by eauto. repeat split; auto.
  - destruct (IHseg H0) as (t1 & Ht1 & Hr & Hw & Hi & Hq & Hn).
    match goal with S : stepP _ _ _ _ = _ |- _ => unfold stepP in S; rewrite Ht1 in S;
      destruct (tstep true w (gl st1) t1) eqn:Et; try discriminate; inversion S; subst end.
    destruct (own_RNone _ _ _ _ _ _ Hn Et) as (? & ? & ? & ? & ?).
    exists t. simpl. erewrite nth_upd_same by eauto. repeat split; congruence.
  - destruct (IHseg H0) as (t1 & Ht1 & Hrest). exists t1. split; auto.
    match goal with S : stepP _ _ _ _ = _ |- _ => unfold stepP in S;
      destruct (nth_error (ths st1) j); try discriminate;
      destruct (tstep true w (gl st1) t); try discriminate; inversion S; subst end.
    simpl. rewrite nth_upd_other; auto.
Qed.

(* the global lock state is a function of what the threads hold *)
Lemma GI_det : forall g1 g2 M Br Bw Sw Pd,
  GI g1 M Br Bw Sw Pd -> GI g2 M Br Bw Sw Pd -> g1 = g2.
Proof.
  intros [a1 b1 c1 n1] [a2 b2 c2 n2] M Br Bw Sw Pd H1 H2. unfold GI in *; cbn [bw br mx cnt] in *.
  destruct H1 as (? & ? & ? & ? & _), H2 as (? & ? & ? & ? & _). subst n1 n2.
  destruct a1, a2, b1, b2, c1, c2; cbn [b2n] in *; try lia; reflexivity.
Qed.

Lemma sumf_pointwise : forall f l1 l2,
  (forall j, option_map f (nth_error l1 j) = option_map f (nth_error l2 j)) ->
  sumf f l1 = sumf f l2.
Proof.
  induction l1 as [|x l1 IH]; intros [|y l2] H; simpl; auto.
  - specialize (H 0); discriminate.
  - specialize (H 0); discriminate.
  - pose proof (H 0) as H0; simpl in H0. inversion H0.
    f_equal. apply IH. intros j. apply (H (S j)).
Qed.

(* at Idle, what a thread holds depends on (read, write) only *)
Lemma holds_idle : forall t u, tpc t = Idle -> tpc u = Idle -> rd t = rd u -> wr t = wr u ->
  hmx t = hmx u /\ hbr t = hbr u /\ hbw t = hbw u /\ hsw t = hsw u /\ hpd t = hpd u.
Proof.
  intros t u Ht Hu Hr Hw. unfold hmx, hbr, hbw, hsw, hpd. rewrite Ht, Hu, Hr, Hw. auto.
Qed.

Theorem failed_attempt_noop : forall i st0 st1 st2 t0 s m p w a,
  Inv st0 ->
  nth_error (ths st0) i = Some t0 -> tpc t0 = Idle -> prog t0 = Acq s m :: p ->
  seg i st0 st1 ->
  stepP true w st1 i = Some (st2, a, RBool false) ->
  exists t2, nth_error (ths st2) i = Some t2 /\
    tpc t2 = Idle /\ rd t2 = rd t0 /\ wr t2 = wr t0 /\ ig t2 = ig t0 /\
    prog t2 = skip_block 0 p /\
    ((forall j, j <> i -> nth_error (ths st2) j = nth_error (ths st0) j) -> gl st2 = gl st0).
Proof.
  intros i st0 st1 st2 t0 s m p w a HI H0 Hpc Hp Hseg Hstep.
  destruct (seg_thread _ _ _ _ _ _ _ H0 Hpc Hp Hseg) as (t1 & H1 & Hr & Hw & Hi & Hq & Hn).
  pose proof (seg_Inv _ _ _ HI Hseg) as HI1.
  pose proof (Inv_step _ _ _ _ _ _ HI1 Hstep) as HI2.
  unfold stepP in Hstep. rewrite H1 in Hstep.
  destruct (tstep true w (gl st1) t1) eqn:Et; try discriminate. inversion Hstep; subst.
  rewrite (own_false _ _ _ _ _ _ Hn Et). exists (ret_false t1). simpl.
  erewrite nth_upd_same by eauto. repeat split; auto.
  intros Hoth. simpl in Hoth.
  destruct HI as [HG0 _], HI2 as [HG2 _]. unfold G in HG0, HG2. simpl in HG2.
  rewrite (own_false _ _ _ _ _ _ Hn Et) in HG2.
  assert (E : forall f, (f (ret_false t1) = f t0) ->
              sumf f (upd (ths st1) i (ret_false t1)) = sumf f (ths st0)).
  { intros f Hf. apply sumf_pointwise. intros j. destruct (Nat.eq_dec j i) as [->|Hj].
    - erewrite nth_upd_same by eauto. rewrite H0. simpl. congruence.
    - rewrite (Hoth j Hj). reflexivity. }
  destruct (holds_idle (ret_false t1) t0 eq_refl Hpc Hr Hw) as (E1 & E2 & E3 & E4 & E5).
  rewrite (E hmx E1), (E hbr E2), (E hbw E3), (E hsw E4), (E hpd E5) in HG2.
  eapply GI_det; eauto.
Qed.
