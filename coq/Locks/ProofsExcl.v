(* Consequences of the invariant: mutual exclusion, quiescence, no crash. *)
From Coq Require Import List Arith Bool Lia.
From NV Require Import Gen.Locks Locks.Model Locks.Inv Locks.ProofsLocal Locks.ProofsGlobal
  Locks.ProofsInv.
Import ListNotations.

Lemma b2n_le1 : forall b, b2n b <= 1.
Proof. destruct b; simpl; lia. Qed.

(* a thread with write > 0 is between calls (every method works with write = 0) *)
Lemma L_wr_idle : forall t, L t -> 0 < wr t -> tpc t = Idle.
Proof.
  intros t HL Hw. unfold L in HL. destruct (tpc t) eqn:E; auto; exfalso; simpl in HL;
    try (destruct m); try (destruct k); try (destruct b); try (destruct j);
    simpl in HL; unfold WAcond in HL; try contradiction;
    repeat match goal with H : _ /\ _ |- _ => destruct H end; lia.
Qed.

Definition in_write (t : thread) : Prop := 0 < wr t.
Definition in_read (t : thread) : Prop := tpc t = Idle /\ 0 < rd t /\ wr t = 0.

Theorem exclusion : forall st i j t u,
  Inv st -> i <> j ->
  nth_error (ths st) i = Some t -> nth_error (ths st) j = Some u ->
  in_write t -> ~ in_write u /\ ~ in_read u.
Proof.
  intros st i j t u [HG HL] Hij Hi Hj Hw. unfold in_write in *.
  pose proof (L_wr_idle t (Forall_nth _ _ _ _ HL Hi) Hw) as Ht.
  destruct HG as (HM & HBr & HBw & HSw & HPd & HPM).
  assert (Hbr_t : hbr t = 1) by (unfold hbr; rewrite Ht; destruct (wr t); [lia|reflexivity]).
  assert (Hbw_t : hbw t = 1) by (unfold hbw; rewrite Ht; destruct (wr t); [lia|reflexivity]).
  split.
  - intros Hu.
    pose proof (L_wr_idle u (Forall_nth _ _ _ _ HL Hj) Hu) as Hup.
    assert (hbr u = 1) by (unfold hbr; rewrite Hup; destruct (wr u); [lia|reflexivity]).
    pose proof (sumf_two hbr _ _ _ _ _ Hij Hi Hj). pose proof (b2n_le1 (br (gl st))). lia.
  - intros (Hup & Hr & Hw0).
    assert (Hsw_u : hsw u = 1)
      by (unfold hsw; rewrite Hup, Hw0; destruct (rd u); [lia|reflexivity]).
    pose proof (sumf_ge hbw _ _ _ Hi). pose proof (sumf_ge hsw _ _ _ Hj).
    pose proof (b2n_le1 (bw (gl st))). pose proof (b2n_le1 (mx (gl st))).
    assert (Hpos : 0 < sumf hpd (ths st)) by lia.
    destruct (sumf_pos_ex _ _ Hpos) as (k & p & Hk & Hp).
    assert (Hpp : exists m kk, tpc p = SA_lock m kk)
      by (unfold hpd in Hp; destruct (tpc p); try lia; eauto).
    destruct Hpp as (m & kk & Hpp).
    assert (Hkj : k <> j) by (intros ->; rewrite Hj in Hk; inversion Hk; subst; congruence).
    assert (hsw p = 1) by (unfold hsw; rewrite Hpp; reflexivity).
    pose proof (sumf_two hsw _ _ _ _ _ Hkj Hk Hj). lia.
Qed.

(* LightSwitch._counter is the number of threads inside the switch *)
Theorem counter_consistent : forall st, Inv st -> cnt (gl st) = sumf hsw (ths st).
Proof. intros st [HG _]. apply HG. Qed.

Theorem quiescent : forall st, Inv st ->
  (forall t, In t (ths st) -> finishedb t = true) ->
  gl st = free /\ forall t, In t (ths st) -> rd t = 0 /\ wr t = 0 /\ ig t = 0.
Proof.
  intros st [HG HL] Hf.
  assert (Hz : forall t, In t (ths st) -> tpc t = Idle /\ rd t = 0 /\ wr t = 0 /\ ig t = 0).
  { intros t Hin. specialize (Hf t Hin). unfold finishedb in Hf.
    destruct (tpc t) eqn:Ep; try discriminate. destruct (prog t) eqn:Eq; try discriminate.
    rewrite Forall_forall in HL. split; auto. apply L_finished; auto. }
  split; [|intros t Hin; apply Hz; auto].
  assert (H0 : forall f, (forall t, tpc t = Idle -> rd t = 0 -> wr t = 0 -> f t = 0) ->
                         sumf f (ths st) = 0).
  { intros f Hf0. apply sumf_zero. intros t Hin. destruct (Hz t Hin) as (? & ? & ? & ?). auto. }
  destruct HG as (HM & HBr & HBw & HSw & HPd & HPM).
  rewrite H0 in HM by (intros t E _ _; unfold hmx; rewrite E; reflexivity).
  rewrite H0 in HBr by (intros t E _ E2; unfold hbr; rewrite E, E2; reflexivity).
  rewrite H0 in HBw by (intros t E _ E2; unfold hbw; rewrite E, E2; reflexivity).
  rewrite H0 in HSw by (intros t E E1 E2; unfold hsw; rewrite E, E1, E2; reflexivity).
  destruct (gl st) as [b1 b2 b3 c]; cbn [bw br mx cnt] in *. unfold free. subst c.
  destruct b1, b2, b3; cbn [b2n] in *; try lia; reflexivity.
Qed.

(* no assertion and no RuntimeError in any reachable state *)
Theorem no_crash : forall st i t w, Inv st -> nth_error (ths st) i = Some t ->
  tstep true w (gl st) t <> Crash.
Proof.
  intros st i t w [HG HL] Hi.
  pose proof (Forall_nth _ _ _ _ HL Hi) as HLt. unfold L in HLt.
  unfold tstep. destruct (tpc t) eqn:E; simpl in HLt;
    try (intro; discriminate); try contradiction.
  - apply call_no_crash; auto.
  - destruct (try_acq (br (gl st)) m w); discriminate.
  - destruct (try_acq (mx (gl st)) m w); try discriminate. destruct k; simpl; discriminate.
  - destruct (try_acq (bw (gl st)) m w); discriminate.
  - destruct k, b; simpl; discriminate.
  - destruct (mx (gl st)); [discriminate|].
    assert (hsw t = 1) by (unfold hsw; rewrite E; reflexivity).
    pose proof (sumf_ge hsw _ _ _ Hi). destruct HG as (_ & _ & _ & HSw & _).
    destruct (cnt (gl st)); [lia|discriminate].
  - destruct j; discriminate.
  - destruct (try_acq (br (gl st)) m w); try discriminate. destruct (rd t); discriminate.
  - destruct (try_acq (bw (gl st)) m w); discriminate.
  - destruct (rd t); discriminate.
Qed.
