(* Every transition strictly decreases a measure (no livelock inside the lock:
   together with no_deadlock, every thread of a finite program finishes under
   any scheduler that keeps running threads that can move). Holds for both
   shapes of the downgrade path. *)
From Coq Require Import List Arith Bool Lia.
From NV Require Import Gen.Locks Locks.Model Locks.Inv.
Import ListNotations.

Definition rank (p : pc) : nat :=
  match p with
  | Idle => 0
  | SA_rel _ KDown => 2 | SA_rel _ _ => 1
  | WD_br | WR_bw | LD_br => 1
  | WR_br | LD_mxrel => 2
  | SA_lock _ _ | LD_mx => 3
  | SA_mx _ _ => 4
  | WA_brrel | RA_turnrel _ | WD_bw => 5
  | WA_bw _ | RA_turn _ => 6
  | WA_br _ => 7
  | SR_rel JRel => 1 | SR_rel (JUpg _) => 8
  | SR_lock _ => 9
  | SR_mx _ => 10
  end.
Definition tmeasure (t : thread) : nat := 11 * length (prog t) + rank (tpc t).
Definition measure (st : state) : nat := sumf tmeasure (ths st).

Lemma skip_block_len : forall p d, length (skip_block d p) <= length p.
Proof.
  induction p as [|[s m|s] p IH]; intros d; simpl.
  - lia.
  - specialize (IH (S d)). lia.
  - destruct d; [lia|]. specialize (IH d). lia.
Qed.

Lemma tstep_measure : forall dg w g t g' t' a r,
  tstep dg w g t = Next g' t' a r -> tmeasure t' < tmeasure t.
Proof.
  intros dg w g t g' t' a r H. unfold tstep in H. unfold tmeasure.
  pose proof (skip_block_len (prog t) 0) as Hs.
  destruct (tpc t) eqn:E.
  - unfold call_step in H. destruct (prog t) as [|[[|] m|[|]] p]; try discriminate;
      destruct (wr t) as [|[|?]], (rd t) as [|[|?]], (ig t); try discriminate;
      inversion H; subst; simpl; try lia; destruct dg; simpl; lia.
  - destruct (try_acq (br g) m w); inversion H; subst; simpl; lia.
  - inversion H; subst; simpl; lia.
  - destruct (try_acq (mx g) m w); try discriminate.
    + inversion H; subst; simpl. destruct (ls_first_test _), k; simpl; lia.
    + destruct k; simpl in H; inversion H; subst; simpl; lia.
  - destruct (try_acq (bw g) m w); inversion H; subst; simpl; destruct k; lia.
  - destruct k, b; simpl in H; inversion H; subst; simpl; lia.
  - destruct (mx g); try discriminate. destruct (cnt g); try discriminate.
    inversion H; subst; simpl. destruct (ls_last_test _), j; simpl; lia.
  - inversion H; subst; simpl. destruct j; lia.
  - destruct j; inversion H; subst; simpl; lia.
  - destruct (try_acq (br g) m w); try discriminate.
    + inversion H; subst; simpl; lia.
    + destruct (rd t); inversion H; subst; simpl; lia.
  - destruct (try_acq (bw g) m w); inversion H; subst; simpl; lia.
  - destruct (rd t); inversion H; subst; simpl; lia.
  - inversion H; subst; simpl; lia.
  - inversion H; subst; simpl; lia.
  - inversion H; subst; simpl; lia.
  - inversion H; subst; simpl; lia.
  - destruct (mx g); try discriminate. destruct (cnt g); try discriminate.
    inversion H; subst; simpl; lia.
  - inversion H; subst; simpl; lia.
  - inversion H; subst; simpl; lia.
Qed.

Theorem step_measure : forall dg w st i st' a r,
  stepP dg w st i = Some (st', a, r) -> measure st' < measure st.
Proof.
  intros dg w st i st' a r H. unfold stepP in H.
  destruct (nth_error (ths st) i) as [t|] eqn:En; [|discriminate].
  destruct (tstep dg w (gl st) t) eqn:Et; try discriminate. inversion H; subst.
  unfold measure; simpl. pose proof (sumf_upd tmeasure _ _ _ t0 En).
  pose proof (tstep_measure _ _ _ _ _ _ _ _ Et). lia.
Qed.
