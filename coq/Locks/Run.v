From Coq Require Import List NArith String Bool.
From NV Require Import Lib.Val Lib.Res Lib.Wire Gen.Locks Locks.Model.
Import ListNotations.
Open Scope string_scope.

Definition get_mode (n : N) : mode := match n with 0%N => MB | 1%N => MN | _ => MT end.
Definition get_op (v : val) : op :=
  match getN v with
  | 0%N => Acq SR MB | 1%N => Acq SR MN | 2%N => Acq SR MT
  | 3%N => Acq SW MB | 4%N => Acq SW MN | 5%N => Acq SW MT
  | 6%N => Rel SR | _ => Rel SW
  end.
Definition get_progs (v : val) : list (list op) := map (fun p => map get_op (getL p)) (getL v).

Definition lk_code (l : lk) : N := match l with Lbw => 0 | Lbr => 1 | Lmx => 2 end.
Definition mode_code (m : mode) : N := match m with MB => 0 | MN => 1 | MT => 2 end.
Definition ret_code (r : ret) : N :=
  match r with RNone => 0 | RVoid => 1 | RBool false => 2 | RBool true => 3 end.

(* event: [kind; lock; mode; ret; rd; wr; ig]
   kind 0 call, 1 acquired, 2 acquire failed, 3 released, 4 blocked, 5 crash,
   6 finished (nothing to do), 7 no such thread *)
Definition ev (k l m r : N) (t : thread) : val :=
  VL [VN k; VN l; VN m; VN r; VNat (rd t); VNat (wr t); VNat (ig t)].
Definition act_ev (a : act) (r : ret) (t : thread) : val :=
  match a with
  | ACall => ev 0 3 0 (ret_code r) t
  | AAcq l m => ev 1 (lk_code l) (mode_code m) (ret_code r) t
  | AFail l m => ev 2 (lk_code l) (mode_code m) (ret_code r) t
  | ARel l => ev 3 (lk_code l) 0 (ret_code r) t
  end.

Fixpoint trace (dg : bool) (st : state) (sch : list val) : list val * state :=
  match sch with
  | [] => ([], st)
  | e :: rest =>
    let i := getNat (arg 0 e) in
    let w := getB (arg 1 e) in
    match nth_error (ths st) i with
    | None => let (es, s) := trace dg st rest in (VL [VN 7] :: es, s)
    | Some t =>
      match tstep dg w (gl st) t with
      | Next g t' a r =>
        let (es, s) := trace dg (mkS g (upd (ths st) i t')) rest in (act_ev a r t' :: es, s)
      | Blocked l => let (es, s) := trace dg st rest in (ev 4 (lk_code l) 0 0 t :: es, s)
      | Crash => let (es, s) := trace dg st rest in (ev 5 3 0 0 t :: es, s)
      | Finished => let (es, s) := trace dg st rest in (ev 6 3 0 0 t :: es, s)
      end
    end
  end.

Definition glob_val (g : glob) : val := VL [VB (bw g); VB (br g); VB (mx g); VNat (cnt g)].
Definition thread_val (t : thread) : val :=
  VL [VNat (rd t); VNat (wr t); VNat (ig t); VB (finishedb t)].

Definition dispatch (cmd : string) (a : val) : val :=
  if String.eqb cmd "trace" then
    let (es, s) := trace downgrade_fixed (init (get_progs (arg 0 a))) (getL (arg 1 a)) in
    VL [VL es; glob_val (gl s); VB (stuckb downgrade_fixed s); VL (map thread_val (ths s))]
  else if String.eqb cmd "search" then
    VOpt (fun l => VL (map VNat l))
         (search downgrade_fixed (getNat (arg 1 a)) (init (get_progs (arg 0 a))))
  else if String.eqb cmd "facts" then
    VL [VB downgrade_fixed; VB source_shape_ok]
  else VErr "unknown command".
