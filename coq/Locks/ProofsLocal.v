(* The thread-local invariant L is preserved by every transition of the
   repaired protocol (dg = true), and under L a well-nested thread never
   trips one of the assertions of _ReadLock / _WriteLock. *)
From Coq Require Import List Arith Bool Lia.
From NV Require Import Gen.Locks Locks.Model Locks.Inv.
Import ListNotations.

Lemma shp_w0 : forall stk r i, shp stk r 0 i -> i = 0.
Proof. intros stk r i H. inversion H; reflexivity. Qed.

Lemma shp_000 : forall stk i, shp stk 0 0 i -> stk = [].
Proof. intros stk i H. inversion H; reflexivity. Qed.

Lemma shp_pop_w : forall stk r w i, shp (SW :: stk) r w i ->
  exists w', w = S w' /\ shp stk r w' i.
Proof. intros stk r w i H. inversion H; subst. eauto. Qed.

Lemma shp_pop_r : forall stk r w i, shp (SR :: stk) r w i ->
  (w = 0 /\ i = 0 /\ exists r', r = S r' /\ shp stk r' 0 0) \/
  (exists w' i', w = S w' /\ i = S i' /\ shp stk r (S w') i').
Proof. intros stk r w i H. inversion H; subst; [left|right]; eauto. Qed.

Lemma wnb_skip : forall p pre stk d, length pre = S d ->
  wnb (pre ++ stk) p = true -> wnb stk (skip_block d p) = true.
Proof.
  induction p as [|[s m|s] p IH]; intros pre stk d Hl H.
  - destruct pre; simpl in *; discriminate.
  - simpl in *. apply (IH (s :: pre)); simpl; auto.
  - destruct pre as [|s' pre]; [discriminate|]. simpl in *.
    apply andb_prop in H. destruct H as [_ H].
    destruct d.
    + destruct pre; [assumption|discriminate].
    + apply (IH pre); auto.
Qed.

Lemma wnb_skip1 : forall s stk p, wnb (s :: stk) p = true -> wnb stk (skip_block 0 p) = true.
Proof. intros. apply (wnb_skip p [s] stk 0); auto. Qed.

Lemma L_ret_false_read : forall t, Lc CReadAcq t -> L (ret_false t).
Proof.
  intros t (Hr & Hw & Hi & Hn). unfold L, ret_false; simpl.
  exists []. rewrite Hr, Hw, Hi. split; [constructor|]. eapply wnb_skip1; eauto.
Qed.

Lemma L_ret_false_write : forall t, WAcond t -> L (ret_false t).
Proof.
  intros t (Hw & Hi & stk & Hs & Hn). unfold L, ret_false; simpl.
  exists stk. rewrite Hw, Hi. split; [assumption|]. eapply wnb_skip1; eauto.
Qed.

Lemma L_kret : forall g t k b a g' t' a' r,
  Lc (kclass k) t -> kret g t k b a = Next g' t' a' r -> L t'.
Proof.
  intros g t k b a g' t' a' r HL H. destruct k; simpl in *.
  - destruct b; inversion H; subst.
    + destruct HL as (Hr & Hw & Hi & Hn). unfold L; simpl. exists [SR].
      rewrite Hw, Hi. split; [repeat constructor|assumption].
    + apply L_ret_false_read; assumption.
  - inversion H; subst. apply L_ret_false_write. apply HL.
  - inversion H; subst. exact HL.
Qed.

Lemma L_call : forall g t g' t' a r,
  Lc CIdle t -> call_step true g t = Next g' t' a r -> L t'.
Proof.
  intros g [r0 w0 i0 p0 pr] g' t' a r (stk & Hs & Hn) H.
  unfold call_step in H; simpl in *.
  destruct pr as [|[[|] m|[|]] pr]; try discriminate; simpl in Hn.
  - (* Acq SR *)
    destruct w0.
    + pose proof (shp_w0 _ _ _ Hs); subst i0. destruct r0; inversion H; subst; unfold L; simpl.
      * rewrite (shp_000 _ _ Hs) in Hn. auto.
      * exists (SR :: stk). split; [constructor|]; assumption.
    + inversion H; subst; unfold L; simpl. exists (SR :: stk). split; [constructor|]; assumption.
  - (* Acq SW *)
    destruct w0.
    + pose proof (shp_w0 _ _ _ Hs); subst i0. destruct r0; inversion H; subst; unfold L; simpl;
        (split; [reflexivity|split; [reflexivity|exists stk; auto]]).
    + inversion H; subst; unfold L; simpl. exists (SW :: stk). split; [constructor|]; assumption.
  - (* Rel SR *)
    destruct stk as [|[|] stk]; try discriminate. simpl in Hn.
    destruct (shp_pop_r _ _ _ _ Hs) as [(-> & -> & r' & -> & Hs')|(w' & i' & -> & -> & Hs')].
    + destruct r'.
      * inversion H; subst; unfold L; simpl. rewrite (shp_000 _ _ Hs') in Hn. auto.
      * inversion H; subst; unfold L; simpl. exists stk. auto.
    + inversion H; subst; unfold L; simpl. exists stk. auto.
  - (* Rel SW *)
    destruct stk as [|[|] stk]; try discriminate. simpl in Hn.
    destruct (shp_pop_w _ _ _ _ Hs) as (w' & -> & Hs'). destruct w'.
    + pose proof (shp_w0 _ _ _ Hs'); subst i0. destruct r0.
      * inversion H; subst; unfold L; simpl. rewrite (shp_000 _ _ Hs') in Hn. auto.
      * inversion H; subst; unfold L; simpl.
        split; [lia|split; [reflexivity|split; [reflexivity|exists stk; auto]]].
    + inversion H; subst; unfold L; simpl. exists stk. auto.
Qed.

Lemma L_set_pc : forall t p, pclass p = pclass (tpc t) -> L t -> L (set_pc t p).
Proof. intros t p E H. unfold L in *. simpl. rewrite E. destruct (pclass (tpc t)); exact H. Qed.

Lemma L_set_pc_c : forall t p, Lc (pclass p) t -> L (set_pc t p).
Proof. intros t p H. unfold L. simpl. destruct (pclass p); exact H. Qed.

Lemma km_k : forall m k t, Lc (kmclass m k) t -> Lc (kclass k) t.
Proof. intros [| |] [| |] t H; simpl in *; try contradiction; exact H. Qed.
Lemma kb_k : forall b k t, Lc (kbclass b k) t -> Lc (kclass k) t.
Proof. intros [|] [| |] t H; simpl in *; try contradiction; exact H. Qed.
Lemma km_kb : forall m k t, Lc (kmclass m k) t -> Lc (kbclass true k) t.
Proof. intros [| |] [| |] t H; simpl in *; try contradiction; exact H. Qed.
Lemma km_failed : forall held m w k t b, try_acq held m w = Failed ->
  Lc (kmclass m k) t -> Lc (kbclass b k) t.
Proof.
  intros [|] [| |] w k t b E H; simpl in E; try discriminate;
    destruct k; simpl in *; try contradiction; try exact H.
Qed.

Theorem tstep_L : forall w g t g' t' a r,
  L t -> tstep true w g t = Next g' t' a r -> L t'.
Proof.
  intros w g t g' t' a r HL H. unfold tstep in H. unfold L in HL.
  destruct (tpc t) eqn:Epc; simpl in HL.
  - eapply L_call; eauto.
  - destruct (try_acq (br g) m w); inversion H; subst.
    + apply L_set_pc_c; exact HL.
    + apply L_ret_false_read; exact HL.
  - inversion H; subst. apply L_set_pc_c; exact HL.
  - destruct (try_acq (mx g) m w) eqn:Ea.
    + inversion H; subst. apply L_set_pc_c. destruct (ls_first_test _); simpl;
        [exact HL|apply km_kb in HL; exact HL].
    + eapply L_kret; [|exact H]. eapply km_k; eauto.
    + discriminate.
  - destruct (try_acq (bw g) m w) eqn:Ea; inversion H; subst; apply L_set_pc_c; simpl.
    + eapply km_kb; eauto.
    + eapply km_failed; eauto.
  - eapply L_kret; [|exact H]. eapply kb_k; eauto.
  - destruct (mx g); [discriminate|]. destruct (cnt g); [discriminate|].
    inversion H; subst. apply L_set_pc_c. destruct (ls_last_test _); exact HL.
  - inversion H; subst. apply L_set_pc_c; exact HL.
  - destruct j; inversion H; subst; apply L_set_pc_c; simpl in *.
    + destruct HL as (Hr & Hw & Hi & Hn). exists []. rewrite Hr, Hw, Hi. split; [constructor|auto].
    + exact HL.
  - destruct (try_acq (br g) m w).
    + inversion H; subst. apply L_set_pc_c; exact HL.
    + destruct (rd t) eqn:Er; inversion H; subst.
      * apply L_ret_false_write; exact HL.
      * apply L_set_pc_c; simpl. split; [lia|exact HL].
    + discriminate.
  - destruct (try_acq (bw g) m w); inversion H; subst.
    + destruct HL as (Hw & Hi & stk & Hs & Hn). unfold L; simpl. exists (SW :: stk).
      rewrite Hi. split; [constructor; assumption|assumption].
    + apply L_set_pc_c; exact HL.
  - destruct (rd t) eqn:Er; inversion H; subst.
    + apply L_ret_false_write; exact HL.
    + apply L_set_pc_c; simpl. split; [lia|exact HL].
  - inversion H; subst. apply L_set_pc_c; exact HL.
  - inversion H; subst. apply L_set_pc_c; simpl.
    destruct HL as (Hr & Hw & Hi & Hn). exists []. rewrite Hr, Hw, Hi. split; [constructor|auto].
  - inversion H; subst. apply L_set_pc_c; exact HL.
  - inversion H; subst. apply L_set_pc_c; simpl.
    destruct HL as (Hr & Hw & Hi & stk & Hs & Hn). exists stk. rewrite Hw, Hi. auto.
  - contradiction.
  - contradiction.
  - contradiction.
Qed.

(* no assertion of _ReadLock/_WriteLock fires in a well-nested thread *)
Lemma call_no_crash : forall dg g t, Lc CIdle t -> call_step dg g t <> Crash.
Proof.
  intros dg g [r0 w0 i0 p0 pr] (stk & Hs & Hn). unfold call_step; simpl in *.
  destruct pr as [|[[|] m|[|]] pr]; try discriminate; simpl in Hn.
  - destruct w0, r0; discriminate.
  - destruct w0; [|discriminate]. pose proof (shp_w0 _ _ _ Hs); subst. destruct r0; discriminate.
  - destruct stk as [|[|] stk]; try discriminate.
    destruct (shp_pop_r _ _ _ _ Hs) as [(-> & -> & r' & -> & Hs')|(w' & i' & -> & -> & Hs')].
    + destruct r'; discriminate.
    + discriminate.
  - destruct stk as [|[|] stk]; try discriminate.
    destruct (shp_pop_w _ _ _ _ Hs) as (w' & -> & Hs'). destruct w'; [|discriminate].
    pose proof (shp_w0 _ _ _ Hs'); subst. destruct r0; [discriminate|]. destruct dg; discriminate.
Qed.

Lemma L_init : forall p, wnb [] p = true -> L (mkT 0 0 0 Idle p).
Proof. intros p H. unfold L; simpl. exists []. split; [constructor|assumption]. Qed.

(* a finished thread holds nothing *)
Lemma L_finished : forall t, L t -> tpc t = Idle -> prog t = [] ->
  rd t = 0 /\ wr t = 0 /\ ig t = 0.
Proof.
  intros t HL Hp Hq. unfold L in HL. rewrite Hp in HL. simpl in HL.
  destruct HL as (stk & Hs & Hn). rewrite Hq in Hn. simpl in Hn.
  destruct stk; [|discriminate]. inversion Hs; auto.
Qed.
