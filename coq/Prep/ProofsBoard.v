(* Proofs about the emitted board section: text of str(board) and its read-back. *)
From Coq Require Import String.
From Coq Require Import List NArith ZArith Bool Lia.
From NV Require Import Lib.Val Lib.Res Gen.Prep Prep.Model Prep.ProofsNum Prep.Proofs.
Import ListNotations.
Open Scope N_scope.

(* ------------------------------------------------------------------ the text *)
Definition board_text (n : N) (p : list N) (part : N) : list N :=
  (str "[board:"%string ++ show_base 16 n ++ str "]"%string) ++ LF ::
  (str "image = "%string ++ p) ++ LF ::
  (str "partition = "%string ++ show_base 10 part) ++ [LF].

Lemma render_part_lit : forall fl t, render_part fl (0, t) = t.
Proof. reflexivity. Qed.

Theorem board_conf_eq : forall n p part, board_conf n p part = board_text n p part.
Proof.
  intros. unfold board_conf, board_str, board_lines, board_join, board_trailer, render.
  cbn [map flat_map join].
  change (render_part ?fl (4, [120])) with (show_base 16 n).
  change (render_part ?fl (5, [])) with p.
  change (render_part ?fl (6, [100])) with (show_base 10 part).
  rewrite !render_part_lit, !app_nil_r. unfold board_text.
  rewrite <- !app_assoc. reflexivity.
Qed.

(* ------------------------------------------------------------------ generic facts *)
Lemma not_in_app : forall (k : N) a b, ~ In k a -> ~ In k b -> ~ In k (a ++ b).
Proof. intros k a b Ha Hb H. apply in_app_or in H. tauto. Qed.

Lemma not_in_cons : forall (k c : N) r, c <> k -> ~ In k r -> ~ In k (c :: r).
Proof. intros k c r Hc Hr [E|H]; auto. Qed.

Lemma digits_no : forall b n k, 2 <= b <= 16 -> is_space k = true -> ~ In k (show_base b n).
Proof.
  intros b n k Hb Hk H. pose proof (show_base_nonspace b n Hb) as Hn.
  rewrite Forall_forall in Hn. rewrite (Hn k H) in Hk. discriminate.
Qed.

Lemma path_ok_inv : forall p, path_ok p = true ->
  exists r, p = 47 :: r /\ ~ In LF p /\ ~ In CR p /\ is_space (last p 0) = false.
Proof.
  intros p H. unfold path_ok in H. destruct p as [|c r]; [discriminate|].
  apply andb_true_iff in H. destruct H as [H H3]. apply andb_true_iff in H. destruct H as [H1 H2].
  apply N.eqb_eq in H1. subst c. exists r. split; [reflexivity|].
  apply negb_true_iff in H3. rewrite forallb_forall in H2.
  repeat split; try assumption; intro Hin; specialize (H2 _ Hin);
    apply negb_true_iff, orb_false_iff in H2; destruct H2 as [A B];
    [rewrite N.eqb_refl in A|rewrite N.eqb_refl in B]; discriminate.
Qed.

Lemma split_on_last : forall a cur, ~ In LF a -> split_on LF cur a = [rev cur ++ a].
Proof.
  induction a as [|c a IH]; intros cur H.
  - cbn [split_on]. rewrite app_nil_r. reflexivity.
  - cbn [split_on]. destruct (N.eqb_spec c LF) as [->|_]; [exfalso; apply H; left; reflexivity|].
    rewrite IH by (intro; apply H; right; assumption). cbn [rev]. rewrite <- app_assoc. reflexivity.
Qed.

Lemma split_on_line : forall a cur r, ~ In LF a ->
  split_on LF cur (a ++ LF :: r) = (rev cur ++ a) :: split_on LF [] r.
Proof.
  induction a as [|c a IH]; intros cur r H.
  - cbn [app split_on]. rewrite N.eqb_refl, app_nil_r. reflexivity.
  - cbn [app split_on]. destruct (N.eqb_spec c LF) as [->|_]; [exfalso; apply H; left; reflexivity|].
    rewrite IH by (intro; apply H; right; assumption). cbn [rev]. rewrite <- app_assoc. reflexivity.
Qed.

Lemma strip_pre : forall pre s c r, forallb is_space pre = true -> s = c :: r ->
  is_space c = false -> is_space (last s 0) = false -> strip (pre ++ s) = s.
Proof.
  intros pre s c r Hpre Es Hc Hl.
  pose proof (strip_by_mid is_space pre s [] c r Es Hc Hl Hpre eq_refl) as H.
  rewrite app_nil_r in H. exact H.
Qed.

Lemma strip_self : forall s c r, s = c :: r -> is_space c = false -> is_space (last s 0) = false ->
  strip s = s.
Proof. intros s c r. apply (strip_pre [] s c r eq_refl). Qed.

Lemma last_app_one : forall (a : list N) x d, last (a ++ [x]) d = x.
Proof. intros. apply last_last. Qed.

Lemma last_cons_ne : forall (c : N) s d, s <> [] -> last (c :: s) d = last s d.
Proof. intros c [|x s] d H; [congruence|reflexivity]. Qed.

Lemma last_app_ne : forall (a s : list N) d, s <> [] -> last (a ++ s) d = last s d.
Proof.
  induction a as [|c a IH]; intros s d H; [reflexivity|].
  cbn [app]. rewrite last_cons_ne; [apply IH; assumption|].
  destruct a; [cbn [app]; assumption|discriminate].
Qed.

(* ------------------------------------------------------------------ reader, line by line *)
Lemma read_lines_blank : forall sect opts rest,
  read_lines sect opts ([] :: rest) = read_lines sect opts rest.
Proof. reflexivity. Qed.

Lemma read_lines_header : forall opts l rest h c r,
  l = c :: r -> strip l = l -> is_comment l = false -> is_space c = false ->
  (c =? 91) = true -> parse_header l = Some h ->
  read_lines None opts (l :: rest) = read_lines (Some h) opts rest.
Proof.
  intros opts l rest h c r El Hs Hc Hsp H91 Hh. cbn [read_lines]. rewrite Hs, Hc, Hh.
  rewrite El. cbn [is_nil]. rewrite Hsp, H91. reflexivity.
Qed.

Lemma read_lines_option : forall sect opts l rest kv c r,
  l = c :: r -> strip l = l -> is_comment l = false -> is_space c = false ->
  (c =? 91) = false -> parse_option l = Some kv ->
  read_lines (Some sect) opts (l :: rest) = read_lines (Some sect) (kv :: opts) rest.
Proof.
  intros sect opts l rest kv c r El Hs Hc Hsp H91 Hk. cbn [read_lines]. rewrite Hs, Hc, Hk.
  rewrite El. cbn [is_nil]. rewrite Hsp, H91. reflexivity.
Qed.

Lemma parse_header_ok : forall body, body <> [] -> parse_header (91 :: body ++ [93]) = Some body.
Proof.
  intros body Hne. unfold parse_header. change (91 =? 91) with true. cbv iota.
  rewrite rev_app_distr. cbn [rev app]. change (93 =? 93) with true.
  assert (E : is_nil (rev body) = false).
  { destruct body as [|x b]; [congruence|]. cbn [rev]. destruct (rev b); reflexivity. }
  rewrite E. cbn [negb andb]. rewrite rev_involutive. reflexivity.
Qed.

Lemma parse_option_image : forall p, path_ok p = true ->
  parse_option (str "image = "%string ++ p) = Some (str "image"%string, p).
Proof.
  intros p Hp. destruct (path_ok_inv p Hp) as [r [Ep [_ [_ Hl]]]].
  unfold parse_option.
  assert (E : split_delim [] (str "image = "%string ++ p) = Some (str "image "%string, [SP] ++ p))
    by reflexivity.
  rewrite E. change (map lower (rstrip (str "image "%string))) with (str "image"%string).
  cbn [is_nil str]. change (is_nil _) with false. cbv iota.
  rewrite (strip_pre [SP] p 47 r eq_refl Ep eq_refl Hl). reflexivity.
Qed.

Lemma parse_option_partition : forall part,
  parse_option (str "partition = "%string ++ show_base 10 part) =
  Some (str "partition"%string, show_base 10 part).
Proof.
  intro part. unfold parse_option.
  assert (E : split_delim [] (str "partition = "%string ++ show_base 10 part) =
              Some (str "partition "%string, [SP] ++ show_base 10 part)) by reflexivity.
  rewrite E. change (map lower (rstrip (str "partition "%string))) with (str "partition"%string).
  change (is_nil (str "partition"%string)) with false. cbv iota.
  destruct (show_base_spec 10 part) as [Hne [Hall _]]; [lia|].
  destruct (show_base 10 part) as [|c r] eqn:Ed; [congruence|].
  assert (Hns : forall x, In x (c :: r) -> is_space x = false).
  { intros x Hx. apply (digit_not_space 10); [lia|]. apply (forallb_In _ _ Hall x Hx). }
  rewrite (strip_pre [SP] (c :: r) c r eq_refl eq_refl).
  - reflexivity.
  - apply Hns. left. reflexivity.
  - apply Hns. apply (last_In (c :: r) c r 0 eq_refl).
Qed.

(* ------------------------------------------------------------------ the round trip *)
Theorem board_roundtrip : forall n p part,
  n <= 4294967295 -> path_ok p = true ->
  read_board (board_conf n p part) = Some (n, p, Z.of_N part).
Proof.
  intros n p part Hn Hp. rewrite board_conf_eq.
  destruct (path_ok_inv p Hp) as [pr [Ep [Hplf [Hpcr Hpl]]]].
  set (hex := show_base 16 n). set (dec := show_base 10 part).
  set (body := str "board:"%string ++ hex).
  set (l0 := str "[board:"%string ++ hex ++ str "]"%string).
  set (l1 := str "image = "%string ++ p).
  set (l2 := str "partition = "%string ++ dec).
  assert (Hhex : forall k, is_space k = true -> ~ In k hex) by (intros; apply digits_no; [lia|assumption]).
  assert (Hdec : forall k, is_space k = true -> ~ In k dec) by (intros; apply digits_no; [lia|assumption]).
  assert (L0 : forall k, k = LF \/ k = CR -> ~ In k l0).
  { intros k Hk. unfold l0. apply not_in_app; [destruct Hk as [->| ->]; cbn; intuition discriminate|].
    apply not_in_app; [apply Hhex; destruct Hk as [->| ->]; reflexivity|].
    destruct Hk as [->| ->]; cbn; intuition discriminate. }
  assert (L1 : forall k, k = LF \/ k = CR -> ~ In k l1).
  { intros k Hk. unfold l1. apply not_in_app; [destruct Hk as [->| ->]; cbn; intuition discriminate|].
    destruct Hk as [->| ->]; assumption. }
  assert (L2 : forall k, k = LF \/ k = CR -> ~ In k l2).
  { intros k Hk. unfold l2. apply not_in_app; [destruct Hk as [->| ->]; cbn; intuition discriminate|].
    apply Hdec; destruct Hk as [->| ->]; reflexivity. }
  unfold board_text. fold hex dec. fold l0 l1 l2.
  unfold read_board, read_section, lines_of.
  (* no carriage return anywhere: the text layer leaves it alone *)
  rewrite univ_nl_id.
  2:{ apply not_in_app; [apply L0; auto|]. apply not_in_cons; [discriminate|].
      apply not_in_app; [apply L1; auto|]. apply not_in_cons; [discriminate|].
      apply not_in_app; [apply L2; auto|]. apply not_in_cons; [discriminate|intros []]. }
  (* four pieces: three lines and the empty tail *)
  rewrite split_on_line by (apply L0; auto).
  rewrite split_on_line by (apply L1; auto).
  rewrite split_on_line by (apply L2; auto).
  cbn [rev app split_on].
  (* line 0: the section header *)
  assert (El0 : l0 = 91 :: body ++ [93]).
  { unfold l0, body. cbn [str]. rewrite <- !app_assoc. reflexivity. }
  assert (Hbody : body <> []) by (unfold body; discriminate).
  rewrite (read_lines_header [] l0 _ body 91 (body ++ [93]) El0).
  2:{ apply (strip_self l0 91 (body ++ [93]) El0 eq_refl).
      rewrite El0. change (91 :: body ++ [93]) with ((91 :: body) ++ [93]). rewrite last_app_one. reflexivity. }
  2:{ rewrite El0. reflexivity. }
  2:{ reflexivity. }
  2:{ reflexivity. }
  2:{ rewrite El0. apply parse_header_ok. assumption. }
  (* line 1: image *)
  assert (El1 : l1 = 105 :: (str "mage = "%string ++ p)) by reflexivity.
  rewrite (read_lines_option body [] l1 _ (str "image"%string, p) 105 _ El1).
  2:{ apply (strip_self l1 105 _ El1 eq_refl). unfold l1.
      rewrite last_app_ne by (rewrite Ep; discriminate). assumption. }
  2:{ reflexivity. }
  2:{ reflexivity. }
  2:{ reflexivity. }
  2:{ apply parse_option_image. assumption. }
  (* line 2: partition *)
  destruct (show_base_spec 10 part) as [Hdne [Hdall _]]; [lia|]. fold dec in Hdne, Hdall.
  assert (El2 : l2 = 112 :: (str "artition = "%string ++ dec)) by reflexivity.
  rewrite (read_lines_option body _ l2 _ (str "partition"%string, dec) 112 _ El2).
  2:{ apply (strip_self l2 112 _ El2 eq_refl). unfold l2.
      rewrite last_app_ne by assumption.
      destruct dec as [|dc dr] eqn:Ed; [congruence|].
      apply (digit_not_space 10); [lia|]. apply (forallb_In _ _ Hdall).
      apply (last_In (dc :: dr) dc dr 0 eq_refl). }
  2:{ reflexivity. }
  2:{ reflexivity. }
  2:{ reflexivity. }
  2:{ apply parse_option_partition. }
  rewrite read_lines_blank. cbn [read_lines].
  (* Board.from_section *)
  assert (Hs1 : starts_with server_sect_prefix body = true) by apply (starts_with_app (str "board:"%string) hex).
  assert (Hs2 : starts_with sect_prefix body = true) by apply (starts_with_app (str "board:"%string) hex).
  rewrite Hs1, Hs2. cbn [andb].
  change (skipn (List.length sect_prefix) body) with hex.
  destruct (serial_show n 0 Hn) as [Hser _]. cbn [repeat app] in Hser. fold hex in Hser. rewrite Hser.
  change (lookup sect_image_key [(str "partition"%string, dec); (str "image"%string, p)]) with (Some p).
  change (lookup sect_partition_key [(str "partition"%string, dec); (str "image"%string, p)]) with (Some dec).
  unfold dec. rewrite py_int_show by (left; reflexivity). reflexivity.
Qed.

(* the guard is satisfiable, e.g. by a path with spaces, '=' and ':' inside *)
Example path_ok_example :
  path_ok (str "/srv/nobodd images/ubuntu=24.04:arm64 [v1].img"%string) = true /\
  path_ok (str "relative.img"%string) = false /\
  path_ok (str "/trailing/space "%string) = false.
Proof. repeat split; reflexivity. Qed.
