(* Model of nobodd/prep.py rewrite_cmdline, nobodd/config.py serial and
   Board.__str__, plus a reader SPECIFICATION for the board section that
   nobodd-prep emits (what configparser + Board.from_section make of it).
   Python str = list of code points.  Executable definitions only; proofs are
   in Proofs.v.  Constants, templates and shapes come from Gen/Prep.v. *)
From Coq Require Import List NArith ZArith Bool.
From NV Require Import Lib.Res Gen.Prep.
Import ListNotations.
Open Scope N_scope.

Definition LF := 10. Definition CR := 13. Definition SP := 32. Definition US := 95.

(* ------------------------------------------------------------------ whitespace *)
(* every code point c with chr(c).isspace() (CPython 3.12, Unicode 15); the
   harness compares this list with the running interpreter over all of
   range(0x110000) and checks that str.split()/str.strip() use the same set *)
Definition py_space : list N :=
  [9; 10; 11; 12; 13; 28; 29; 30; 31; 32; 133; 160; 5760;
   8192; 8193; 8194; 8195; 8196; 8197; 8198; 8199; 8200; 8201; 8202;
   8232; 8233; 8239; 8287; 12288].
Definition is_space (c : N) : bool := existsb (N.eqb c) py_space.

(* ------------------------------------------------------------------ text layer *)
(* io.TextIOWrapper(newline=None) reading: "\r\n" and "\r" become "\n" *)
Fixpoint univ_nl (s : list N) : list N :=
  match s with
  | [] => []
  | c :: r =>
    if c =? CR then
      LF :: match r with
            | d :: r' => if d =? LF then univ_nl r' else univ_nl r
            | [] => []
            end
    else c :: univ_nl r
  end.

(* s[:s.index(ch)], the whole of s when ch does not occur (ValueError: pass) *)
Fixpoint cut_first (ch : N) (s : list N) : list N :=
  match s with
  | [] => []
  | c :: r => if c =? ch then [] else c :: cut_first ch r
  end.

(* s[:s.rindex(ch)] *)
Fixpoint cut_last (ch : N) (s : list N) : option (list N) :=
  match s with
  | [] => None
  | c :: r =>
    match cut_last ch r with
    | Some t => Some (c :: t)
    | None => if c =? ch then Some [] else None
    end
  end.

Definition first_line (s : list N) : list N :=
  if cmd_cut_first then cut_first cmd_cut_char s
  else match cut_last cmd_cut_char s with Some t => t | None => s end.

(* str.split() without argument: the scanning loop of CPython's split_whitespace;
   cur = characters of the word being scanned, most recent first *)
Fixpoint split_ws_aux (cur : list N) (s : list N) : list (list N) :=
  match s with
  | [] => match cur with [] => [] | _ => [rev cur] end
  | c :: r =>
    if is_space c then
      match cur with
      | [] => split_ws_aux [] r
      | _ => rev cur :: split_ws_aux [] r
      end
    else split_ws_aux (c :: cur) r
  end.
Definition split_ws (s : list N) : list (list N) := split_ws_aux [] s.

(* str.startswith *)
Fixpoint starts_with (p s : list N) : bool :=
  match p, s with
  | [], _ => true
  | a :: p', b :: s' => (a =? b) && starts_with p' s'
  | _ :: _, [] => false
  end.

(* sep.join(words) *)
Fixpoint join (sep : list N) (ws : list (list N)) : list N :=
  match ws with
  | [] => []
  | w :: r => match r with [] => w | _ => w ++ sep ++ join sep r end
  end.

(* ------------------------------------------------------------------ numbers as text *)
Definition digit_char (d : N) : N := if d <? 10 then 48 + d else 87 + d.

(* digits of n in base b, most significant first, in front of acc;
   fuel = an upper bound of the number of digits (show_base supplies one) *)
Fixpoint to_digits (fuel : nat) (b n : N) (acc : list N) : list N :=
  match fuel with
  | O => acc
  | S f =>
    if n <? b then digit_char n :: acc
    else to_digits f b (n / b) (digit_char (n mod b) :: acc)
  end.
Definition show_base (b n : N) : list N :=
  to_digits (S (N.to_nat (N.log2 n))) b n [].

(* format(n, spec) for the specs the sources use: '' and 'd' decimal, 'x' lower-case hex *)
Definition fmt_int (spec : list N) (n : N) : list N :=
  match spec with
  | [] => show_base 10 n
  | [c] => if c =? 100 then show_base 10 n else if c =? 120 then show_base 16 n else []
  | _ => []
  end.

Definition digit_val (c : N) : option N :=
  if (48 <=? c) && (c <=? 57) then Some (c - 48)
  else if (97 <=? c) && (c <=? 122) then Some (c - 87)
  else if (65 <=? c) && (c <=? 90) then Some (c - 55)
  else None.

(* the digit loop of CPython's long_from_string_base: digits below the base,
   single underscores between digits *)
Fixpoint scan_digits (b acc : N) (prev_us : bool) (s : list N) : option N :=
  match s with
  | [] => if prev_us then None else Some acc
  | c :: r =>
    if c =? US then (if prev_us then None else scan_digits b acc true r)
    else match digit_val c with
         | Some d => if d <? b then scan_digits b (acc * b + d) false r else None
         | None => None
         end
  end.

Definition int_body (b : N) (s : list N) : option N :=
  match s with
  | [] => None
  | c :: _ => if c =? US then None else scan_digits b 0 false s
  end.

(* "0x"/"0X" when the base is 16, then one optional underscore *)
Definition skip_prefix (b : N) (s : list N) : list N :=
  if b =? 16 then
    match s with
    | z :: x :: r =>
      if (z =? 48) && ((x =? 120) || (x =? 88)) then
        match r with
        | u :: r' => if u =? US then r' else r
        | [] => r
        end
      else s
    | _ => s
    end
  else s.

Fixpoint lstrip_by (f : N -> bool) (s : list N) : list N :=
  match s with
  | c :: r => if f c then lstrip_by f r else s
  | [] => []
  end.
Definition rstrip_by f s := rev (lstrip_by f (rev s)).
Definition strip_by f s := rstrip_by f (lstrip_by f s).
Definition strip := strip_by is_space.        (* str.strip() *)
Definition rstrip := rstrip_by is_space.      (* str.rstrip() *)

(* int() trims with Py_ISSPACE on ASCII and Py_UNICODE_ISSPACE above: the same set
   without the four separators 0x1c..0x1f *)
Definition int_space (c : N) : bool := is_space c && negb ((28 <=? c) && (c <=? 31)).

(* int(s, b) for b in {10, 16}; ASCII digits only (others: outside the model) *)
Definition py_int (b : N) (s : list N) : res Z :=
  let s := strip_by int_space s in
  let '(neg, r) :=
    match s with
    | c :: r => if c =? 43 then (false, r) else if c =? 45 then (true, r) else (false, s)
    | [] => (false, s)
    end in
  match int_body b (skip_prefix b r) with
  | Some v => Ok (if neg then (- Z.of_N v)%Z else Z.of_N v)
  | None => Err ValueError
  end.

(* ------------------------------------------------------------------ templates *)
Record fields := mkfields {
  f_host : list N; f_name : list N; f_root : N;
  f_serial : N; f_image : list N; f_part : N }.

Definition render_part (fl : fields) (p : N * list N) : list N :=
  let '(tag, txt) := p in
  if tag =? 0 then txt
  else if tag =? 1 then f_host fl
  else if tag =? 2 then f_name fl
  else if tag =? 3 then fmt_int txt (f_root fl)
  else if tag =? 4 then fmt_int txt (f_serial fl)
  else if tag =? 5 then f_image fl
  else if tag =? 6 then fmt_int txt (f_part fl)
  else [].
Definition render (fl : fields) (t : list (N * list N)) : list N :=
  flat_map (render_part fl) t.

(* ------------------------------------------------------------------ prep.rewrite_cmdline *)
Definition keep_param (w : list N) : bool :=
  let m := starts_with cmd_filter_prefix w in
  if cmd_filter_negated then negb m else m.

(* text = decoded content of the command-line file; result = text written back *)
Definition rewrite_cmdline (host name : list N) (rootp : N) (text : list N) : list N :=
  let fl := mkfields host name rootp 0 [] 0 in
  let line := first_line (univ_nl text) in
  let params := filter keep_param (split_ws line) in
  join cmd_join_sep (map (render fl) cmd_prepend ++ params).

(* ------------------------------------------------------------------ config.serial *)
Definition serial (s : list N) : res N :=
  let s := strip s in
  let s := if (ser_min_len <=? N.of_nat (length s)) &&
              existsb (fun p => starts_with p s) ser_prefixes
           then skipn (N.to_nat ser_drop) s else s in
  do v <- py_int ser_base s;
  if (ser_lo <=? v)%Z && (v <=? ser_hi)%Z then Ok (Z.to_N v) else Err ValueError.

(* ------------------------------------------------------------------ Board.__str__ (ip = None) *)
Definition board_str (sernum : N) (image : list N) (part : N) : list N :=
  let fl := mkfields [] [] 0 sernum image part in
  join board_join (map (render fl) board_lines).

(* what prep.main writes to --tftpd-conf *)
Definition board_conf (sernum : N) (image : list N) (part : N) : list N :=
  board_str sernum image part ++ board_trailer.

(* ------------------------------------------------------------------ reader specification *)
(* A specification of how configparser.ConfigParser(delimiters=cfg_delims,
   interpolation=None, strict=False, empty_lines_in_values=False) followed by
   Board.from_section reads ONE section.  None = malformed or outside the
   modelled subset (continuation lines, several sections, "[x] tail" headers). *)
Fixpoint split_on (ch : N) (cur : list N) (s : list N) : list (list N) :=
  match s with
  | [] => [rev cur]
  | c :: r => if c =? ch then rev cur :: split_on ch [] r else split_on ch (c :: cur) r
  end.
Definition lines_of (t : list N) : list (list N) := split_on LF [] (univ_nl t).

Definition is_nil {A} (l : list A) : bool := match l with [] => true | _ => false end.

Definition is_comment (l : list N) : bool :=
  match l with c :: _ => (c =? 35) || (c =? 59) | [] => false end.

(* "[" name "]" *)
Definition parse_header (l : list N) : option (list N) :=
  match l with
  | c :: r =>
    if c =? 91 then
      match rev r with
      | e :: h => if (e =? 93) && negb (is_nil h) then Some (rev h) else None
      | [] => None
      end
    else None
  | [] => None
  end.

Definition is_delim (c : N) : bool := existsb (N.eqb c) cfg_delims.
Fixpoint split_delim (cur : list N) (s : list N) : option (list N * list N) :=
  match s with
  | [] => None
  | c :: r => if is_delim c then Some (rev cur, r) else split_delim (c :: cur) r
  end.
Definition lower (c : N) : N := if (65 <=? c) && (c <=? 90) then c + 32 else c.
Definition parse_option (l : list N) : option (list N * list N) :=
  match split_delim [] l with
  | Some (k, v) =>
    let k := map lower (rstrip k) in
    if is_nil k then None else Some (k, strip v)
  | None => None
  end.

Definition bytes_eqb (a b : list N) : bool :=
  (length a =? length b)%nat && forallb (fun p => fst p =? snd p) (combine a b).
Fixpoint lookup (k : list N) (opts : list (list N * list N)) : option (list N) :=
  match opts with
  | [] => None
  | (k', v) :: r => if bytes_eqb k k' then Some v else lookup k r
  end.

(* state: section name (if seen) and options, most recent first *)
Fixpoint read_lines (sect : option (list N)) (opts : list (list N * list N))
         (ls : list (list N)) : option (list N * list (list N * list N)) :=
  match ls with
  | [] => match sect with Some s => Some (s, opts) | None => None end
  | l :: rest =>
    let v := strip l in
    if is_nil v then read_lines sect opts rest
    else if is_comment v then read_lines sect opts rest
    else if (match l with c :: _ => is_space c | [] => false end) then None
    else if (match v with c :: _ => c =? 91 | [] => false end) then
      match parse_header v, sect with
      | Some h, None => read_lines (Some h) opts rest
      | _, _ => None
      end
    else match sect, parse_option v with
         | Some _, Some kv => read_lines sect (kv :: opts) rest
         | _, _ => None
         end
  end.
Definition read_section (t : list N) := read_lines None [] (lines_of t).

(* server.get_parser: sections starting with server_sect_prefix go through
   Board.from_section; result: serial, image text, partition *)
Definition read_board (t : list N) : option (N * list N * Z) :=
  match read_section t with
  | Some (sect, opts) =>
    if starts_with server_sect_prefix sect && starts_with sect_prefix sect then
      match serial (skipn (length sect_prefix) sect), lookup sect_image_key opts with
      | Ok n, Some img =>
        match (match lookup sect_partition_key opts with
               | Some p => py_int 10 p
               | None => Ok sect_partition_default
               end) with
        | Ok p => Some (n, img, p)
        | Err _ => None
        end
      | _, _ => None
      end
    else None
  | None => None
  end.

(* image paths for which the emitted text reads back unchanged: absolute, no
   line break, no trailing white space *)
Definition path_ok (p : list N) : bool :=
  match p with
  | c :: _ =>
    (c =? 47) && forallb (fun x => negb ((x =? LF) || (x =? CR))) p &&
    negb (is_space (last p 0))
  | [] => false
  end.
