(* Proofs about numbers as text: show_base / py_int round trip, config.serial. *)
From Coq Require Import String.
From Coq Require Import List NArith ZArith Bool Lia.
From NV Require Import Lib.Val Lib.Res Gen.Prep Prep.Model.
Import ListNotations.
Open Scope N_scope.

(* ------------------------------------------------------------------ specification side *)
(* c is a digit of base b (any case) *)
Definition is_digit_b (b c : N) : bool :=
  match digit_val c with Some d => d <? b | None => false end.
Definition is_hex : N -> bool := is_digit_b 16.

(* the number a digit string denotes, most significant digit first *)
Fixpoint dvalue (b acc : N) (s : list N) : N :=
  match s with
  | [] => acc
  | c :: r => dvalue b (acc * b + match digit_val c with Some d => d | None => 0 end) r
  end.
Definition hex_value (s : list N) : N := dvalue 16 0 s.

Definition upper (c : N) : N := if (97 <=? c) && (c <=? 122) then c - 32 else c.

(* ------------------------------------------------------------------ characters *)
Lemma digit_range : forall b c, b <= 16 -> is_digit_b b c = true ->
  (48 <= c <= 57) \/ (97 <= c <= 102) \/ (65 <= c <= 70).
Proof.
  intros b c Hb H. unfold is_digit_b, digit_val in H.
  destruct ((48 <=? c) && (c <=? 57)) eqn:E1.
  { apply andb_true_iff in E1. destruct E1 as [A B]. apply N.leb_le in A, B. lia. }
  destruct ((97 <=? c) && (c <=? 122)) eqn:E2.
  { apply andb_true_iff in E2. destruct E2 as [A B]. apply N.leb_le in A, B.
    apply N.ltb_lt in H. lia. }
  destruct ((65 <=? c) && (c <=? 90)) eqn:E3; [|discriminate].
  apply andb_true_iff in E3. destruct E3 as [A B]. apply N.leb_le in A, B.
  apply N.ltb_lt in H. lia.
Qed.

Lemma range_not_space : forall c,
  (48 <= c <= 57) \/ (97 <= c <= 122) \/ (65 <= c <= 90) -> is_space c = false.
Proof.
  intros c Hr. destruct (is_space c) eqn:E; [|reflexivity]. exfalso.
  unfold is_space in E. apply existsb_exists in E. destruct E as [k [Hin Hk]].
  apply N.eqb_eq in Hk. subst k. unfold py_space in Hin. cbn [In] in Hin.
  repeat (destruct Hin as [Hin|Hin]; [lia|]). exact Hin.
Qed.

Lemma digit_not_space : forall b c, b <= 16 -> is_digit_b b c = true -> is_space c = false.
Proof.
  intros b c Hb H. apply range_not_space. pose proof (digit_range b c Hb H). lia.
Qed.

Lemma digit_char_val : forall d, d < 16 -> digit_val (digit_char d) = Some d.
Proof.
  intros d Hd.
  assert (C : d = 0 \/ d = 1 \/ d = 2 \/ d = 3 \/ d = 4 \/ d = 5 \/ d = 6 \/ d = 7 \/ d = 8 \/
              d = 9 \/ d = 10 \/ d = 11 \/ d = 12 \/ d = 13 \/ d = 14 \/ d = 15) by lia.
  repeat (destruct C as [->|C]; [reflexivity|]). subst d. reflexivity.
Qed.

Lemma digit_char_is_digit : forall b d, b <= 16 -> d < b -> is_digit_b b (digit_char d) = true.
Proof.
  intros b d Hb Hd. unfold is_digit_b. rewrite digit_char_val by lia. apply N.ltb_lt. assumption.
Qed.

Lemma forallb_In : forall (f : N -> bool) s, forallb f s = true -> forall c, In c s -> f c = true.
Proof. intros f s H c Hc. rewrite forallb_forall in H. auto. Qed.

(* ------------------------------------------------------------------ strip *)
Lemma lstrip_by_id : forall f s, (match s with c :: _ => f c = false | [] => True end) ->
  lstrip_by f s = s.
Proof. intros f [|c r] H; [reflexivity|]. cbn [lstrip_by]. rewrite H. reflexivity. Qed.

Lemma lstrip_by_app : forall f pre s, forallb f pre = true -> lstrip_by f (pre ++ s) = lstrip_by f s.
Proof.
  induction pre as [|c pre IH]; intros s H; [reflexivity|]. cbn [forallb] in H.
  apply andb_true_iff in H. destruct H as [Hc Hp]. cbn [app lstrip_by]. rewrite Hc. auto.
Qed.

Lemma hd_rev_last : forall (s : list N) c r, s = c :: r -> forall d, exists r', rev s = last s d :: r'.
Proof.
  intros s c r -> d. revert c. induction r as [|x r IH]; intro c.
  - exists []. reflexivity.
  - destruct (IH x) as [r' E]. cbn [rev] in *. rewrite E.
    exists (r' ++ [c]). reflexivity.
Qed.

(* strip of pre ++ s ++ post where s starts and ends with a kept character *)
Lemma strip_by_mid : forall f pre s post c r,
  s = c :: r -> f c = false -> f (last s 0) = false ->
  forallb f pre = true -> forallb f post = true ->
  strip_by f (pre ++ s ++ post) = s.
Proof.
  intros f pre s post c r Es Hc Hl Hpre Hpost. unfold strip_by, rstrip_by.
  rewrite (lstrip_by_app f pre (s ++ post)) by assumption.
  rewrite (lstrip_by_id f (s ++ post)) by (rewrite Es; cbn [app]; exact Hc).
  rewrite rev_app_distr.
  rewrite (lstrip_by_app f (rev post) (rev s))
    by (rewrite forallb_forall in *; intros x Hx; apply Hpost, in_rev; assumption).
  destruct (hd_rev_last s c r Es 0) as [r' E].
  rewrite (lstrip_by_id f (rev s)) by (rewrite E; exact Hl).
  apply rev_involutive.
Qed.

Lemma strip_by_id : forall f s c r, s = c :: r -> f c = false -> f (last s 0) = false ->
  strip_by f s = s.
Proof.
  intros f s c r Es Hc Hl.
  pose proof (strip_by_mid f [] s [] c r Es Hc Hl eq_refl eq_refl) as H.
  cbn [app] in H. rewrite app_nil_r in H. exact H.
Qed.

Lemma last_In : forall (s : list N) c r d, s = c :: r -> In (last s d) s.
Proof.
  intros s c r d ->. revert c. induction r as [|x r IH]; intro c.
  - left. reflexivity.
  - right. apply (IH x).
Qed.

(* ------------------------------------------------------------------ digits *)
Lemma dvalue_app : forall b a r acc, dvalue b acc (a ++ r) = dvalue b (dvalue b acc a) r.
Proof. induction a as [|c a IH]; intros r acc; [reflexivity|]. cbn [app dvalue]. apply IH. Qed.

Lemma scan_digits_ok : forall b s acc, forallb (is_digit_b b) s = true ->
  scan_digits b acc false s = Some (dvalue b acc s).
Proof.
  induction s as [|c r IH]; intros acc H; [reflexivity|].
  cbn [forallb] in H. apply andb_true_iff in H. destruct H as [Hc Hr].
  cbn [scan_digits dvalue].
  destruct (N.eqb_spec c US) as [->|_]; [discriminate Hc|].
  unfold is_digit_b in Hc. destruct (digit_val c) as [d|]; [|discriminate].
  rewrite Hc. apply IH. assumption.
Qed.

Lemma to_digits_app : forall f b n acc, to_digits f b n acc = to_digits f b n [] ++ acc.
Proof.
  induction f as [|f IH]; intros b n acc; [reflexivity|]. cbn [to_digits].
  destruct (n <? b); [reflexivity|].
  rewrite IH. rewrite (IH b (n / b) [digit_char (n mod b)]). rewrite <- app_assoc. reflexivity.
Qed.

Lemma to_digits_S : forall f b n acc,
  to_digits (S f) b n acc =
  if n <? b then digit_char n :: acc else to_digits f b (n / b) (digit_char (n mod b) :: acc).
Proof. reflexivity. Qed.

Lemma to_digits_spec : forall b, 2 <= b <= 16 -> forall f n, n < 2 ^ N.of_nat (S f) ->
  let ds := to_digits (S f) b n [] in
  ds <> [] /\ forallb (is_digit_b b) ds = true /\ dvalue b 0 ds = n /\
  (n <> 0 -> hd 0 ds <> 48).
Proof.
  intros b Hb. induction f as [|f IH]; intros n Hn.
  - (* n < 2: a single digit *)
    cbn [to_digits]. change (2 ^ N.of_nat 1) with 2 in Hn.
    assert (Hnb : n <? b = true) by (apply N.ltb_lt; lia). rewrite Hnb.
    split; [discriminate|]. split; [cbn [forallb]; rewrite digit_char_is_digit by lia; reflexivity|].
    split; [cbn [dvalue]; rewrite digit_char_val by lia; lia|].
    intro Hz. assert (n = 1) by lia. subst n. discriminate.
  - rewrite (to_digits_S (S f)). destruct (N.ltb_spec n b) as [Hlt|Hge].
    + split; [discriminate|]. split; [cbn [forallb]; rewrite digit_char_is_digit by lia; reflexivity|].
      split; [cbn [dvalue]; rewrite digit_char_val by lia; lia|].
      intro Hz. cbn [hd]. unfold digit_char. destruct (N.ltb_spec n 10); lia.
    + assert (Hq : n / b < 2 ^ N.of_nat (S f)).
      { apply N.div_lt_upper_bound; [lia|].
        rewrite Nat2N.inj_succ, N.pow_succ_r' in Hn. nia. }
      specialize (IH (n / b) Hq). cbv zeta in IH. destruct IH as [Hne [Hall [Hval Hlead]]].
      rewrite to_digits_app.
      set (ds := to_digits (S f) b (n / b) []) in *.
      assert (Hmod : n mod b < b) by (apply N.mod_lt; lia).
      split; [destruct ds; [congruence|discriminate]|].
      split.
      { rewrite forallb_app, Hall. cbn [forallb]. rewrite digit_char_is_digit by lia. reflexivity. }
      split.
      { rewrite dvalue_app, Hval. cbn [dvalue]. rewrite digit_char_val by lia.
        rewrite N.mul_comm. symmetry. apply N.div_mod. lia. }
      intros _. assert (Hq0 : n / b <> 0).
      { intro E. apply N.div_small_iff in E; lia. }
      specialize (Hlead Hq0). destruct ds; [congruence|]. exact Hlead.
Qed.

Lemma show_base_fuel : forall n, n < 2 ^ N.of_nat (S (N.to_nat (N.log2 n))).
Proof.
  intro n. rewrite Nat2N.inj_succ, N2Nat.id.
  destruct (N.eq_dec n 0) as [->|Hn]; [reflexivity|].
  apply N.log2_spec. lia.
Qed.

Theorem show_base_spec : forall b n, 2 <= b <= 16 ->
  show_base b n <> [] /\ forallb (is_digit_b b) (show_base b n) = true /\
  dvalue b 0 (show_base b n) = n /\ (n <> 0 -> hd 0 (show_base b n) <> 48).
Proof.
  intros b n Hb. unfold show_base.
  destruct (to_digits_spec b Hb _ n (show_base_fuel n)) as [A [B [C D]]].
  repeat split; assumption.
Qed.

Lemma show_base_nonspace : forall b n, 2 <= b <= 16 ->
  Forall (fun c => is_space c = false) (show_base b n).
Proof.
  intros b n Hb. destruct (show_base_spec b n Hb) as [_ [H _]].
  apply Forall_forall. intros c Hc. apply (digit_not_space b); [lia|].
  apply (forallb_In _ _ H c Hc).
Qed.

(* ------------------------------------------------------------------ int() on digit strings *)
Lemma int_space_false : forall c, is_space c = false -> int_space c = false.
Proof. intros c H. unfold int_space. rewrite H. reflexivity. Qed.

Lemma digit_neq : forall b c k, b <= 16 -> is_digit_b b c = true ->
  ~ ((48 <= k <= 57) \/ (97 <= k <= 102) \/ (65 <= k <= 70)) -> (c =? k) = false.
Proof.
  intros b c k Hb H Hk. apply N.eqb_neq. intros ->. apply Hk. apply (digit_range b k Hb H).
Qed.

Theorem py_int_digits : forall b s, b = 10 \/ b = 16 -> s <> [] ->
  forallb (is_digit_b b) s = true -> py_int b s = Ok (Z.of_N (dvalue b 0 s)).
Proof.
  intros b s Hb Hne Hall. assert (Hb16 : b <= 16) by lia.
  destruct s as [|c r]; [congruence|].
  assert (Hc : is_digit_b b c = true) by (apply (forallb_In _ _ Hall); left; reflexivity).
  unfold py_int.
  rewrite (strip_by_id int_space (c :: r) c r eq_refl).
  2:{ apply int_space_false, (digit_not_space b); assumption. }
  2:{ apply int_space_false, (digit_not_space b); [assumption|].
      apply (forallb_In _ _ Hall). apply (last_In _ c r 0 eq_refl). }
  rewrite (digit_neq b c 43 Hb16 Hc) by lia. rewrite (digit_neq b c 45 Hb16 Hc) by lia.
  assert (Hskip : skip_prefix b (c :: r) = c :: r).
  { unfold skip_prefix. destruct Hb as [->| ->]; [reflexivity|].
    change (16 =? 16) with true. cbv iota. destruct r as [|x r']; [reflexivity|].
    assert (Hx : is_digit_b 16 x = true) by (apply (forallb_In _ _ Hall); right; left; reflexivity).
    rewrite (digit_neq 16 x 120 Hb16 Hx) by lia. rewrite (digit_neq 16 x 88 Hb16 Hx) by lia.
    rewrite andb_false_r. reflexivity. }
  rewrite Hskip. unfold int_body. rewrite (digit_neq b c US Hb16 Hc) by (unfold US; lia).
  rewrite scan_digits_ok by assumption. reflexivity.
Qed.

Theorem py_int_show : forall b n, b = 10 \/ b = 16 -> py_int b (show_base b n) = Ok (Z.of_N n).
Proof.
  intros b n Hb. destruct (show_base_spec b n) as [A [B [C _]]]; [lia|].
  rewrite py_int_digits by assumption. rewrite C. reflexivity.
Qed.

(* ------------------------------------------------------------------ serial *)
Lemma starts_with_app : forall p r, starts_with p (p ++ r) = true.
Proof. induction p as [|a p IH]; intro r; [reflexivity|]. cbn [app starts_with]. rewrite N.eqb_refl. apply IH. Qed.

Lemma starts_with_inv : forall p s, starts_with p s = true -> exists r, s = p ++ r.
Proof.
  induction p as [|a p IH]; intros s H.
  - exists s. reflexivity.
  - destruct s as [|b s]; [discriminate|]. cbn [starts_with] in H.
    apply andb_true_iff in H. destruct H as [E H]. apply N.eqb_eq in E. subst b.
    destruct (IH s H) as [r ->]. exists r. reflexivity.
Qed.

Lemma dvalue_ge_acc : forall b s acc, 1 <= b -> acc <= dvalue b acc s.
Proof.
  induction s as [|c r IH]; intros acc Hb; [cbn; lia|]. cbn [dvalue].
  etransitivity; [|apply IH; assumption]. nia.
Qed.

Lemma dvalue_bound : forall s acc, forallb is_hex s = true ->
  dvalue 16 acc s < (acc + 1) * 16 ^ N.of_nat (List.length s).
Proof.
  induction s as [|c r IH]; intros acc H.
  - cbn [dvalue List.length]. change (16 ^ N.of_nat 0) with 1. lia.
  - cbn [forallb] in H. apply andb_true_iff in H. destruct H as [Hc Hr].
    cbn [dvalue List.length]. unfold is_hex, is_digit_b in Hc.
    destruct (digit_val c) as [d|]; [|discriminate]. apply N.ltb_lt in Hc.
    rewrite Nat2N.inj_succ, N.pow_succ_r'.
    eapply N.lt_le_trans; [apply IH; assumption|]. nia.
Qed.

Lemma serial_unfold : forall s,
  serial s =
  let s := strip s in
  let s := if (16 <=? N.of_nat (List.length s)) &&
              (starts_with (str "10000000"%string) s || starts_with (str "00000000"%string) s)
           then skipn 8 s else s in
  do v <- py_int 16 s;
  if (0 <=? v)%Z && (v <=? 4294967295)%Z then Ok (Z.to_N v) else Err ValueError.
Proof.
  intro s. unfold serial, ser_prefixes, existsb. rewrite orb_false_r. reflexivity.
Qed.

Lemma dvalue_zeros : forall k s, dvalue 16 0 (repeat 48 k ++ s) = dvalue 16 0 s.
Proof. induction k as [|k IH]; intro s; [reflexivity|]. cbn [repeat app dvalue]. apply IH. Qed.

(* the core: a non-empty all-hex string denoting a value within range *)
Lemma serial_hex : forall s, s <> [] -> forallb is_hex s = true -> hex_value s <= 4294967295 ->
  serial s = Ok (hex_value s).
Proof.
  intros s Hne Hall Hv. rewrite serial_unfold. cbv zeta.
  destruct s as [|c r] eqn:Es; [congruence|]. rewrite <- Es in *.
  assert (Hns : forall x, In x s -> is_space x = false).
  { intros x Hx. apply (digit_not_space 16); [lia|]. apply (forallb_In _ _ Hall x Hx). }
  unfold strip. rewrite (strip_by_id is_space s c r Es).
  2:{ apply Hns. rewrite Es. left. reflexivity. }
  2:{ apply Hns. apply (last_In s c r 0 Es). }
  set (cond := (16 <=? N.of_nat (List.length s)) && _).
  assert (Hgo : forall t, t <> [] -> forallb is_hex t = true -> hex_value t = hex_value s ->
          (do v <- py_int 16 t;
           if (0 <=? v)%Z && (v <=? 4294967295)%Z then Ok (Z.to_N v) else Err ValueError)
          = Ok (hex_value s)).
  { intros t Ht1 Ht2 Ht3. rewrite py_int_digits by (auto; right; reflexivity).
    cbn [bind]. fold (hex_value t). rewrite Ht3.
    assert ((0 <=? Z.of_N (hex_value s))%Z = true) as -> by (apply Z.leb_le; lia).
    assert ((Z.of_N (hex_value s) <=? 4294967295)%Z = true) as -> by (apply Z.leb_le; lia).
    cbn [andb]. rewrite N2Z.id. reflexivity. }
  destruct cond eqn:Ec; [|apply Hgo; auto; rewrite Es; discriminate].
  apply andb_true_iff in Ec. destruct Ec as [Hlen Hpre]. apply N.leb_le in Hlen.
  apply orb_true_iff in Hpre. destruct Hpre as [Hp|Hp]; apply starts_with_inv in Hp; destruct Hp as [t Et].
  - (* 10000000 + at least 8 more digits is out of range *)
    exfalso. rewrite Et in Hv, Hlen. unfold hex_value in Hv. rewrite dvalue_app in Hv.
    change (dvalue 16 0 (str "10000000"%string)) with 268435456 in Hv.
    rewrite app_length in Hlen. change (List.length (str "10000000"%string)) with 8%nat in Hlen.
    destruct t as [|x t']; [cbn in Hlen; lia|]. cbn [dvalue] in Hv.
    pose proof (dvalue_ge_acc 16 t' (268435456 * 16 + match digit_val x with Some d => d | None => 0 end)).
    lia.
  - (* eight zeros are dropped without changing the value *)
    assert (Hk : skipn 8 s = t) by (rewrite Et; reflexivity). rewrite Hk.
    assert (Hall' : forallb is_hex t = true).
    { rewrite Et, forallb_app in Hall. apply andb_true_iff in Hall. apply Hall. }
    assert (Hne' : t <> []).
    { rewrite Et, app_length in Hlen. change (List.length (str "00000000"%string)) with 8%nat in Hlen.
      destruct t; [cbn in Hlen; lia|discriminate]. }
    apply Hgo; [assumption|assumption|].
    rewrite Et. unfold hex_value. symmetry. apply (dvalue_zeros 8 t).
Qed.

Lemma strip_mid_hex : forall pre s post, s <> [] -> forallb is_hex s = true ->
  forallb is_space pre = true -> forallb is_space post = true ->
  strip (pre ++ s ++ post) = s.
Proof.
  intros pre s post Hne Hall Hpre Hpost. destruct s as [|c r] eqn:Es; [congruence|]. rewrite <- Es in *.
  assert (Hns : forall x, In x s -> is_space x = false).
  { intros x Hx. apply (digit_not_space 16); [lia|]. apply (forallb_In _ _ Hall x Hx). }
  apply (strip_by_mid is_space pre s post c r Es); auto.
  - apply Hns. rewrite Es. left. reflexivity.
  - apply Hns. apply (last_In s c r 0 Es).
Qed.

Lemma strip_idem_hex : forall s, s <> [] -> forallb is_hex s = true -> strip s = s.
Proof.
  intros s Hne Hall. pose proof (strip_mid_hex [] s [] Hne Hall eq_refl eq_refl) as H.
  cbn [app] in H. rewrite app_nil_r in H. exact H.
Qed.

(* any spelling: hex digits in either case, any number of leading zeros, white space around *)
Theorem serial_roundtrip : forall pre s post,
  s <> [] -> forallb is_hex s = true -> hex_value s <= 4294967295 ->
  forallb is_space pre = true -> forallb is_space post = true ->
  serial (pre ++ s ++ post) = Ok (hex_value s).
Proof.
  intros pre s post Hne Hall Hv Hpre Hpost.
  rewrite <- (serial_hex s Hne Hall Hv).
  unfold serial. rewrite strip_mid_hex by assumption. rewrite strip_idem_hex by assumption. reflexivity.
Qed.

Lemma upper_digit_val : forall c, is_digit_b 16 c = true ->
  digit_val (upper c) = digit_val c /\ is_digit_b 16 (upper c) = true.
Proof.
  intros c H. pose proof (digit_range 16 c (N.le_refl _) H) as R.
  assert (C : c = 48 \/ c = 49 \/ c = 50 \/ c = 51 \/ c = 52 \/ c = 53 \/ c = 54 \/ c = 55 \/ c = 56 \/
              c = 57 \/ c = 97 \/ c = 98 \/ c = 99 \/ c = 100 \/ c = 101 \/ c = 102 \/
              c = 65 \/ c = 66 \/ c = 67 \/ c = 68 \/ c = 69 \/ c = 70) by lia.
  repeat (destruct C as [->|C]; [split; reflexivity|]). subst c. split; reflexivity.
Qed.

Lemma upper_hex : forall s, forallb is_hex s = true ->
  forallb is_hex (map upper s) = true /\ forall acc, dvalue 16 acc (map upper s) = dvalue 16 acc s.
Proof.
  induction s as [|c r IH]; intro H; [split; reflexivity|].
  cbn [forallb] in H. apply andb_true_iff in H. destruct H as [Hc Hr].
  destruct (IH Hr) as [A B]. destruct (upper_digit_val c Hc) as [E1 E2].
  split.
  - cbn [map forallb]. unfold is_hex at 1. rewrite E2, A. reflexivity.
  - intro acc. cbn [map dvalue]. rewrite E1. apply B.
Qed.

(* serial (hex n) = n, lower or upper case, with any number of leading zeros *)
Theorem serial_show : forall n k, n <= 4294967295 ->
  serial (repeat 48 k ++ show_base 16 n) = Ok n /\
  serial (repeat 48 k ++ map upper (show_base 16 n)) = Ok n.
Proof.
  intros n k Hn. destruct (show_base_spec 16 n) as [A [B [C _]]]; [lia|].
  change (is_digit_b 16) with is_hex in B.
  destruct (upper_hex _ B) as [BU CU].
  assert (Hz : forallb is_hex (repeat 48 k) = true).
  { induction k; [reflexivity|]. cbn [repeat forallb]. rewrite IHk. reflexivity. }
  split.
  - pose proof (serial_roundtrip [] (repeat 48 k ++ show_base 16 n) []) as H.
    cbn [app] in H. rewrite app_nil_r in H. rewrite H; clear H.
    + unfold hex_value. rewrite dvalue_zeros, C. reflexivity.
    + destruct (show_base 16 n); [congruence|]. destruct k; discriminate.
    + rewrite forallb_app, Hz, B. reflexivity.
    + unfold hex_value. rewrite dvalue_zeros, C. assumption.
    + reflexivity.
    + reflexivity.
  - pose proof (serial_roundtrip [] (repeat 48 k ++ map upper (show_base 16 n)) []) as H.
    cbn [app] in H. rewrite app_nil_r in H. rewrite H; clear H.
    + unfold hex_value. rewrite dvalue_zeros, CU, C. reflexivity.
    + destruct (show_base 16 n); [congruence|]. destruct k; discriminate.
    + rewrite forallb_app, Hz, BU. reflexivity.
    + unfold hex_value. rewrite dvalue_zeros, CU, C. assumption.
    + reflexivity.
    + reflexivity.
Qed.

(* the 16-digit spellings of the bootloader: prefix + rest denotes the rest *)
Theorem serial_prefix : forall t, (8 <= List.length t)%nat -> forallb is_hex t = true ->
  hex_value t <= 4294967295 ->
  serial (str "10000000"%string ++ t) = Ok (hex_value t) /\
  serial (str "00000000"%string ++ t) = Ok (hex_value t).
Proof.
  intros t Hlen Hall Hv.
  assert (Hne : t <> []) by (destruct t; [cbn in Hlen; lia|discriminate]).
  assert (G : forall p, (p = str "10000000"%string \/ p = str "00000000"%string) ->
              serial (p ++ t) = Ok (hex_value t)).
  { intros p Hp. rewrite serial_unfold. cbv zeta.
    assert (Hph : forallb is_hex p = true) by (destruct Hp as [-> | ->]; reflexivity).
    rewrite strip_idem_hex.
    2:{ destruct Hp as [-> | ->]; discriminate. }
    2:{ rewrite forallb_app, Hph, Hall. reflexivity. }
    assert (Hl : (16 <=? N.of_nat (List.length (p ++ t))) = true).
    { apply N.leb_le. rewrite app_length. destruct Hp as [-> | ->]; cbn [List.length str]; cbn; lia. }
    rewrite Hl.
    assert (Hs : starts_with (str "10000000"%string) (p ++ t) || starts_with (str "00000000"%string) (p ++ t) = true).
    { destruct Hp as [-> | ->]; rewrite starts_with_app; [reflexivity|apply orb_true_r]. }
    rewrite Hs. cbn [andb].
    assert (Hk : skipn 8 (p ++ t) = t) by (destruct Hp as [-> | ->]; reflexivity).
    rewrite Hk. rewrite py_int_digits by (auto; right; reflexivity). cbn [bind]. fold (hex_value t).
    assert ((0 <=? Z.of_N (hex_value t))%Z = true) as -> by (apply Z.leb_le; lia).
    assert ((Z.of_N (hex_value t) <=? 4294967295)%Z = true) as -> by (apply Z.leb_le; lia).
    cbn [andb]. rewrite N2Z.id. reflexivity. }
  split; apply G; auto.
Qed.

Theorem serial_prefix16 : forall t, List.length t = 8%nat -> forallb is_hex t = true ->
  serial (str "10000000"%string ++ t) = Ok (hex_value t) /\
  serial (str "00000000"%string ++ t) = Ok (hex_value t) /\ hex_value t < 2 ^ 32.
Proof.
  intros t Hlen Hall. pose proof (dvalue_bound t 0 Hall) as Hb. rewrite Hlen in Hb.
  change ((0 + 1) * 16 ^ N.of_nat 8) with 4294967296 in Hb. fold (hex_value t) in Hb.
  destruct (serial_prefix t) as [A B]; [lia|assumption|lia|].
  split; [exact A|split; [exact B|exact Hb]].
Qed.

(* whatever is accepted is a 32-bit number; too large a number is refused *)
Theorem serial_range : forall s n, serial s = Ok n -> n <= 4294967295.
Proof.
  intros s n. rewrite serial_unfold. cbv zeta.
  destruct (py_int 16 _) as [v|e]; cbn [bind]; [|discriminate].
  destruct ((0 <=? v)%Z && (v <=? 4294967295)%Z) eqn:E; [|discriminate].
  intro H. injection H as <-. apply andb_true_iff in E. destruct E as [A B].
  apply Z.leb_le in A, B. lia.
Qed.

Theorem serial_rejects : forall s, s <> [] -> forallb is_hex s = true ->
  (List.length s < 16)%nat -> 4294967295 < hex_value s -> serial s = Err ValueError.
Proof.
  intros s Hne Hall Hlen Hv. rewrite serial_unfold. cbv zeta.
  rewrite strip_idem_hex by assumption.
  assert ((16 <=? N.of_nat (List.length s)) = false) as -> by (apply N.leb_gt; lia).
  cbn [andb]. rewrite py_int_digits by (auto; right; reflexivity). cbn [bind]. fold (hex_value s).
  assert ((Z.of_N (hex_value s) <=? 4294967295)%Z = false) as -> by (apply Z.leb_gt; lia).
  rewrite andb_false_r. reflexivity.
Qed.
