(* prep.detect_partitions: the loop that picks the boot and the root partition from what
   sh.fat_types reports for every partition (in partition-table order).
     kind 0 = a FAT file system was found ("fat12" / "fat16" / "fat32")
     kind 1 = "maybefat" (FAT type code, no file system)        kind 2 = "notfat"
   The loop body is a fact regenerated from prep.py (Gen/Prep.v: detect_loop_standard). *)
From Coq Require Import List NArith Bool.
Import ListNotations.
Open Scope N_scope.

Inductive pkind := KFat | KMaybe | KNot.
Definition both (boot root : option N) : bool :=
  match boot, root with Some _, Some _ => true | _, _ => false end.

(* one iteration; the [break] is taken when both are known afterwards *)
Definition detect_step (boot root : option N) (x : N * pkind) : option N * option N :=
  let '(num, k) := x in
  match k, boot with
  | KFat, None => (Some num, root)
  | _, _ => match k, root with
            | KNot, None => (boot, Some num)
            | _, _ => (boot, root)
            end
  end.
Fixpoint detect_loop (boot root : option N) (l : list (N * pkind)) : option N * option N :=
  match l with
  | [] => (boot, root)
  | x :: r => let '(b, t) := detect_step boot root x in
              if both b t then (b, t) else detect_loop b t r
  end.
Inductive outcome := Detected (boot root : N) | NoBoot | NoRoot.
Definition detect (boot root : option N) (l : list (N * pkind)) : outcome :=
  match detect_loop boot root l with
  | (None, _) => NoBoot
  | (Some _, None) => NoRoot
  | (Some b, Some r) => Detected b r
  end.

(* ------------------------------------------------------------------ specification *)
Definition is_fat (x : N * pkind) : bool := match snd x with KFat => true | _ => false end.
Definition is_not (x : N * pkind) : bool := match snd x with KNot => true | _ => false end.
Definition first_of (f : N * pkind -> bool) (l : list (N * pkind)) : option N := option_map fst (find f l).
Definition orelse (a b : option N) : option N := match a with Some _ => a | None => b end.

(* the break does not change the result: once both are known nothing is overwritten *)
Lemma detect_step_keeps b t x : both b t = true -> detect_step b t x = (b, t).
Proof. destruct b as [bb|], t as [tt|]; try discriminate. destruct x as [num []]; reflexivity. Qed.
Lemma detect_loop_fixed b t l : both b t = true -> detect_loop b t l = (b, t).
Proof.
  revert b t. induction l as [|x r IH]; intros b t H; [reflexivity|]. cbn [detect_loop].
  rewrite (detect_step_keeps b t x H), H. reflexivity.
Qed.
Lemma detect_loop_fold l : forall b t,
  detect_loop b t l = fold_left (fun s x => detect_step (fst s) (snd s) x) l (b, t).
Proof.
  induction l as [|x r IH]; intros b t; [reflexivity|]. cbn [detect_loop fold_left fst snd].
  destruct (detect_step b t x) as [b' t'] eqn:E. destruct (both b' t') eqn:B.
  - symmetry. clear IH E. revert B. generalize b' t'. induction r as [|y r IH]; intros b0 t0 B; [reflexivity|].
    cbn [fold_left fst snd]. rewrite (detect_step_keeps b0 t0 y B). apply IH, B.
  - apply IH.
Qed.

(* the boot partition: the one given, else the FIRST partition holding a FAT file system; the
   root partition: the one given, else the FIRST partition that is neither FAT nor FAT-typed *)
Theorem detect_loop_spec l : forall b t,
  detect_loop b t l = (orelse b (first_of is_fat l), orelse t (first_of is_not l)).
Proof.
  induction l as [|[n k] r IH]; intros b t.
  - destruct b, t; reflexivity.
  - cbn [detect_loop]. destruct (detect_step b t (n, k)) as [b' t'] eqn:E.
    destruct (both b' t') eqn:B.
    + destruct b' as [b'|], t' as [t'|]; try discriminate. unfold first_of. cbn [find].
      destruct b as [b|], t as [t|], k; cbn in E |- *; inversion E; subst; try reflexivity;
        cbn [is_fat is_not snd option_map fst orelse]; try reflexivity.
      all: try (destruct (find is_fat r); reflexivity).
      all: try (destruct (find is_not r); reflexivity).
    + rewrite IH. unfold first_of. cbn [find].
      destruct b as [b|], t as [t|], k; cbn in E |- *; inversion E; subst; cbn [is_fat is_not snd option_map fst orelse] in *;
        try discriminate; reflexivity.
Qed.

Theorem detect_spec b t l :
  detect b t l =
  match orelse b (first_of is_fat l), orelse t (first_of is_not l) with
  | None, _ => NoBoot
  | Some _, None => NoRoot
  | Some x, Some y => Detected x y
  end.
Proof. unfold detect. rewrite detect_loop_spec. reflexivity. Qed.

(* a FAT-typed partition without a file system ("maybefat") is never chosen for anything *)
Theorem maybefat_never_chosen l b r : detect None None l = Detected b r ->
  In (b, KFat) l /\ In (r, KNot) l.
Proof.
  rewrite detect_spec. cbn [orelse]. unfold first_of.
  destruct (find is_fat l) as [[n1 k1]|] eqn:F; cbn [option_map fst]; [|discriminate].
  destruct (find is_not l) as [[n2 k2]|] eqn:G; cbn [option_map fst]; [|discriminate].
  intros H. inversion H; subst. apply find_some in F, G. destruct F as [F1 F2], G as [G1 G2].
  destruct k1; try discriminate. destruct k2; try discriminate. auto.
Qed.

Example detect_examples :
  detect None None [(1, KFat); (2, KNot)] = Detected 1 2 /\
  detect None None [(1, KNot); (2, KMaybe); (3, KFat); (4, KFat); (5, KNot)] = Detected 3 1 /\
  detect None None [(1, KMaybe); (2, KNot)] = NoBoot /\
  detect None None [(1, KFat); (2, KFat); (3, KMaybe)] = NoRoot /\
  detect (Some 7) None [(1, KFat); (2, KNot)] = Detected 7 2 /\
  detect None (Some 9) [(1, KNot); (2, KFat)] = Detected 2 9 /\
  detect (Some 2) (Some 1) [] = Detected 2 1.
Proof. repeat split; reflexivity. Qed.
