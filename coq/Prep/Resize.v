(* prep.prepare_image, first half: the image file is grown to the requested size (never shrunk,
   never rewritten), and config.size, which reads the requested size from the command line.
     with conf.image.open('ab') as f:
         size = f.seek(0, os.SEEK_END)
         if size < conf.size: f.seek(conf.size); f.truncate()
   (statement text regenerated in Gen/Prep.v: resize_block_standard).  POSIX: truncating a file at
   a position beyond its end extends it with zero bytes. *)
From Coq Require Import List NArith ZArith Bool Lia.
Import ListNotations.
Open Scope N_scope.
Ltac Zify.zify_post_hook ::= Z.to_euclidean_division_equations.

Definition len {A} (l : list A) : N := N.of_nat (length l).
Definition resize (image : list N) (want : N) : list N :=
  if len image <? want then image ++ repeat 0 (N.to_nat (want - len image)) else image.

Theorem resize_at_least image want : want <= len (resize image want).
Proof.
  unfold resize. destruct (N.ltb_spec (len image) want) as [L|L]; [|exact L].
  unfold len in *. rewrite app_length, repeat_length. lia.
Qed.
Theorem resize_exact image want : len (resize image want) = N.max (len image) want.
Proof.
  unfold resize. destruct (N.ltb_spec (len image) want) as [L|L]; [|lia].
  unfold len in *. rewrite app_length, repeat_length. lia.
Qed.
(* every byte the image held is where it was (all partitions, the partition table ...) *)
Theorem resize_keeps_content image want : firstn (length image) (resize image want) = image.
Proof.
  unfold resize. destruct (len image <? want); [|apply firstn_all].
  rewrite firstn_app, Nat.sub_diag, firstn_all. cbn [firstn]. apply app_nil_r.
Qed.
Theorem resize_tail_zero image want i : (length image <= i)%nat -> (i < length (resize image want))%nat ->
  nth i (resize image want) 255 = 0.
Proof.
  unfold resize. destruct (len image <? want); intros H1 H2; [|lia].
  rewrite app_nth2 by lia. rewrite app_length, repeat_length in H2.
  rewrite (nth_indep _ 255 0) by (rewrite repeat_length; lia). apply nth_repeat.
Qed.
Theorem resize_idempotent image want : resize (resize image want) want = resize image want.
Proof.
  pose proof (resize_at_least image want) as H. unfold resize at 1.
  destruct (N.ltb_spec (len (resize image want)) want); [lia|reflexivity].
Qed.

(* ---------------- config.size ---------------- *)
(* the accepted spellings: digits [ "." digits ] followed by KB | MB | GB | TB, or digits followed by
   B or by nothing.  [mant] = all the digits read as one number, [frac] = how many of them stood
   after the point: the value is mant / 10^frac.  int() truncates. *)
Inductive suffix := SNone | SB | SKB | SMB | SGB | STB.
Definition power (s : suffix) : N :=
  match s with SNone | SB => 0 | SKB => 1 | SMB => 2 | SGB => 3 | STB => 4 end.
Definition size_of (mant frac : N) (s : suffix) : N := (mant * 2 ^ (10 * power s)) / 10 ^ frac.

Theorem size_whole mant s : size_of mant 0 s = mant * 2 ^ (10 * power s).
Proof. unfold size_of. rewrite N.pow_0_r, N.div_1_r. reflexivity. Qed.
Theorem size_default : size_of 16 0 SGB = 17179869184.
Proof. reflexivity. Qed.
Theorem size_monotone m1 m2 frac s : m1 <= m2 -> size_of m1 frac s <= size_of m2 frac s.
Proof.
  intros H. unfold size_of. apply N.div_le_mono; [apply N.pow_nonzero; discriminate|].
  apply N.mul_le_mono_r, H.
Qed.
(* a fractional size is rounded DOWN to whole bytes, by less than one byte *)
Theorem size_truncates mant frac s :
  size_of mant frac s * 10 ^ frac <= mant * 2 ^ (10 * power s) /\
  mant * 2 ^ (10 * power s) < (size_of mant frac s + 1) * 10 ^ frac.
Proof.
  unfold size_of. assert (P : 10 ^ frac <> 0) by (apply N.pow_nonzero; discriminate).
  set (a := mant * 2 ^ (10 * power s)). set (b := 10 ^ frac) in *.
  pose proof (N.div_mod a b P) as D. pose proof (N.mod_lt a b P) as M. nia.
Qed.

Example size_examples :
  size_of 16 0 SGB = 16 * 1073741824 /\ size_of 15 1 SGB = 1610612736 /\ size_of 512 0 SMB = 536870912 /\
  size_of 1 0 STB = 1099511627776 /\ size_of 1000 0 SB = 1000 /\ size_of 12345 0 SNone = 12345 /\
  size_of 1 3 SKB = 1 /\ size_of 1 4 SKB = 0 /\ size_of 25 2 SKB = 256.
Proof. repeat split; reflexivity. Qed.
