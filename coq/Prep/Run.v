From Coq Require Import List NArith ZArith String.
From NV Require Import Lib.Val Lib.Res Lib.Wire Prep.Model.
From NV Require Prep.Detect Prep.Resize.
Import ListNotations.
Open Scope string_scope.

Definition VBoard (x : N * list N * Z) : val :=
  let '(n, img, p) := x in VL [VN n; VS img; VZ p].

Definition dispatch (cmd : string) (a : val) : val :=
  if String.eqb cmd "rewrite" then
    VS (rewrite_cmdline (getS (arg 0 a)) (getS (arg 1 a)) (getN (arg 2 a)) (getS (arg 3 a)))
  else if String.eqb cmd "split" then VLs (split_ws (getS a))
  else if String.eqb cmd "strip" then VS (strip (getS a))
  else if String.eqb cmd "univ_nl" then VS (univ_nl (getS a))
  else if String.eqb cmd "first_line" then VS (first_line (getS a))
  else if String.eqb cmd "spaces" then VL (map VN py_space)
  else if String.eqb cmd "is_space" then VL (map (fun v => VB (is_space (getN v))) (getL a))
  else if String.eqb cmd "show" then VS (show_base (getN (arg 0 a)) (getN (arg 1 a)))
  else if String.eqb cmd "pyint" then VRes VZ (py_int (getN (arg 0 a)) (getS (arg 1 a)))
  else if String.eqb cmd "serial" then VRes VN (serial (getS a))
  else if String.eqb cmd "board_conf" then
    VS (board_conf (getN (arg 0 a)) (getS (arg 1 a)) (getN (arg 2 a)))
  else if String.eqb cmd "read_board" then VOpt VBoard (read_board (getS a))
  else if String.eqb cmd "path_ok" then VB (path_ok (getS a))
  else if String.eqb cmd "size_of" then
    (* [mantissa; digits after the point; suffix 0 none 1 B 2 KB 3 MB 4 GB 5 TB] *)
    let sf := let n := getN (arg 2 a) in
              if N.eqb n 0 then Prep.Resize.SNone else if N.eqb n 1 then Prep.Resize.SB else if N.eqb n 2 then Prep.Resize.SKB
              else if N.eqb n 3 then Prep.Resize.SMB else if N.eqb n 4 then Prep.Resize.SGB else Prep.Resize.STB in
    VN (Prep.Resize.size_of (getN (arg 0 a)) (getN (arg 1 a)) sf)
  else if String.eqb cmd "resize_len" then
    (* [current length; wanted] -> new length (the content model is in the theorems) *)
    VN (N.max (getN (arg 0 a)) (getN (arg 1 a)))
  else if String.eqb cmd "detect" then
    (* [() | (boot); () | (root); [(number, kind) ...]] kind 0 fat 1 maybefat 2 notfat -> (boot, root) | 0 no boot | 1 no root *)
    let opt v := match getL v with [x] => Some (getN x) | _ => None end in
    let kind n := if N.eqb n 0 then Prep.Detect.KFat else if N.eqb n 1 then Prep.Detect.KMaybe else Prep.Detect.KNot in
    match Prep.Detect.detect (opt (arg 0 a)) (opt (arg 1 a))
            (map (fun e => (getN (arg 0 e), kind (getN (arg 1 e)))) (getL (arg 2 a))) with
    | Prep.Detect.Detected b r => VL [VN b; VN r]
    | Prep.Detect.NoBoot => VN 0
    | Prep.Detect.NoRoot => VN 1
    end
  else VErr "unknown command".
