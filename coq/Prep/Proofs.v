(* Proofs about Prep/Model.v: tokenisation, first line, command-line rewrite. *)
From Coq Require Import String.
From Coq Require Import List NArith ZArith Bool Lia.
From NV Require Import Lib.Val Lib.Res Gen.Prep Prep.Model Prep.ProofsNum.
Import ListNotations.
Open Scope N_scope.

(* ------------------------------------------------------------------ specification side *)
Definition nonspace (c : N) : Prop := is_space c = false.
Definition word (w : list N) : Prop := w <> [] /\ Forall nonspace w.
Definition boundary (s : list N) : Prop :=
  match s with [] => True | c :: _ => is_space c = true end.

(* ws is the list of maximal white-space-free runs of s, in order *)
Inductive Tokens : list N -> list (list N) -> Prop :=
| Tok_nil : Tokens [] []
| Tok_space : forall c s ws, is_space c = true -> Tokens s ws -> Tokens (c :: s) ws
| Tok_word : forall w s ws, word w -> boundary s -> Tokens s ws -> Tokens (w ++ s) (w :: ws).

(* l is the first line of t: everything before the first LF, all of t without LF *)
Definition FirstLine (t l : list N) : Prop :=
  ~ In LF l /\ (t = l \/ exists r, t = l ++ LF :: r).

(* ------------------------------------------------------------------ split *)
Lemma split_aux_word : forall w cur s, Forall nonspace w ->
  split_ws_aux cur (w ++ s) = split_ws_aux (rev w ++ cur) s.
Proof.
  induction w as [|c w IH]; intros cur s H; [reflexivity|].
  pose proof (Forall_inv H) as Hc. pose proof (Forall_inv_tail H) as Hw.
  cbn [app split_ws_aux]. unfold nonspace in Hc. rewrite Hc.
  rewrite IH by assumption. cbn [rev]. rewrite <- app_assoc. reflexivity.
Qed.

Lemma split_aux_boundary : forall cur s, cur <> [] -> boundary s ->
  split_ws_aux cur s = rev cur :: split_ws_aux [] s.
Proof.
  intros cur s Hc Hb. destruct s as [|c r]; cbn [split_ws_aux].
  - destruct cur; [congruence|reflexivity].
  - unfold boundary in Hb. rewrite Hb. destruct cur; [congruence|reflexivity].
Qed.

Lemma tokens_split : forall s ws, Tokens s ws -> split_ws s = ws.
Proof.
  unfold split_ws. induction 1 as [|c s ws Hc _ IH|w s ws [Hne Hw] Hb _ IH].
  - reflexivity.
  - cbn [split_ws_aux]. rewrite Hc. exact IH.
  - rewrite split_aux_word by assumption. rewrite app_nil_r.
    rewrite split_aux_boundary; [|intro E; apply Hne; rewrite <- (rev_involutive w), E; reflexivity|assumption].
    rewrite rev_involutive, IH. reflexivity.
Qed.

Lemma split_aux_tokens : forall s cur, Forall nonspace cur ->
  Tokens (rev cur ++ s) (split_ws_aux cur s).
Proof.
  induction s as [|c r IH]; intros cur Hcur.
  - cbn [split_ws_aux]. destruct cur as [|a cur'].
    + constructor.
    + apply Tok_word; [split|exact I|constructor].
      * intro E. apply (f_equal (@length N)) in E. rewrite rev_length in E. discriminate.
      * apply Forall_rev. assumption.
  - cbn [split_ws_aux]. destruct (is_space c) eqn:Hc.
    + destruct cur as [|a cur'].
      * cbn [rev app]. apply Tok_space; [assumption|]. apply (IH []). constructor.
      * apply Tok_word.
        -- split; [intro E; apply (f_equal (@length N)) in E; rewrite rev_length in E; discriminate
                  |apply Forall_rev; assumption].
        -- exact Hc.
        -- apply Tok_space; [assumption|]. apply (IH []). constructor.
    + replace (rev cur ++ c :: r) with (rev (c :: cur) ++ r)
        by (cbn [rev]; rewrite <- app_assoc; reflexivity).
      apply IH. constructor; assumption.
Qed.

Theorem split_spec : forall s ws, Tokens s ws <-> split_ws s = ws.
Proof.
  intros s ws. split; [apply tokens_split|].
  intros <-. apply (split_aux_tokens s []). constructor.
Qed.

Lemma tokens_words : forall s ws, Tokens s ws -> Forall word ws.
Proof. induction 1; auto. Qed.

Theorem split_words_clean : forall s, Forall word (split_ws s).
Proof. intro s. apply (tokens_words s). apply split_spec. reflexivity. Qed.

Lemma filter_nonspace_id : forall w, Forall nonspace w ->
  filter (fun c => negb (is_space c)) w = w.
Proof.
  induction 1 as [|c w Hc _ IH]; [reflexivity|]. cbn [filter]. unfold nonspace in Hc.
  rewrite Hc. cbn [negb]. rewrite IH. reflexivity.
Qed.

Lemma tokens_concat : forall s ws, Tokens s ws ->
  concat ws = filter (fun c => negb (is_space c)) s.
Proof.
  induction 1 as [|c s ws Hc _ IH|w s ws [_ Hw] _ _ IH].
  - reflexivity.
  - cbn [filter]. rewrite Hc. exact IH.
  - cbn [concat]. rewrite filter_app, filter_nonspace_id, IH by assumption. reflexivity.
Qed.

Theorem split_concat : forall s,
  concat (split_ws s) = filter (fun c => negb (is_space c)) s.
Proof. intro s. apply tokens_concat. apply split_spec. reflexivity. Qed.

(* joining clean words with one space and splitting again gives the words back *)
Lemma tokens_join : forall ws, Forall word ws -> Tokens (join [SP] ws) ws.
Proof.
  induction 1 as [|w r Hw Hr IH]; [constructor|].
  cbn [join]. destruct r as [|x r'].
  - rewrite <- (app_nil_r w) at 1. apply Tok_word; [assumption|exact I|constructor].
  - apply Tok_word; [assumption|reflexivity|].
    cbn [app]. apply Tok_space; [reflexivity|exact IH].
Qed.

Lemma split_join : forall ws, Forall word ws -> split_ws (join [SP] ws) = ws.
Proof. intros ws H. apply split_spec. apply tokens_join. assumption. Qed.

(* ------------------------------------------------------------------ first line *)
Lemma first_line_unfold : forall s, first_line s = cut_first LF s.
Proof. reflexivity. Qed.

Lemma cut_first_spec : forall s, FirstLine s (cut_first LF s).
Proof.
  induction s as [|c r [IHn IHs]]; cbn [cut_first].
  - split; [intros []|left; reflexivity].
  - destruct (N.eqb_spec c LF) as [->|Hne].
    + split; [intros []|right; exists r; reflexivity].
    + split.
      * intros [E|Hin]; [congruence|auto].
      * destruct IHs as [E|[r' E]].
        -- left. congruence.
        -- right. exists r'. cbn [app]. congruence.
Qed.

Lemma cut_first_unique : forall l r, ~ In LF l ->
  cut_first LF l = l /\ cut_first LF (l ++ LF :: r) = l.
Proof.
  induction l as [|c l IH]; intros r Hn; cbn [cut_first app].
  - split; [reflexivity|]. rewrite N.eqb_refl. reflexivity.
  - destruct (N.eqb_spec c LF) as [->|Hne]; [exfalso; apply Hn; left; reflexivity|].
    destruct (IH r) as [E1 E2]; [intro; apply Hn; right; assumption|].
    rewrite E1, E2. split; reflexivity.
Qed.

Theorem first_line_spec : forall t l, first_line t = l <-> FirstLine t l.
Proof.
  intros t l. rewrite first_line_unfold. split.
  - intros <-. apply cut_first_spec.
  - intros [Hn [->|[r ->]]].
    + apply (cut_first_unique l [] Hn).
    + apply (cut_first_unique l r Hn).
Qed.

(* ------------------------------------------------------------------ universal newlines *)
Lemma univ_nl_id : forall s, ~ In CR s -> univ_nl s = s.
Proof.
  induction s as [|c r IH]; intros Hn; [reflexivity|]. cbn [univ_nl].
  destruct (N.eqb_spec c CR) as [->|_]; [exfalso; apply Hn; left; reflexivity|].
  rewrite IH; [reflexivity|]. intro; apply Hn; right; assumption.
Qed.

Lemma univ_nl_no_cr : forall n s, (length s <= n)%nat -> ~ In CR (univ_nl s).
Proof.
  induction n as [|n IH]; intros s Hl.
  - destruct s; [intros []|cbn in Hl; lia].
  - destruct s as [|c r]; [intros []|]. cbn in Hl. cbn [univ_nl].
    destruct (N.eqb_spec c CR) as [->|Hne].
    + destruct r as [|d r'].
      * intros [E|[]]. discriminate.
      * destruct (d =? LF); intros [E|Hin]; try discriminate;
          revert Hin; apply IH; cbn in *; lia.
    + intros [E|Hin]; [congruence|]. revert Hin. apply IH. lia.
Qed.

(* ------------------------------------------------------------------ templates *)
Lemma render_part_lit : forall fl t, render_part fl (0, t) = t.
Proof. reflexivity. Qed.

Definition ip_dhcp : list N := str "ip=dhcp"%string.
Definition nbdroot_param (host name : list N) : list N := str "nbdroot="%string ++ host ++ str "/"%string ++ name.
Definition root_param (n : N) : list N := str "root=/dev/nbd0p"%string ++ show_base 10 n.
Definition is_root_param (w : list N) : bool := starts_with (str "root="%string) w.

Lemma prepend_eq : forall host name n,
  map (render (mkfields host name n 0 [] 0)) cmd_prepend =
  [ip_dhcp; nbdroot_param host name; root_param n].
Proof.
  intros. unfold cmd_prepend, render. cbn [map flat_map].
  change (render_part ?fl (1, [])) with host.
  change (render_part ?fl (2, [])) with name.
  change (render_part ?fl (3, [])) with (show_base 10 n).
  rewrite !render_part_lit, !app_nil_r.
  unfold nbdroot_param, root_param. reflexivity.
Qed.

Lemma keep_param_eq : forall w, keep_param w = negb (is_root_param w).
Proof. reflexivity. Qed.

Theorem cmdline_spec : forall text host name n line ws,
  FirstLine (univ_nl text) line -> Tokens line ws ->
  rewrite_cmdline host name n text =
  join (str " "%string) ([ip_dhcp; nbdroot_param host name; root_param n] ++
                  filter (fun w => negb (is_root_param w)) ws).
Proof.
  intros text host name n line ws Hl Ht. unfold rewrite_cmdline.
  apply first_line_spec in Hl. rewrite Hl. apply split_spec in Ht. rewrite Ht.
  rewrite prepend_eq. reflexivity.
Qed.

(* totality: every text has exactly one first line and one tokenisation *)
Theorem cmdline_spec_total : forall text, exists line ws,
  FirstLine (univ_nl text) line /\ Tokens line ws /\
  (forall line' ws', FirstLine (univ_nl text) line' -> Tokens line' ws' -> line' = line /\ ws' = ws).
Proof.
  intro text. exists (first_line (univ_nl text)), (split_ws (first_line (univ_nl text))).
  split; [apply first_line_spec; reflexivity|]. split; [apply split_spec; reflexivity|].
  intros l' w' Hl Ht. apply first_line_spec in Hl. subst l'. apply split_spec in Ht. auto.
Qed.

(* the filter: nothing starting with root= survives, everything else does, order kept *)
Theorem cmdline_filter : forall ws : list (list N),
  let out := filter (fun w => negb (is_root_param w)) ws in
  (forall w, In w out <-> In w ws /\ is_root_param w = false) /\
  (forall a b pre mid post, out = pre ++ a :: mid ++ b :: post ->
     exists p m q, ws = p ++ a :: m ++ b :: q).
Proof.
  intros ws out. split.
  - intro w. unfold out. rewrite filter_In, negb_true_iff. tauto.
  - unfold out. clear out. induction ws as [|x ws IH]; intros a b pre mid post E.
    + destruct pre; discriminate.
    + cbn [filter] in E. destruct (negb (is_root_param x)).
      * destruct pre as [|y pre'].
        -- cbn [app] in E. injection E as -> E.
           assert (Hb : In b (filter (fun w => negb (is_root_param w)) ws))
             by (rewrite E; apply in_or_app; right; left; reflexivity).
           apply filter_In in Hb. destruct Hb as [Hb _].
           apply in_split in Hb. destruct Hb as [m [q ->]].
           exists [], m, q. reflexivity.
        -- cbn [app] in E. injection E as -> E.
           destruct (IH _ _ _ _ _ E) as [p [m [q ->]]]. exists (y :: p), m, q. reflexivity.
      * destruct (IH _ _ _ _ _ E) as [p [m [q ->]]]. exists (x :: p), m, q. reflexivity.
Qed.

(* ------------------------------------------------------------------ running it again *)
Lemma forallb_nonspace : forall w, forallb (fun c => negb (is_space c)) w = true -> Forall nonspace w.
Proof.
  intros w H. apply Forall_forall. intros c Hc. rewrite forallb_forall in H.
  apply negb_true_iff. auto.
Qed.

Lemma in_join : forall ws c, In c (join [SP] ws) -> c = SP \/ exists w, In w ws /\ In c w.
Proof.
  induction ws as [|w r IH]; intros c H; [destruct H|].
  cbn [join] in H. destruct r as [|x r'].
  - right. exists w. split; [left; reflexivity|assumption].
  - apply in_app_or in H. destruct H as [H|H].
    + right. exists w. split; [left; reflexivity|assumption].
    + cbn [app] in H. destruct H as [H|H]; [left; auto|].
      destruct (IH c H) as [E|[w' [A B]]]; [left; assumption|].
      right. exists w'. split; [right; assumption|assumption].
Qed.

Lemma join_clean : forall ws c, Forall word ws -> In c (join [SP] ws) -> c = SP \/ is_space c = false.
Proof.
  intros ws c Hw H. destruct (in_join ws c H) as [E|[w [A B]]]; [left; assumption|right].
  rewrite Forall_forall in Hw. destruct (Hw w A) as [_ Hn]. rewrite Forall_forall in Hn. apply Hn, B.
Qed.

Lemma filter_idem : forall (f : list N -> bool) l, filter f (filter f l) = filter f l.
Proof.
  induction l as [|x l IH]; [reflexivity|]. cbn [filter]. destruct (f x) eqn:E; [|assumption].
  cbn [filter]. rewrite E, IH. reflexivity.
Qed.

Lemma word_ip_dhcp : word ip_dhcp.
Proof. split; [discriminate|apply forallb_nonspace; reflexivity]. Qed.

Lemma word_nbdroot : forall host name, Forall nonspace host -> Forall nonspace name ->
  word (nbdroot_param host name).
Proof.
  intros host name Hh Hn. split.
  - change (nbdroot_param host name) with (110 :: (str "bdroot="%string ++ host ++ str "/"%string ++ name)).
    discriminate.
  - unfold nbdroot_param. repeat (apply Forall_app; split); try assumption;
      apply forallb_nonspace; reflexivity.
Qed.

Lemma word_root : forall n, word (root_param n).
Proof.
  intro n. split.
  - change (root_param n) with (114 :: (str "oot=/dev/nbd0p"%string ++ show_base 10 n)). discriminate.
  - unfold root_param. apply Forall_app. split; [apply forallb_nonspace; reflexivity|].
    apply show_base_nonspace. lia.
Qed.

Lemma keep_ip : keep_param ip_dhcp = true. Proof. reflexivity. Qed.
Lemma keep_nbdroot : forall h s, keep_param (nbdroot_param h s) = true. Proof. reflexivity. Qed.
Lemma keep_root : forall n, keep_param (root_param n) = false. Proof. reflexivity. Qed.

Theorem cmdline_reapply : forall text host name n,
  Forall nonspace host -> Forall nonspace name ->
  exists rest,
    rewrite_cmdline host name n text =
      join (str " "%string) ([ip_dhcp; nbdroot_param host name; root_param n] ++ rest) /\
    rewrite_cmdline host name n (rewrite_cmdline host name n text) =
      join (str " "%string) ([ip_dhcp; nbdroot_param host name; root_param n] ++
                             [ip_dhcp; nbdroot_param host name] ++ rest).
Proof.
  intros text host name n Hh Hn.
  set (rest := filter keep_param (split_ws (first_line (univ_nl text)))).
  exists rest.
  assert (E1 : rewrite_cmdline host name n text =
               join [SP] ([ip_dhcp; nbdroot_param host name; root_param n] ++ rest)).
  { unfold rewrite_cmdline. rewrite prepend_eq. reflexivity. }
  split; [exact E1|]. rewrite E1.
  set (P := [ip_dhcp; nbdroot_param host name; root_param n]).
  assert (Hw : Forall word (P ++ rest)).
  { apply Forall_app. split.
    - apply Forall_cons; [apply word_ip_dhcp|].
      apply Forall_cons; [apply word_nbdroot; assumption|].
      apply Forall_cons; [apply word_root|apply Forall_nil].
    - apply Forall_forall. intros w Hin. apply filter_In in Hin. destruct Hin as [Hin _].
      pose proof (split_words_clean (first_line (univ_nl text))) as Hc.
      rewrite Forall_forall in Hc. auto. }
  assert (Hcr : ~ In CR (join [SP] (P ++ rest))).
  { intro H. destruct (join_clean _ _ Hw H); discriminate. }
  assert (Hlf : ~ In LF (join [SP] (P ++ rest))).
  { intro H. destruct (join_clean _ _ Hw H); discriminate. }
  unfold rewrite_cmdline at 1. rewrite prepend_eq.
  rewrite (univ_nl_id _ Hcr).
  rewrite first_line_unfold, (proj1 (cut_first_unique _ [] Hlf)).
  rewrite (split_join _ Hw). rewrite filter_app.
  unfold P. cbn [filter]. rewrite keep_ip, keep_nbdroot, keep_root.
  unfold rest. rewrite filter_idem. reflexivity.
Qed.

(* ... and therefore the rewrite is not idempotent: a second run repeats two parameters *)
Theorem cmdline_not_idempotent : exists text host name n,
  rewrite_cmdline host name n (rewrite_cmdline host name n text) <> rewrite_cmdline host name n text.
Proof.
  exists (str "quiet"%string), (str "h"%string), (str "s"%string), 2.
  intro E. vm_compute in E. discriminate E.
Qed.
