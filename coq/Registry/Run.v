From Coq Require Import List NArith String Bool.
From NV Require Import Lib.Val Lib.Res Lib.Wire Gen.Registry Registry.Model.
Import ListNotations.
Open Scope string_scope.

Definition ph_code (p : sphase) : N :=
  match p with
  | NotStarted => 0 | SClear => 1 | STest => 2 | SPoll => 3 | SHandle => 4
  | SSelfReq => 5 | SSelfWait => 6 | SFin1 => 7 | SFin2 => 8 | SExit => 9 | Returned => 10
  end%N.
Definition rm_val (r : rm) : list val :=
  match r with
  | RmShut s => [VN 0; VNat s] | RmWait s => [VN 1; VNat s]
  | RmJoin s => [VN 2; VNat s] | RmClose s => [VN 3; VNat s]
  end.
Definition lp_val (p : lpc) : val :=
  VL match p with
     | L_idle => [VN 0] | L_lock => [VN 1] | L_pop => [VN 2] | L_rm r => VN 3 :: rm_val r
     | L_store => [VN 4] | L_rel => [VN 5] | L_start => [VN 6] | L_cset => [VN 7]
     | L_cjoin => [VN 8] | L_end => [VN 9]
     end.
Definition rp_val (p : rpc) : val :=
  VL match p with
     | R_wait => [VN 0] | R_lock => [VN 1] | R_iter => [VN 2]
     | R_scan i acc => [VN 3; VNat i; VL (map VNat acc)]
     | R_pick acc => [VN 4; VL (map VNat acc)]
     | R_rm r rest => VN 5 :: rm_val r ++ [VL (map VNat rest)]
     | R_rel => [VN 6] | R_dlock => [VN 7] | R_dtest => [VN 8] | R_dnext => [VN 9]
     | R_dpop t => [VN 10; VNat t] | R_drm r => VN 11 :: rm_val r
     | R_drel => [VN 12] | R_end => [VN 13] | R_dead => [VN 14]
     end.

(* event: [kind; args...]  (see harness/registry_corr.py) *)
Definition act_val (a : act) : val :=
  VL match a with
     | ACall t => [VN 0; VNat t] | AAcq => [VN 1] | ARel => [VN 2]
     | APop t f => [VN 3; VNat t; VB f] | AStore t s => [VN 4; VNat t; VNat s]
     | AIter => [VN 5] | ARead s d => [VN 6; VNat s; VB d] | ALen n => [VN 7; VNat n]
     | ANext t => [VN 8; VNat t]
     | AShutReq s => [VN 9; VNat s] | AShutWait s => [VN 10; VNat s]
     | AJoin s => [VN 11; VNat s] | AClose s => [VN 12; VNat s] | AStart s => [VN 13; VNat s]
     | ADoneSet => [VN 14] | ADoneWait b => [VN 15; VB b] | AJoinReaper => [VN 16]
     | ASub p b => [VN 17; VN (ph_code p); VB b] | ARaise => [VN 18]
     end.

Fixpoint trace (sd : bool) (st : state) (sch : list val) : list val * state :=
  match sch with
  | [] => ([], st)
  | e :: rest =>
    let i := getNat (arg 0 e) in
    let c := getNat (arg 1 e) in
    match tstep sd st i c with
    | Next st' a => let (es, s) := trace sd st' rest in (act_val a :: es, s)
    | Blocked => let (es, s) := trace sd st rest in (VL [VN 20] :: es, s)
    | TimedOut => let (es, s) := trace sd st rest in (VL [VN 21] :: es, s)
    | Stop => let (es, s) := trace sd st rest in (VL [VN 22] :: es, s)
    end
  end.

Definition sub_val (x : sub) : val :=
  VL [VN (ph_code (sph x)); VB (sdone x); VB (sreq x); VB (sevt x); VB (sclosed x)].
Definition state_val (sd : bool) (st : state) : val :=
  VL [VOpt VNat (lockh st);
      VL (map (fun e => VL [VNat (fst e); VNat (snd e)]) (alive st));
      VL (map sub_val (subs st)); VB (devt st); lp_val (lp st); rp_val (rp st); VNat (nadd st);
      VB (stuckb sd st); VB (terminatedb st)].

Definition run_cmd (sd : bool) (a : val) : val :=
  let adds := map getNat (getL (arg 0 a)) in
  let (es, s) := trace sd (init adds (getB (arg 1 a))) (getL (arg 2 a)) in
  VL [VL es; state_val sd s].

Definition dispatch (cmd : string) (a : val) : val :=
  if String.eqb cmd "run" then run_cmd (negb no_self_shutdown) a
  else if String.eqb cmd "run_selfsd" then run_cmd true a
  else if String.eqb cmd "facts" then
    VL [VB registry_source_facts; VB no_self_shutdown; VB alive_only_in_lock_blocks;
        VB remove_only_in_lock_blocks; VB registry_entry_points_ok;
        VB (digests_eqb registry_digests expected_digests);
        VN sub_poll_interval_ms; VN reaper_wait_ms; VN remove_join_timeout_s; VN close_join_timeout_s]
  else VErr "unknown command".
