(* Fair schedules and the generic progress argument.

   A schedule is a list of (thread, choice).  A ROUND for n threads is a piece of
   schedule in which every thread id < n occurs at least once (any order, any
   number of extra turns); [rounds n k sch] says that sch begins with k
   consecutive rounds.  An entry whose thread has no transition at that moment is
   skipped, so within a round a thread that is enabled whenever its turn comes
   does take a step: this is weak fairness, made finite.  Join time-outs are not
   transitions of the model, so a run never contains one (timeliness). *)
From Coq Require Import List Arith Bool Lia.
From NV Require Import Gen.Registry Registry.Model.
Import ListNotations.

Definition sched := list (nat * nat).
Definition covers (n : nat) (r : sched) : Prop := forall i, i < n -> In i (map fst r).
Inductive rounds (n : nat) : nat -> sched -> Prop :=
| rounds_0 : forall s, rounds n 0 s
| rounds_S : forall k r s, covers n r -> rounds n k s -> rounds n (S k) (r ++ s).

Lemma runP_app : forall sd a b st, runP sd st (a ++ b) = runP sd (runP sd st a) b.
Proof.
  induction a as [|[i c] a IH]; intros b st; simpl; [reflexivity|].
  destruct (stepP sd st i c) as [[st' x]|]; apply IH.
Qed.

Section Progress.
  Variable P : state -> Prop.            (* invariant context *)
  Variable g : state -> bool.            (* goal *)
  Variable phi : state -> nat.           (* measure *)
  Variable good : nat -> state -> Prop.  (* helpful threads *)
  Variable n : nat.                      (* number of threads *)

  Hypothesis P_step : forall st i c st' a, P st -> g st = false ->
    stepP false st i c = Some (st', a) -> P st'.
  (* a step never increases the measure; when it leaves it unchanged the helpful threads stay helpful *)
  Hypothesis phi_step : forall st i c st' a, P st -> g st = false ->
    stepP false st i c = Some (st', a) ->
    g st' = true \/ phi st' < phi st \/ (phi st' = phi st /\ forall j, good j st -> good j st').
  Hypothesis good_ex : forall st, P st -> g st = false -> exists j, j < n /\ good j st.
  (* a helpful thread is enabled whatever the choice, and its step decreases the measure *)
  Hypothesis good_en : forall st j c, P st -> g st = false -> good j st ->
    exists st' a, stepP false st j c = Some (st', a).
  Hypothesis good_dec : forall st j c st' a, P st -> g st = false -> good j st ->
    stepP false st j c = Some (st', a) -> g st' = true \/ phi st' < phi st.

  Definition hit (st : state) (sch : sched) : Prop :=
    exists pre suf, sch = pre ++ suf /\ g (runP false st pre) = true.

  Lemma hit_cons : forall st i c sch,
    hit (match stepP false st i c with Some (st', _) => st' | None => st end) sch ->
    hit st ((i, c) :: sch).
  Proof.
    intros st i c sch (pre & suf & E & H). exists ((i, c) :: pre), suf. split.
    - simpl. rewrite E. reflexivity.
    - simpl. destruct (stepP false st i c) as [[st' x]|]; exact H.
  Qed.
  Lemma hit_now : forall st sch, g st = true -> hit st sch.
  Proof. intros st sch H. exists [], sch. split; [reflexivity|exact H]. Qed.
  Lemma hit_app : forall st a b, hit st a -> hit st (a ++ b).
  Proof.
    intros st a b (pre & suf & E & H). exists pre, (suf ++ b). split; [|exact H].
    rewrite E, app_assoc. reflexivity.
  Qed.
  Lemma hit_app_r : forall a st b, hit (runP false st a) b -> hit st (a ++ b).
  Proof.
    intros a st b (pre & suf & E & H). exists (a ++ pre), suf. split.
    - rewrite E, app_assoc. reflexivity.
    - rewrite runP_app. exact H.
  Qed.

  (* the measure never grows along a run (until the goal is hit) *)
  Lemma phi_mono : forall sch st, P st ->
    hit st sch \/ (phi (runP false st sch) <= phi st /\ P (runP false st sch)).
  Proof.
    induction sch as [|[i c] sch IH]; intros st HP; simpl; [right; split; [lia|exact HP]|].
    destruct (g st) eqn:Eg; [left; apply hit_now; exact Eg|].
    destruct (stepP false st i c) as [[st' x]|] eqn:E.
    - assert (HP' : P st') by (eapply P_step; eauto).
      destruct (IH st' HP') as [H|[H H']].
      + left. apply hit_cons. rewrite E. exact H.
      + destruct (phi_step _ _ _ _ _ HP Eg E) as [G|[D|[D _]]].
        * left. apply hit_cons. rewrite E. apply hit_now. exact G.
        * right. split; [lia|exact H'].
        * right. split; [lia|exact H'].
    - destruct (IH st HP) as [H|H]; [|right; exact H].
      left. apply hit_cons. rewrite E. exact H.
  Qed.

  (* one round in which a helpful thread gets a turn decreases the measure *)
  Lemma round_dec : forall r st j, P st -> g st = false -> good j st -> In j (map fst r) ->
    hit st r \/ (phi (runP false st r) < phi st /\ P (runP false st r)).
  Proof.
    induction r as [|[i c] r IH]; intros st j HP Eg Hg Hin; [contradiction|].
    simpl in Hin. simpl.
    destruct (stepP false st i c) as [[st' x]|] eqn:E.
    - assert (HP' : P st') by (eapply P_step; eauto).
      assert (Dec : g st' = true \/ phi st' < phi st ->
                    hit st ((i, c) :: r) \/ (phi (runP false st' r) < phi st /\ P (runP false st' r))).
      { intros [G|D].
        - left. apply hit_cons. rewrite E. apply hit_now. exact G.
        - destruct (phi_mono r st' HP') as [H|[H H']].
          + left. apply hit_cons. rewrite E. exact H.
          + right. split; [lia|exact H']. }
      destruct (Nat.eq_dec i j) as [Eij|Nij].
      + subst i. apply Dec. eapply good_dec; eauto.
      + destruct (phi_step _ _ _ _ _ HP Eg E) as [G|[D|[D Hgood]]].
        * apply Dec. left. exact G.
        * apply Dec. right. exact D.
        * destruct (g st') eqn:Eg'; [apply Dec; left; reflexivity|].
          destruct Hin as [Hin|Hin]; [congruence|].
          destruct (IH st' j HP' Eg' (Hgood j Hg) Hin) as [H|[H H']].
          -- left. apply hit_cons. rewrite E. exact H.
          -- right. split; [lia|exact H'].
    - destruct (Nat.eq_dec i j) as [Eij|Nij].
      + subst i. destruct (good_en st j c HP Eg Hg) as (st' & a & E'). congruence.
      + destruct Hin as [Hin|Hin]; [congruence|].
        destruct (IH st j HP Eg Hg Hin) as [H|H]; [|right; exact H].
        left. apply hit_cons. rewrite E. exact H.
  Qed.

  Theorem eventually : forall k sch st, rounds n k sch -> P st -> phi st < k -> hit st sch.
  Proof.
    induction k as [|k IH]; intros sch st Hr HP Hk; [lia|].
    inversion Hr as [|k' r s Hc Hr']; subst.
    destruct (g st) eqn:Eg; [apply hit_now; exact Eg|].
    destruct (good_ex st HP Eg) as (j & Hj & Hg).
    destruct (round_dec r st j HP Eg Hg (Hc j Hj)) as [H|H].
    - apply hit_app. exact H.
    - destruct H as [H H']. apply hit_app_r. apply IH; [exact Hr'|exact H'|lia].
  Qed.
End Progress.
