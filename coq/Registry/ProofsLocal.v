(* Local facts: the step-explosion tactic, what one _remove step / one sub-server
   step does to the flags of its sub-server, and preservation of the lock and
   listener parts of the invariant. *)
From Coq Require Import List Arith Bool Lia.
From NV Require Import Gen.Registry Registry.Model Registry.Inv.
Import ListNotations.

Ltac inv_step H :=
  unfold tstep in H;
  match type of H with (match ?i with _ => _ end) = _ => destruct i as [|[|k]] end;
  [unfold lstep in H | unfold rstep in H | ];
  repeat (match type of H with
          | context [match ?x with _ => _ end] => destruct x eqn:?
          end; try discriminate H);
  inversion H; subst; clear H.
Ltac ssimpl :=
  cbn [lockh alive subs devt lp ladds lclose nadd rp
       set_lock set_alive set_subs set_devt set_lp set_rp set_sub] in *.
Ltac rw_pcs :=
  repeat match goal with
         | E : rp ?s = _ |- context [rp ?s] => rewrite E
         | E : lp ?s = _ |- context [lp ?s] => rewrite E
         | E : ladds ?s = _ |- context [ladds ?s] => rewrite E
         | E : alive ?s = _ |- context [alive ?s] => rewrite E
         end.

Lemma rholds_after_pick : forall l, rholds (after_pick l) = true.
Proof. destruct l; reflexivity. Qed.
Lemma lholds_next_lp : forall l b, lholds (next_lp l b) = false.
Proof. destruct l, b; reflexivity. Qed.
Lemma born_next_lp : forall l b, match next_lp l b with L_rel | L_start => 1 | _ => 0 end = 0.
Proof. destruct l, b; reflexivity. Qed.
Lemma lookup_remove_same : forall tid a, lookup tid (remove_tid tid a) = None.
Proof.
  intros. apply lookup_None. intros C. apply in_map_iff in C. destruct C as (e & E & C).
  apply In_remove_tid in C. tauto.
Qed.
Lemma store_new : forall tid s a, lookup tid a = None -> store tid s a = a ++ [(tid, s)].
Proof. intros. unfold store. rewrite H. reflexivity. Qed.
Lemma upd_same : forall {A} (l : list A) i x, nth_error l i = Some x -> upd l i x = l.
Proof. induction l; intros [|i] x H; simpl in *; try discriminate; try congruence. f_equal. auto. Qed.

Lemma rm_step_spec : forall ss r c ss' k a, rm_step ss r c = RmNext ss' k a ->
  exists x x', nth_error ss (rm_tgt r) = Some x /\ ss' = upd ss (rm_tgt r) x' /\
    forall started, sub_okb (Tgt r) started x = true ->
      match k with
      | Some r' => rm_tgt r' = rm_tgt r /\ sub_okb (Tgt r') started x' = true
      | None => sub_okb Reaped started x' = true
      end.
Proof.
  intros ss r c ss' k a H. destruct r as [s|s|s|s]; simpl in *;
    destruct (nth_error ss s) as [x|] eqn:E; try discriminate.
  - inversion H; subst. eexists _, _. split; [reflexivity|]. split; [reflexivity|].
    intros started Hk. split; [reflexivity|]. destruct x as [p d q e cl]; simpl in *.
    destruct p, started, q, e, cl; simpl in *; try discriminate; reflexivity.
  - destruct (sevt x) eqn:Ev; [|discriminate]. inversion H; subst.
    exists x, x. split; [reflexivity|]. split; [symmetry; apply upd_same; exact E|].
    intros started Hk. split; [reflexivity|]. destruct x as [p d q e cl]; simpl in *. subst e.
    destruct p, started, q, cl; simpl in *; try discriminate; reflexivity.
  - destruct (sph x) eqn:Ep; try (destruct c; discriminate). inversion H; subst.
    exists x, x. split; [reflexivity|]. split; [symmetry; apply upd_same; exact E|].
    intros started Hk. split; [reflexivity|]. destruct x as [p d q e cl]; simpl in *. subst p.
    destruct started, q, e, cl; simpl in *; try discriminate; reflexivity.
  - inversion H; subst. eexists _, _. split; [reflexivity|]. split; [reflexivity|].
    intros started Hk. destruct x as [p d q e cl]; simpl in *.
    destruct p, started, q, e, cl; simpl in *; try discriminate; reflexivity.
Qed.

Lemma rm_step_length : forall ss r c ss' k a, rm_step ss r c = RmNext ss' k a ->
  length ss' = length ss.
Proof.
  intros ss r c ss' k a H. destruct (rm_step_spec _ _ _ _ _ _ H) as (x & x' & _ & E & _).
  subst. apply upd_length.
Qed.

Lemma sstep_ok : forall g started x c x' a, sub_okb g started x = true ->
  sstep false x c = SubNext x' a -> sub_okb g started x' = true.
Proof.
  intros g started x c x' a Hk H. destruct x as [p d q e cl]. unfold sstep in H. simpl in H.
  destruct p; simpl in *; try discriminate;
    try (destruct c as [|[|c]]); try (destruct q); try (destruct e); inversion H; subst; clear H;
    destruct g as [| |[s|s|s|s]|], started, cl, d; simpl in *; try discriminate; try reflexivity.
Qed.

Lemma step_lock : forall st i c st' a, Inv st -> tstep false st i c = Next st' a ->
  lockh st' = lock_of st' /\ (lholds (lp st') = true -> rholds (rp st') = false).
Proof.
  intros st i c st' a HI H.
  pose proof (I_lock _ HI) as HL. pose proof (I_excl _ HI) as HX.
  unfold lock_of in *.
  inv_step H.
  all: simpl; rewrite ?rholds_after_pick, ?lholds_next_lp.
  all: try (destruct (rholds (rp st)); simpl in *; split; intros; congruence).
  all: try (destruct (lholds (lp st)); simpl in *; split; intros; try congruence;
            try (specialize (HX eq_refl); congruence)).
  all: try (destruct k0; simpl; destruct (rholds (rp st)); simpl in *; split; intros; congruence).
  all: try (destruct k0; simpl; rewrite ?rholds_after_pick; destruct (lholds (lp st));
            simpl in *; split; intros; try congruence; try (specialize (HX eq_refl); congruence)).
  all: try (try specialize (HX eq_refl); destruct (rholds (rp st)); simpl in *; try split;
            intros; congruence).
  all: try (rw_pcs; simpl; auto).
Qed.

Lemma step_lp : forall st i c st' a, Inv st -> tstep false st i c = Next st' a -> lp_ok st'.
Proof.
  intros st i c st' a HI H.
  pose proof (I_lp _ HI) as HL. pose proof (I_excl _ HI) as HX. pose proof (I_rp _ HI) as HR.
  unfold lp_ok, rp_ok, rp_okp in *.
  inv_step H; simpl in *; rw_pcs.
  all: try (intuition (auto; congruence)).
  all: try (destruct (lp st) eqn:Elp; simpl in *; try (specialize (HX eq_refl); discriminate);
            destruct (lclose st); intuition (auto; congruence)).
  all: try (rewrite lookup_remove_same; tauto).
  all: try (destruct (ladds st) as [|t [|t2 r]] eqn:E; simpl in *; destruct (lclose st); simpl;
            intuition (auto; congruence)).
Qed.
