(* Safety: the dictionary is touched only under the lock, add never overwrites a
   live entry, close drains everything, and no reachable state is a deadlock. *)
From Coq Require Import List Arith Bool Lia.
From NV Require Import Gen.Registry Registry.Model Registry.Inv Registry.ProofsLocal Registry.ProofsInv
  Registry.Measure.
Import ListNotations.

(* ---------------------------------------------------------------- the lock *)
Lemma dict_under_lock : forall st i c st' a, Inv st -> tstep false st i c = Next st' a ->
  (dict_act a = true -> lockh st = Some i) /\ (dict_act a = false -> alive st' = alive st).
Proof.
  intros st i c st' a HI H.
  pose proof (I_lock _ HI) as HL. pose proof (I_excl _ HI) as HX. unfold lock_of in HL.
  inv_step H; ssimpl.
  all: try (split; [intros D; try discriminate D|intros D; try discriminate D; try reflexivity]).
  all: try (rewrite HL; simpl; reflexivity).
  all: try (rewrite HL; destruct (lholds (lp st)); simpl in *;
            [specialize (HX eq_refl); discriminate|reflexivity]).
  all: try (match goal with E : rm_step _ ?r _ = RmNext _ _ ?a |- _ =>
              destruct r; simpl in E;
              repeat (match type of E with context [match ?x with _ => _ end] => destruct x end;
                      try discriminate E);
              inversion E; subst; simpl in *; discriminate end).
  all: try assumption.
  all: try (match goal with E : sstep _ _ _ = SubNext _ ?a |- _ =>
              unfold sstep in E;
              repeat (match type of E with context [match ?x with _ => _ end] => destruct x end;
                      try discriminate E);
              inversion E; subst; simpl in *; discriminate end).
Qed.

(* ---------------------------------------------------------------- add replaces *)
Lemma okb_reaped : forall b x, sub_okb Reaped b x = true -> sph x = Returned /\ sclosed x = true.
Proof.
  intros b [p d q e cl] H. unfold sub_okb in H. apply andb_true_iff in H. destruct H as [_ H].
  simpl in *. destruct p, cl; simpl in H; try discriminate. auto.
Qed.

Lemma store_is_fresh : forall st c st' tid s, Inv st -> tstep false st 0 c = Next st' (AStore tid s) ->
  lookup tid (alive st) = None /\ alive st' = alive st ++ [(tid, s)] /\ s = nadd st /\
  forall u x, u < born st -> nth_error (subs st) u = Some x -> ~ In u (map snd (alive st)) ->
              sph x = Returned /\ sclosed x = true.
Proof.
  intros st c st' tid s HI H. pose proof (I_lp _ HI) as HL. pose proof (I_excl _ HI) as HX.
  pose proof (I_subs _ HI) as HS. unfold lp_ok in HL.
  simpl in H. unfold lstep in H.
  destruct (lp st) eqn:Elp; try discriminate;
    repeat (match type of H with context [match ?x with _ => _ end] => destruct x eqn:? end;
            try discriminate H).
  all: try (inversion H; fail).
  all: try (match goal with E : rm_step _ _ _ = RmNext _ _ _ |- _ =>
      destruct r; simpl in E;
      repeat (match type of E with context [match ?x with _ => _ end] => destruct x end;
              try discriminate E); inversion E; subst end; discriminate).
  inversion H; subst. destruct HL as (Ha & Hd & Hk). ssimpl.
    split; [exact Hk|]. split; [apply store_new; exact Hk|]. split; [reflexivity|].
    intros u x Hu Hx Hn. specialize (HS u x Hx). unfold stage_of, rm_of in HS. rewrite Elp in HS.
    assert (Hrp : match rp st with R_rm r _ | R_drm r => Some r | _ => None end = None).
    { destruct (rp st); simpl in *; try (specialize (HX eq_refl); discriminate); reflexivity. }
    rewrite Hrp, stage_reaped in HS by assumption.
    eapply okb_reaped; eauto.
Qed.

(* the listener reaches the store from inside _remove only through the close step
   of a sub-server whose thread has returned *)
Lemma remove_completes_before_store : forall st c st' a r, Inv st -> lp st = L_rm r ->
  tstep false st 0 c = Next st' a ->
  match lp st' with
  | L_rm r' => rm_tgt r' = rm_tgt r
  | L_store => exists x, r = RmClose (rm_tgt r) /\ nth_error (subs st') (rm_tgt r) = Some x /\
                         sph x = Returned /\ sclosed x = true
  | _ => False
  end.
Proof.
  intros st c st' a r HI Elp H. pose proof (I_subs _ HI) as HS. pose proof (I_tgt _ HI) as HT.
  simpl in H. unfold lstep in H. rewrite Elp in H.
  destruct (rm_step (subs st) r c) as [ss k a0| |] eqn:E; try discriminate.
  inversion H; subst. ssimpl. destruct k as [r'|].
  - eapply rm_step_tgt; eauto.
  - assert (Hro : rm_of st = Some r) by (unfold rm_of; rewrite Elp; reflexivity).
    destruct (HT _ Hro) as [Hb Hn].
    destruct r as [s|s|s|s]; simpl in E; destruct (nth_error (subs st) s) as [x|] eqn:Ex;
      try discriminate; try (destruct (sevt x); discriminate);
      try (destruct (sph x); try destruct c; discriminate).
    inversion E; subst. simpl.
    eexists. split; [reflexivity|]. split.
    + apply nth_upd_same. apply nth_error_Some. congruence.
    + specialize (HS _ _ Ex). unfold stage_of in HS. rewrite Hro in HS.
      change s with (rm_tgt (RmClose s)) in HS at 1 2. rewrite stage_tgt in HS by assumption.
      unfold sub_okb in HS. apply andb_true_iff in HS. destruct HS as [_ HS].
      destruct x as [p d q e cl]; simpl in *.
      destruct p, cl; simpl in HS; try discriminate. split; reflexivity.
Qed.

(* ---------------------------------------------------------------- close drains *)
Lemma born_le_len : forall st, Inv st -> born st <= length (subs st).
Proof.
  intros st HI. pose proof (I_len _ HI) as HN. pose proof (I_lp _ HI) as HL.
  unfold born, lp_ok in *. destruct (lp st); try lia; destruct HL as [Ha _];
    destruct (ladds st); simpl in *; try congruence; lia.
Qed.

Lemma reaped_when_quiet : forall st u x, Inv st -> rm_of st = None -> u < born st ->
  ~ In u (map snd (alive st)) -> nth_error (subs st) u = Some x ->
  sph x = Returned /\ sclosed x = true.
Proof.
  intros st u x HI Hr Hu Hn Hx. pose proof (I_subs _ HI _ _ Hx) as HS.
  unfold stage_of in HS. rewrite Hr, stage_reaped in HS by assumption.
  eapply okb_reaped; eauto.
Qed.

Lemma closed_drained : forall st, Inv st -> lp st = L_end -> lclose st = true ->
  rp st = R_end /\ alive st = [] /\ nadd st = length (subs st) /\
  forall x, In x (subs st) -> sph x = Returned /\ sclosed x = true.
Proof.
  intros st HI Elp Hc. pose proof (I_lp _ HI) as HL. pose proof (I_rp _ HI) as HR.
  pose proof (I_len _ HI) as HN.
  unfold lp_ok in HL. rewrite Elp, Hc in HL. destruct HL as (Ha & Hd & Hr).
  unfold rp_ok in HR. rewrite Hr in HR. simpl in HR. destruct HR as [_ He].
  rewrite Ha in HN. simpl in HN.
  repeat split; try assumption; try lia.
  - destruct (In_nth_error _ _ H) as (u & Hu).
    eapply (reaped_when_quiet st u x HI); eauto.
    + unfold rm_of. rewrite Elp, Hr. reflexivity.
    + unfold born. rewrite Elp. assert (u < length (subs st)) by (apply nth_error_Some; congruence). lia.
    + rewrite He. simpl. tauto.
  - destruct (In_nth_error _ _ H) as (u & Hu).
    eapply (reaped_when_quiet st u x HI); eauto.
    + unfold rm_of. rewrite Elp, Hr. reflexivity.
    + unfold born. rewrite Elp. assert (u < length (subs st)) by (apply nth_error_Some; congruence). lia.
    + rewrite He. simpl. tauto.
Qed.

(* ---------------------------------------------------------------- no deadlock *)
Definition en (st : state) (i : nat) : Prop := exists st' a, tstep false st i 0 = Next st' a.

(* helpful threads: the listener or the reaper when enabled; a sub-server thread
   that is enabled and not merely going round its poll loop *)
Definition good (j : nat) (st : state) : Prop :=
  match j with
  | S (S t) => exists x, nth_error (subs st) t = Some x /\ neutral x = false /\
                         exists x' a, sstep false x 0 = SubNext x' a
  | _ => en st j
  end.
Lemma good_en0 : forall j st, good j st -> en st j.
Proof.
  intros [|[|t]] st H; try exact H. destruct H as (x & Hx & _ & x' & a & H).
  unfold en. simpl. rewrite Hx, H. eauto.
Qed.
Lemma good_sub : forall st s x, nth_error (subs st) s = Some x -> neutral x = false ->
  (exists x' a, sstep false x 0 = SubNext x' a) -> good (S (S s)) st.
Proof. intros st s x Hx Hn H. exists x. auto. Qed.

Lemma tgt_nth : forall st r, Inv st -> rm_of st = Some r ->
  exists x, nth_error (subs st) (rm_tgt r) = Some x /\
            sub_okb (Tgt r) (Nat.ltb (rm_tgt r) (nadd st)) x = true /\ rm_tgt r < born st.
Proof.
  intros st r HI Hr. destruct (I_tgt _ HI _ Hr) as [Hb Hn].
  pose proof (born_le_len _ HI) as Hl.
  destruct (nth_error (subs st) (rm_tgt r)) as [x|] eqn:Ex.
  - exists x. split; [reflexivity|]. split; [|exact Hb].
    pose proof (I_subs _ HI _ _ Ex) as HS. unfold stage_of in HS.
    rewrite Hr, stage_tgt in HS by assumption. exact HS.
  - apply nth_error_None in Ex. lia.
Qed.

(* whoever waits inside _remove waits for a thread that can move (or that the
   listener is about to start) *)
Lemma awaited_moves : forall st r, Inv st -> rm_of st = Some r ->
  (forall ss k a, rm_step (subs st) r 0 <> RmNext ss k a) -> en st 0 \/ good (S (S (rm_tgt r))) st.
Proof.
  intros st r HI Hr Hblk. destruct (tgt_nth _ _ HI Hr) as (x & Hx & Hk & Hb).
  pose proof (I_len _ HI) as HN. pose proof (I_lp _ HI) as HL.
  unfold sub_okb in Hk. apply andb_true_iff in Hk. destruct Hk as [Hs Hk].
  destruct r as [s|s|s|s]; simpl in *; rewrite Hx in Hblk.
  - exfalso. eapply Hblk. reflexivity.
  - destruct (sevt x) eqn:Ev; [exfalso; eapply Hblk; reflexivity|].
    destruct (sph x) eqn:Ep; simpl in Hk; rewrite ?andb_false_r in Hk; try discriminate.
    + (* not started yet: the listener is between the store and thread.start() *)
      left. simpl in Hs. destruct (Nat.ltb s (nadd st)) eqn:Es; [discriminate|].
      apply Nat.ltb_ge in Es. unfold born in Hb. unfold en. simpl. unfold lstep.
      destruct (lp st) eqn:Elp; try lia.
      * eauto.
      * assert (s = nadd st) by lia. subst s. rewrite Hx. eauto.
    + right. eapply good_sub; [exact Hx| |unfold sstep; rewrite Ep; eauto].
      unfold neutral. rewrite Ep. try reflexivity;
      try (apply andb_true_iff in Hk; destruct Hk as [_ Hk]; apply andb_true_iff in Hk;
           destruct Hk as [Hq _]; rewrite Hq; reflexivity).
    + right. eapply good_sub; [exact Hx| |unfold sstep; rewrite Ep; eauto].
      unfold neutral. rewrite Ep. try reflexivity;
      try (apply andb_true_iff in Hk; destruct Hk as [_ Hk]; apply andb_true_iff in Hk;
           destruct Hk as [Hq _]; rewrite Hq; reflexivity).
    + right. eapply good_sub; [exact Hx| |unfold sstep; rewrite Ep; eauto].
      unfold neutral. rewrite Ep. try reflexivity;
      try (apply andb_true_iff in Hk; destruct Hk as [_ Hk]; apply andb_true_iff in Hk;
           destruct Hk as [Hq _]; rewrite Hq; reflexivity).
    + right. eapply good_sub; [exact Hx| |unfold sstep; rewrite Ep; eauto].
      unfold neutral. rewrite Ep. try reflexivity;
      try (apply andb_true_iff in Hk; destruct Hk as [_ Hk]; apply andb_true_iff in Hk;
           destruct Hk as [Hq _]; rewrite Hq; reflexivity).
    + right. eapply good_sub; [exact Hx| |unfold sstep; rewrite Ep; eauto].
      unfold neutral. rewrite Ep. try reflexivity;
      try (apply andb_true_iff in Hk; destruct Hk as [_ Hk]; apply andb_true_iff in Hk;
           destruct Hk as [Hq _]; rewrite Hq; reflexivity).
    + right. eapply good_sub; [exact Hx| |unfold sstep; rewrite Ep; eauto].
      unfold neutral. rewrite Ep. try reflexivity;
      try (apply andb_true_iff in Hk; destruct Hk as [_ Hk]; apply andb_true_iff in Hk;
           destruct Hk as [Hq _]; rewrite Hq; reflexivity).
  - destruct (sph x) eqn:Ep; simpl in Hk; rewrite ?andb_false_r in Hk; try discriminate.
    + right. eapply good_sub; [exact Hx| |unfold sstep; rewrite Ep; eauto].
      unfold neutral. rewrite Ep. try reflexivity;
      try (apply andb_true_iff in Hk; destruct Hk as [_ Hk]; apply andb_true_iff in Hk;
           destruct Hk as [Hq _]; rewrite Hq; reflexivity).
    + exfalso. eapply Hblk. reflexivity.
  - exfalso. eapply Hblk. reflexivity.
Qed.

Lemma rm_dich : forall ss r, (exists ss' k a, rm_step ss r 0 = RmNext ss' k a) \/
  (forall ss' k a, rm_step ss r 0 <> RmNext ss' k a).
Proof.
  intros ss r. destruct (rm_step ss r 0) eqn:E; [left; eauto|right; discriminate|right; discriminate].
Qed.

Lemma holder_or_awaited : forall st r i, Inv st -> rm_of st = Some r ->
  (forall ss' k a, rm_step (subs st) r 0 = RmNext ss' k a -> en st i) -> i < 2 ->
  exists j, j < nthreads st /\ good j st.
Proof.
  intros st r i HI Hr Hen Hi. destruct (rm_dich (subs st) r) as [(ss' & k & a & E)|Hb].
  - exists i. split; [unfold nthreads; lia|]. destruct i as [|[|i]]; try lia; simpl; eapply Hen; eauto.
  - destruct (awaited_moves _ _ HI Hr Hb) as [H|H].
    + exists 0. split; [unfold nthreads; lia|exact H].
    + exists (S (S (rm_tgt r))). split; [|exact H].
      destruct (I_tgt _ HI _ Hr) as [Hlt _]. pose proof (born_le_len _ HI). unfold nthreads. lia.
Qed.

Lemma listener_holding_moves : forall st, Inv st -> lholds (lp st) = true ->
  exists j, j < nthreads st /\ good j st.
Proof.
  intros st HI Hh. destruct (lp st) eqn:Elp; simpl in Hh; try discriminate.
  - exists 0. split; [unfold nthreads; lia|]. unfold good, en. simpl. unfold lstep. rewrite Elp.
    destruct (lookup _ _); eauto.
  - apply (holder_or_awaited st r 0 HI); [unfold rm_of; rewrite Elp; reflexivity| |lia].
    intros ss' k a E. unfold good, en. simpl. unfold lstep. rewrite Elp, E. eauto.
  - exists 0. split; [unfold nthreads; lia|]. unfold good, en. simpl. unfold lstep. rewrite Elp. eauto.
  - exists 0. split; [unfold nthreads; lia|]. unfold good, en. simpl. unfold lstep. rewrite Elp. eauto.
Qed.

Theorem progress_inv : forall st, Inv st ->
  terminatedb st = true \/ exists i, i < nthreads st /\ good i st.
Proof.
  intros st HI. pose proof (I_lock _ HI) as HLk. pose proof (I_excl _ HI) as HX.
  pose proof (I_rp _ HI) as HR. pose proof (I_lp _ HI) as HL.
  assert (R1 : (exists st' a, rstep st 0 = Next st' a) -> exists i, i < nthreads st /\ good i st).
  { intros H. exists 1. split; [unfold nthreads; lia|exact H]. }
  assert (Hrm : forall r, (rp st = R_drm r \/ exists rest, rp st = R_rm r rest) -> rm_of st = Some r).
  { intros r Hr. unfold rm_of. destruct (lp st); simpl in HX;
      destruct Hr as [Hr|[rest Hr]]; rewrite Hr in *; simpl in HX;
      try (specialize (HX eq_refl); discriminate); reflexivity. }
  unfold rp_ok, lock_of in *.
  destruct (rp st) eqn:Er; simpl in HR, HLk.
  - right. apply R1. unfold rstep. rewrite Er. eauto.
  - right. destruct (lockh st) eqn:El.
    + destruct (lholds (lp st)) eqn:Eh; [|discriminate]. apply listener_holding_moves; assumption.
    + apply R1. unfold rstep. rewrite Er, El. eauto.
  - right. apply R1. unfold rstep. rewrite Er. eauto.
  - right. apply R1. unfold rstep. rewrite Er. destruct (nth_error (alive st) i) as [[t s]|]; eauto.
  - right. apply R1. unfold rstep. rewrite Er. destruct (lookup _ _); eauto.
  - right. apply (holder_or_awaited st r 1 HI); [apply Hrm; eauto| |lia].
    intros ss' k a E. unfold good, en. simpl. unfold rstep. rewrite Er, E. eauto.
  - right. apply R1. unfold rstep. rewrite Er. eauto.
  - right. destruct (lockh st) eqn:El.
    + destruct (lholds (lp st)) eqn:Eh; [|discriminate]. apply listener_holding_moves; assumption.
    + apply R1. unfold rstep. rewrite Er, El. eauto.
  - right. apply R1. unfold rstep. rewrite Er. eauto.
  - right. apply R1. unfold rstep. rewrite Er. destruct (alive st) as [|[t s] l]; eauto.
  - right. apply R1. unfold rstep. rewrite Er. destruct (lookup _ _); eauto.
  - right. apply (holder_or_awaited st r 1 HI); [apply Hrm; eauto| |lia].
    intros ss' k a E. unfold good, en. simpl. unfold rstep. rewrite Er, E. eauto.
  - right. apply R1. unfold rstep. rewrite Er. eauto.
  - destruct HR as [Hd Ha]. unfold lp_ok in HL.
    destruct (lp st) eqn:Elp; try (exfalso; intuition congruence).
    + right. exists 0. split; [unfold nthreads; lia|]. unfold good, en. simpl. unfold lstep.
      rewrite Elp, Er. eauto.
    + left. destruct HL as [Hl HL]. destruct (lclose st) eqn:Ec; [|congruence].
      destruct (closed_drained st HI Elp Ec) as (_ & _ & _ & Hall).
      unfold terminatedb. rewrite Elp, Er. apply forallb_forall. intros x Hx.
      destruct (Hall x Hx) as [Hp _]. rewrite Hp. reflexivity.
  - contradiction.
Qed.

Theorem no_deadlock_inv : forall st, Inv st ->
  terminatedb st = true \/ exists i, i < nthreads st /\ en st i.
Proof.
  intros st HI. destruct (progress_inv st HI) as [H|(i & Hi & H)]; [left; exact H|].
  right. exists i. split; [exact Hi|apply good_en0; exact H].
Qed.
