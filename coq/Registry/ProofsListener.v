(* listener_progress: whenever the listener is blocked (on _lock, or inside _remove
   on a sub-server that is shutting down, or in close() on the reaper) it becomes
   enabled again within phi6(st) fair rounds; its own steps per add are bounded
   (Measure.lstep_lam). *)
From Coq Require Import List Arith Bool Lia.
From NV Require Import Gen.Registry Registry.Model Registry.Inv Registry.ProofsLocal Registry.ProofsInv
  Registry.Measure Registry.ProofsSafe Registry.Fair Registry.ProofsLive.
Import ListNotations.

Definition g6 (st : state) : bool := enabledb false st 0.
Definition inpass (p : rpc) : bool :=
  match p with
  | R_lock | R_iter | R_scan _ _ | R_pick _ | R_rm _ _ | R_rel => true
  | _ => false
  end.
(* what the reaper still has to do before it lets go: the rest of its pass (5 steps
   per transfer still to be removed, 6 per entry still to be scanned) -- and, once
   close() has set the event, also the final drain (7 per entry) *)
Definition rho6 (st : state) : nat :=
  pr (length (subs st)) (length (alive st)) (rp st) +
  if devt st && inpass (rp st) then 7 * length (subs st) + 5 else 0.
Definition phi6 (st : state) : nat := rho6 st + sigma (subs st).

Lemma g6_en : forall st, g6 st = true <-> en st 0.
Proof.
  intros st. unfold g6, enabledb, en. destruct (tstep false st 0 0) eqn:E; split; intros H;
    try discriminate; eauto; destruct H as (a & b & H); discriminate.
Qed.

Lemma en_c_0 : forall st c st' a, tstep false st 0 c = Next st' a -> en st 0.
Proof.
  intros st c st' a H. unfold en. simpl in *. unfold lstep in *.
  destruct (lp st) eqn:Elp; try (eauto; fail).
  - destruct (rm_step (subs st) r c) as [ss k a0| |] eqn:E; try discriminate.
    assert (E0 : rm_step (subs st) r 0 = RmNext ss k a0).
    { destruct r as [u|u|u|u]; simpl in *; try exact E.
      destruct (nth_error (subs st) u) as [z|]; [|discriminate].
      destruct (sph z); try (destruct c; discriminate). exact E. }
    rewrite E0. eauto.
  - destruct (rp st); try (destruct c; discriminate); eauto.
Qed.

Lemma blocked_cases : forall st, Inv st -> g6 st = false -> lp st <> L_end ->
  (lp st = L_lock /\ lockh st <> None) \/ (exists r, lp st = L_rm r) \/ lp st = L_cjoin.
Proof.
  intros st HI Hg Hne. pose proof (I_lp _ HI) as HL. pose proof (I_len _ HI) as HN.
  unfold lp_ok in HL. unfold g6, enabledb in Hg. simpl in Hg. unfold lstep in Hg.
  destruct (lp st) eqn:Elp; try congruence; try discriminate; eauto.
  - destruct HL as [Ha _]. destruct (ladds st); [congruence|discriminate].
  - left. split; [reflexivity|]. destruct (lockh st); [discriminate|discriminate].
  - destruct (lookup _ _); discriminate.
  - destruct HL as [Ha _]. destruct (nth_error (subs st) (nadd st)) eqn:E; [discriminate|].
    apply nth_error_None in E. destruct (ladds st); [congruence|]. simpl in HN. lia.
Qed.

Lemma inpass_mono : forall st c st' a, rstep st c = Next st' a ->
  devt st' = devt st /\ (devt st = true -> inpass (rp st') = true -> inpass (rp st) = true).
Proof.
  intros st c st' a H. unfold rstep in H.
  destruct (rp st) eqn:Erp;
    repeat (match type of H with context [match ?x with _ => _ end] => destruct x eqn:? end;
            try discriminate H);
    inversion H; subst; clear H; ssimpl; (split; [try reflexivity; try congruence|]);
    try (intros D I; try reflexivity; try discriminate; congruence).
Qed.

Lemma rho6_dec : forall st c st' a, Inv st -> g6 st = false -> lp st <> L_end ->
  rstep st c = Next st' a -> g6 st' = true \/ rho6 st' < rho6 st.
Proof.
  intros st c st' a HI Hg Hne H.
  assert (Hlen : length (subs st') = length (subs st)) by (apply (tstep_len st 1 c st' a); exact H).
  destruct (inpass_mono _ _ _ _ H) as [Hd Hin].
  destruct (rpc_eq_rel (rp st)) as [Erel|Nrel].
  - unfold rstep in H. rewrite Erel in H. inversion H; subst. clear H.
    destruct (devt st) eqn:Ed.
    + right. unfold rho6. ssimpl. rewrite Ed, Erel. cbn [pr inpass andb]. lia.
    + left. pose proof (I_lock _ HI) as HL. pose proof (I_excl _ HI) as HX.
      pose proof (I_lp _ HI) as HLp. unfold lp_ok in HLp.
      destruct (blocked_cases st HI Hg Hne) as [[El _]|[[r El]|El]].
      * unfold g6, enabledb. simpl. unfold lstep. ssimpl. rewrite El. reflexivity.
      * rewrite El, Erel in HX. simpl in HX. specialize (HX eq_refl). discriminate.
      * rewrite El in HLp. destruct HLp as (_ & _ & Hdv). congruence.
  - right. pose proof (rstep_pr _ _ _ _ HI H Nrel) as Hpr. unfold rho6. rewrite Hlen, Hd.
    rewrite Hlen in Hpr.
    destruct (devt st) eqn:Ed; cbn [andb]; [|lia].
    destruct (inpass (rp st')) eqn:I'; [|destruct (inpass (rp st)); lia].
    rewrite (Hin eq_refl eq_refl). lia.
Qed.

Section Inst6.
  Variable n : nat.
  Let P (st : state) : Prop := Inv st /\ nthreads st = n /\ lp st <> L_end.

  Lemma P6_step : forall st i c st' a, P st -> g6 st = false ->
    stepP false st i c = Some (st', a) -> P st'.
  Proof.
    intros st i c st' a (HI & Hn & Hne) Hg H. apply stepP_tstep in H.
    split; [eapply step_inv; eauto|]. split.
    - unfold nthreads in *. rewrite (tstep_len _ _ _ _ _ H). exact Hn.
    - destruct i as [|[|t]].
      + apply en_c_0 in H. apply g6_en in H. congruence.
      + destruct (rstep_frame _ _ _ _ H) as [_ _]. simpl in H.
        assert (lp st' = lp st).
        { unfold rstep in H. destruct (rp st);
            repeat (match type of H with context [match ?x with _ => _ end] => destruct x eqn:? end;
                    try discriminate H); inversion H; subst; reflexivity. }
        congruence.
      + simpl in H. destruct (nth_error (subs st) t); [|discriminate].
        destruct (sstep false s c); try discriminate. inversion H; subst. exact Hne.
  Qed.

  Lemma phi6_step : forall st i c st' a, P st -> g6 st = false ->
    stepP false st i c = Some (st', a) ->
    g6 st' = true \/ phi6 st' < phi6 st \/ (phi6 st' = phi6 st /\ forall j, good j st -> good j st').
  Proof.
    intros st i c st' a (HI & Hn & Hne) Hg H. apply stepP_tstep in H.
    destruct i as [|[|t]].
    - apply en_c_0 in H. apply g6_en in H. congruence.
    - simpl in H. destruct (rho6_dec _ _ _ _ HI Hg Hne H) as [G|D]; [left; exact G|].
      destruct (rstep_frame _ _ _ _ H) as [_ B]. right. left. unfold phi6. lia.
    - simpl in H. destruct (nth_error (subs st) t) as [x|] eqn:Hx; [|discriminate].
      destruct (sstep false x c) as [x' a'| |] eqn:Es; try discriminate.
      inversion H; subst. right.
      pose proof (sigma_upd _ _ _ x' Hx) as U.
      destruct (sstep_rank _ _ _ _ Es) as [A B].
      destruct (neutral x) eqn:N.
      + right. destruct (B eq_refl) as (R & Ev & Hr' & Hr). split.
        * unfold phi6, rho6. ssimpl. rewrite upd_length. lia.
        * intros j Hgj. destruct j as [|[|u]].
          -- apply (en_frame st t x x' 0 Hx Ev Hr' Hr); [lia|exact Hgj].
          -- apply (en_frame st t x x' 1 Hx Ev Hr' Hr); [lia|exact Hgj].
          -- destruct Hgj as (y & Hy & Ny & Hs). destruct (Nat.eq_dec t u) as [E|E].
             ++ subst u. rewrite Hx in Hy. inversion Hy; subst. congruence.
             ++ exists y. ssimpl. rewrite nth_upd_other by assumption. auto.
      + left. specialize (A eq_refl). unfold phi6, rho6. ssimpl. rewrite upd_length. lia.
  Qed.

  Lemma good6_ex : forall st, P st -> g6 st = false -> exists j, j < n /\ good j st.
  Proof.
    intros st (HI & Hn & Hne) Hg. destruct (progress_inv st HI) as [T|(j & Hj & G)].
    - unfold terminatedb in T. destruct (lp st); try discriminate. congruence.
    - exists j. split; [lia|exact G].
  Qed.

  Lemma good6_dec : forall st j c st' a, P st -> g6 st = false -> good j st ->
    stepP false st j c = Some (st', a) -> g6 st' = true \/ phi6 st' < phi6 st.
  Proof.
    intros st j c st' a (HI & Hn & Hne) Hg G H. apply stepP_tstep in H. destruct j as [|[|t]].
    - apply g6_en in G. congruence.
    - simpl in H. destruct (rho6_dec _ _ _ _ HI Hg Hne H) as [Q|Q]; [left; exact Q|].
      destruct (rstep_frame _ _ _ _ H) as [_ B]. right. unfold phi6. lia.
    - destruct G as (y & Hy & Ny & _). simpl in H. rewrite Hy in H.
      destruct (sstep false y c) as [x' a'| |] eqn:Es; try discriminate.
      inversion H; subst. right. pose proof (sigma_upd _ _ _ x' Hy) as U.
      destruct (sstep_rank _ _ _ _ Es) as [A _]. specialize (A Ny).
      unfold phi6, rho6. ssimpl. rewrite upd_length. lia.
  Qed.

  Lemma listener_eventually : forall k sch st, rounds n k sch -> P st -> phi6 st < k ->
    hit g6 st sch.
  Proof.
    apply (eventually P g6 phi6 good n P6_step phi6_step good6_ex).
    - intros st j c HP Hg G. apply good_any_c. exact G.
    - exact good6_dec.
  Qed.
End Inst6.

Theorem listener_progress_inv : forall st sch, Inv st -> lp st <> L_end ->
  rounds (nthreads st) (S (phi6 st)) sch ->
  exists pre suf, sch = pre ++ suf /\ en (runP false st pre) 0.
Proof.
  intros st sch HI Hne Hr.
  destruct (listener_eventually (nthreads st) _ _ st Hr (conj HI (conj eq_refl Hne))
              (Nat.lt_succ_diag_r _)) as (pre & suf & E & Hg).
  exists pre, suf. split; [exact E|apply g6_en; exact Hg].
Qed.
