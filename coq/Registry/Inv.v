(* The inductive invariant of the registry model: who holds _lock at which program
   point, the life-cycle stage of every sub-server (unborn / registered / being
   removed / reaped) against its flags, and the control relations between the
   listener, the reaper and the _done event. *)
From Coq Require Import List Arith Bool Lia.
From NV Require Import Gen.Registry Registry.Model.
Import ListNotations.

Definition lholds (p : lpc) : bool :=
  match p with L_pop | L_rm _ | L_store | L_rel => true | _ => false end.
Definition rholds (p : rpc) : bool :=
  match p with
  | R_iter | R_scan _ _ | R_pick _ | R_rm _ _ | R_rel
  | R_dtest | R_dnext | R_dpop _ | R_drm _ | R_drel => true
  | _ => false
  end.
Definition lock_of (st : state) : option nat :=
  if lholds (lp st) then Some 0 else if rholds (rp st) then Some 1 else None.

Definition rm_tgt (r : rm) : nat :=
  match r with RmShut s | RmWait s | RmJoin s | RmClose s => s end.
Definition rm_of (st : state) : option rm :=
  match lp st with
  | L_rm r => Some r
  | _ => match rp st with R_rm r _ | R_drm r => Some r | _ => None end
  end.
(* number of sub-servers stored in _alive so far *)
Definition born (st : state) : nat :=
  nadd st + match lp st with L_rel | L_start => 1 | _ => 0 end.

Inductive stage := Unborn | Live | Tgt (r : rm) | Reaped.
Definition stage_fn (al : list (nat * nat)) (ro : option rm) (b s : nat) : stage :=
  if mem s (map snd al) then Live
  else match ro with
       | Some r => if Nat.eqb (rm_tgt r) s then Tgt r
                   else if Nat.ltb s b then Reaped else Unborn
       | None => if Nat.ltb s b then Reaped else Unborn
       end.
Definition stage_of (st : state) (s : nat) : stage :=
  stage_fn (alive st) (rm_of st) (born st) s.

Definition is_ns (p : sphase) : bool := match p with NotStarted => true | _ => false end.
Definition running (p : sphase) : bool :=
  match p with NotStarted | SClear | STest | SPoll | SHandle => true | _ => false end.
Definition is_ret (p : sphase) : bool := match p with Returned => true | _ => false end.

Definition sub_okb (g : stage) (started : bool) (x : sub) : bool :=
  Bool.eqb (is_ns (sph x)) (negb started) &&
  match g with
  | Unborn => is_ns (sph x) && negb (sdone x) && negb (sreq x) && negb (sevt x) && negb (sclosed x)
  | Live | Tgt (RmShut _) =>
    running (sph x) && negb (sreq x) && negb (sevt x) && negb (sclosed x)
  | Tgt (RmWait _) =>
    negb (sclosed x) &&
    match sph x with
    | NotStarted | SClear | STest | SPoll | SHandle => sreq x && negb (sevt x)
    | SFin1 | SFin2 => negb (sevt x)
    | SExit | Returned => sevt x
    | SSelfReq | SSelfWait => false
    end
  | Tgt (RmJoin _) =>
    negb (sclosed x) && sevt x && match sph x with SExit | Returned => true | _ => false end
  | Tgt (RmClose _) => negb (sclosed x) && is_ret (sph x)
  | Reaped => is_ret (sph x) && sclosed x
  end.

Definition keys_in (l : list nat) (a : list (nat * nat)) : Prop :=
  forall t, In t l -> lookup t a <> None.

Definition lp_ok (st : state) : Prop :=
  match lp st with
  | L_idle | L_lock | L_pop | L_rel | L_start => ladds st <> [] /\ devt st = false
  | L_rm _ | L_store =>
    ladds st <> [] /\ devt st = false /\ lookup (hd 0 (ladds st)) (alive st) = None
  | L_cset => ladds st = [] /\ lclose st = true /\ devt st = false
  | L_cjoin => ladds st = [] /\ lclose st = true /\ devt st = true
  | L_end => ladds st = [] /\
             (if lclose st then devt st = true /\ rp st = R_end else devt st = false)
  end.

Definition rp_okp (p : rpc) (al : list (nat * nat)) (d : bool) : Prop :=
  match p with
  | R_wait | R_lock | R_iter | R_rel => True
  | R_scan i acc => i < length al /\ NoDup acc /\ incl acc (map fst (firstn i al))
  | R_pick acc => acc <> [] /\ NoDup acc /\ keys_in acc al
  | R_rm _ rest => NoDup rest /\ keys_in rest al
  | R_dlock | R_dtest | R_drm _ => d = true
  | R_dnext => d = true /\ al <> []
  | R_dpop tid => d = true /\ lookup tid al <> None
  | R_drel | R_end => d = true /\ al = []
  | R_dead => False
  end.
Definition rp_ok (st : state) : Prop := rp_okp (rp st) (alive st) (devt st).

Record Inv (st : state) : Prop := mkInv {
  I_lock : lockh st = lock_of st;
  I_excl : lholds (lp st) = true -> rholds (rp st) = false;
  I_nd1 : NoDup (map fst (alive st));
  I_nd2 : NoDup (map snd (alive st));
  I_born : forall s, In s (map snd (alive st)) -> s < born st;
  I_tgt : forall r, rm_of st = Some r ->
          rm_tgt r < born st /\ ~ In (rm_tgt r) (map snd (alive st));
  I_len : length (subs st) = nadd st + length (ladds st);
  I_subs : forall s x, nth_error (subs st) s = Some x ->
           sub_okb (stage_of st s) (Nat.ltb s (nadd st)) x = true;
  I_lp : lp_ok st;
  I_rp : rp_ok st }.

(* ------------------------------------------------------------------ list facts *)
Lemma mem_In : forall x l, mem x l = true <-> In x l.
Proof.
  intros x l. unfold mem. rewrite existsb_exists. split.
  - intros (y & Hy & E). apply Nat.eqb_eq in E. subst. exact Hy.
  - intros H. exists x. split; [exact H|apply Nat.eqb_refl].
Qed.
Lemma mem_false : forall x l, mem x l = false <-> ~ In x l.
Proof.
  intros x l. rewrite <- mem_In. destruct (mem x l); split; intros; try discriminate; auto.
  exfalso; auto.
Qed.

Lemma nth_upd_same : forall {A} (l : list A) i x, i < length l -> nth_error (upd l i x) i = Some x.
Proof. induction l; intros [|i] x H; simpl in *; try lia; auto. apply IHl. lia. Qed.
Lemma nth_upd_other : forall {A} (l : list A) i j x, i <> j ->
  nth_error (upd l i x) j = nth_error l j.
Proof.
  induction l; intros [|i] [|j] x H; simpl; try reflexivity; try congruence.
  apply IHl. congruence.
Qed.
Lemma upd_length : forall {A} (l : list A) i x, length (upd l i x) = length l.
Proof. induction l; intros [|i] x; simpl; auto. Qed.
Lemma nth_upd : forall {A} (l : list A) i j x y, nth_error (upd l i x) j = Some y ->
  (i = j /\ y = x) \/ (i <> j /\ nth_error l j = Some y).
Proof.
  intros A l i j x y H. destruct (Nat.eq_dec i j) as [E|E].
  - subst. left. split; [reflexivity|].
    assert (j < length l).
    { apply nth_error_Some. intros C.
      assert (nth_error (upd l j x) j <> None) by congruence.
      apply nth_error_Some in H0. rewrite upd_length in H0. apply nth_error_None in C. lia. }
    rewrite nth_upd_same in H by assumption. congruence.
  - right. rewrite nth_upd_other in H by assumption. auto.
Qed.

Lemma lookup_In : forall tid a s, lookup tid a = Some s -> In (tid, s) a.
Proof.
  intros tid a s H. unfold lookup in H.
  destruct (find _ a) as [[t s']|] eqn:E; [|discriminate].
  apply find_some in E. destruct E as [Hin Ht]. simpl in *. apply Nat.eqb_eq in Ht.
  inversion H; subst. exact Hin.
Qed.
Lemma lookup_None : forall tid a, lookup tid a = None <-> ~ In tid (map fst a).
Proof.
  intros tid a. unfold lookup. split.
  - intros H Hin. apply in_map_iff in Hin. destruct Hin as ([t s] & Ht & Hin). simpl in Ht. subst.
    destruct (find _ a) eqn:E; [discriminate|].
    pose proof (find_none _ _ E _ Hin) as F. simpl in F. rewrite Nat.eqb_refl in F. discriminate.
  - intros H. destruct (find _ a) as [[t s]|] eqn:E; [|reflexivity].
    apply find_some in E. destruct E as [Hin Ht]. simpl in Ht. apply Nat.eqb_eq in Ht. subst.
    exfalso. apply H. apply in_map_iff. exists (tid, s). auto.
Qed.
Lemma In_lookup : forall a tid s, NoDup (map fst a) -> In (tid, s) a -> lookup tid a = Some s.
Proof.
  induction a as [|[t u] a IH]; intros tid s Hnd Hin; [contradiction|].
  simpl in Hnd. inversion Hnd; subst. unfold lookup. simpl.
  destruct Hin as [E|Hin].
  - inversion E; subst. rewrite Nat.eqb_refl. reflexivity.
  - destruct (Nat.eqb t tid) eqn:Et.
    + apply Nat.eqb_eq in Et. subst. exfalso. apply H1. apply in_map_iff. exists (tid, s). auto.
    + apply (IH tid s H2 Hin).
Qed.

Lemma In_remove_tid : forall tid a e, In e (remove_tid tid a) <-> In e a /\ fst e <> tid.
Proof.
  intros tid a e. unfold remove_tid. rewrite filter_In. rewrite negb_true_iff, Nat.eqb_neq. tauto.
Qed.
Lemma NoDup_map_filter : forall {A B} (f : A -> B) p (l : list A),
  NoDup (map f l) -> NoDup (map f (filter p l)).
Proof.
  induction l as [|x l IH]; simpl; intros H; [constructor|].
  inversion H; subst. destruct (p x); simpl; auto. constructor; auto.
  intros C. apply H2. apply in_map_iff in C. destruct C as (y & Ey & Hy).
  apply filter_In in Hy. apply in_map_iff. exists y. tauto.
Qed.
Lemma length_remove_tid : forall tid a, length (remove_tid tid a) <= length a.
Proof. intros. unfold remove_tid. induction a; simpl; [lia|]. destruct (negb _); simpl; lia. Qed.

(* with both projections duplicate-free, removing tid removes exactly its sub-server *)
Lemma snd_remove_tid : forall a tid s u, NoDup (map fst a) -> NoDup (map snd a) -> In (tid, s) a ->
  (In u (map snd (remove_tid tid a)) <-> In u (map snd a) /\ u <> s).
Proof.
  intros a tid s u H1 H2 Hin. split.
  - intros H. apply in_map_iff in H. destruct H as ([t u'] & E & H). simpl in E. subst u'.
    apply In_remove_tid in H. destruct H as [H Hne]. simpl in Hne. split.
    + apply in_map_iff. exists (t, u). auto.
    + intros C. subst u. apply Hne.
      clear - H2 Hin H. induction a as [|[a1 a2] a IH]; [contradiction|].
      simpl in H2. inversion H2; subst. destruct Hin as [E|Hin], H as [E'|H].
      * congruence.
      * inversion E; subst. exfalso. apply H3. apply in_map_iff. exists (t, s). auto.
      * inversion E'; subst. exfalso. apply H3. apply in_map_iff. exists (tid, s). auto.
      * auto.
  - intros [H Hne]. apply in_map_iff in H. destruct H as ([t u'] & E & H). simpl in E. subst u'.
    apply in_map_iff. exists (t, u). split; [reflexivity|]. apply In_remove_tid. split; [exact H|].
    simpl. intros C. subst t. apply Hne.
    pose proof (In_lookup a tid u H1 H). pose proof (In_lookup a tid s H1 Hin). congruence.
Qed.
