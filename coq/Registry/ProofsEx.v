(* Non-vacuity: concrete interleavings (vm_compute on closed terms), and the deadlock
   that the no-self-shutdown hypothesis excludes. *)
From Coq Require Import List Arith Bool.
From NV Require Import Gen.Registry Registry.Model Registry.Inv Registry.Fair Registry.Proofs.
Import ListNotations.

(* k rounds of round-robin over n threads, every choice c *)
Definition rr (n k c : nat) : sched :=
  flat_map (fun _ => map (fun i => (i, c)) (seq 0 n)) (seq 0 k).

(* two transfers (tids 7 and 9), both set done at their first handle point, then
   close(): everything terminates, nothing is left *)
Example ex_two_transfers_complete :
  let st := runP false (init [7; 9] true) (rr 4 40 1) in
  terminatedb st = true /\ alive st = [] /\ lockh st = None /\
  forallb (fun x => sclosed x && sdone x) (subs st) = true.
Proof. vm_compute. repeat split. Qed.

(* the second add re-uses tid 7 while the first transfer is still running: the listener
   pops it, requests its shutdown, waits, joins, closes -- and only then stores *)
Definition replace_sched : sched :=
  [(0,0);(0,0);(0,0);(0,0);(0,0);(0,0);     (* add #0: call, lock, pop (absent), store, release, start *)
   (2,0);(2,0);(2,0);(2,0);                 (* sub 0 polls *)
   (0,0);(0,0);(0,0);(0,0);                 (* add #1, same tid: call, lock, pop (found), shutdown flag *)
   (0,0);                                   (* ... waits for the event: blocked, skipped *)
   (2,0);(2,0);(2,0);(2,0);                 (* sub 0: test sees the flag, finally, event set, thread ends *)
   (0,0);(0,0);(0,0)].                      (* listener: wait returns, join, close; now about to store *)
Example ex_add_replaces :
  let st := runP false (init [7; 7] false) replace_sched in
  lp st = L_store /\ alive st = [] /\
  map (fun x => (sph x, sclosed x)) (subs st) = [(Returned, true); (NotStarted, false)].
Proof. vm_compute. repeat split. Qed.

(* WHY the hypothesis is needed: if a handler running in the sub-server thread calls
   self.server.shutdown() (e.g. in do_ERROR), that thread waits for itself; the reaper
   then waits for it while holding _lock, and the listener waits for the lock:
   nobody can move, the listening port is dead *)
Definition selfsd_sched : sched :=
  [(0,0);(0,0);(0,0);(0,0);(0,0);(0,0);     (* add(7): call, lock, pop, store, release, start *)
   (2,0);(2,0);(2,0);(2,2);(2,0);           (* sub 0: clear, test, poll, handle = done + own shutdown(): flag set, waits *)
   (1,0);(1,0);(1,0);(1,0);(1,0);(1,0);     (* reaper: wait, lock, items(), read done, pop, shutdown flag; waits for sub 0 *)
   (0,0)].                                  (* listener: add(9) called; blocks on the lock *)
Example self_shutdown_deadlock_refuted :
  let st := runP true (init [7; 9] false) selfsd_sched in
  stuckb true st = true /\ terminatedb st = false /\ lockh st = Some 1 /\ lp st = L_lock /\
  rp st = R_rm (RmWait 0) [].
Proof. vm_compute. repeat split. Qed.
(* the same schedule without the self-shutdown transition is harmless *)
Example no_self_shutdown_same_schedule :
  stuckb false (runP false (init [7; 9] false) selfsd_sched) = false.
Proof. vm_compute. reflexivity. Qed.

Print Assumptions alive_only_under_lock.
Print Assumptions no_deadlock.
Print Assumptions finished_is_reaped.
Print Assumptions add_replaces.
Print Assumptions close_drains.
Print Assumptions listener_progress.
Print Assumptions self_shutdown_deadlock_refuted.
