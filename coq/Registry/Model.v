(* Model of nobodd/tftpd.py TFTPSubServers (the registry of running transfers and
   its reaper thread) together with the threads that share it.  Executable
   definitions only.

   Threads: 0 = the listener (TFTPBaseHandler.do_RRQ -> subs.add(...), at the end
   TFTPBaseServer.server_close -> subs.close()); 1 = the reaper
   (TFTPSubServers.run); 2+k = the thread of the k-th sub-server handed to add
   (socketserver.BaseServer.serve_forever(poll_interval=0.01)).

   One transition per primitive operation: one operation on _lock, one operation
   on the dictionary _alive, one flag / event write, one read of server.done, one
   blocking wait.  A blocked thread has no transition ([Blocked]).
   thread.join(timeout=10) / self.join(timeout=10) expiring is the outcome
   [TimedOut]: it is NOT a transition of the model; the theorems are about runs
   without it (timeliness hypothesis, see Proofs.v).

   [selfsd] = "a handler running in the sub-server thread may call
   self.server.shutdown()"; the translator establishes that the source has no
   such call (Gen.Registry.no_self_shutdown), [step] below uses its negation.
   The schedule supplies with every step a choice [c]:
     sub-server at its handle point:  0 nothing, 1 set done, >= 2 (selfsd only)
                                      set done and request its own shutdown;
     reaper at `for tid in to_remove`: index (mod length) of the element of the
                                      set that comes next (set order is unspecified);
     a join of a thread that has not ended: 0 keep waiting, otherwise TimedOut. *)
From Coq Require Import List Arith Bool String NArith.
From NV Require Import Gen.Registry.
Import ListNotations.

Inductive sphase :=
| NotStarted            (* Thread object built, start() not called yet *)
| SClear                (* serve_forever: about to do __is_shut_down.clear() *)
| STest                 (* about to evaluate `while not self.__shutdown_request` *)
| SPoll                 (* in selector.select(poll_interval); then `if __shutdown_request: break` *)
| SHandle               (* _handle_request_noblock() / service_actions(): may set done *)
| SSelfReq | SSelfWait  (* (selfsd) inside its own shutdown(): about to set the flag / waiting *)
| SFin1                 (* finally: about to do __shutdown_request = False *)
| SFin2                 (* about to do __is_shut_down.set() *)
| SExit                 (* serve_forever returned; thread about to end *)
| Returned.             (* thread ended: is_alive() is False, join returns *)

Record sub := mkSub { sph : sphase; sdone : bool; sreq : bool; sevt : bool; sclosed : bool }.
Definition fresh : sub := mkSub NotStarted false false false false.

(* _remove after the pop: server.shutdown() (flag, wait), thread.join, client_state.close() *)
Inductive rm := RmShut (s : nat) | RmWait (s : nat) | RmJoin (s : nat) | RmClose (s : nat).

Inductive lpc :=
| L_idle                (* about to call add(server nadd) with tid = hd ladds *)
| L_lock                (* `with self._lock` *)
| L_pop                 (* self._alive.pop(tid), KeyError suppressed *)
| L_rm (r : rm)
| L_store               (* self._alive[tid] = (server, thread) *)
| L_rel                 (* leaving `with self._lock` *)
| L_start               (* thread.start() *)
| L_cset                (* close(): self._done.set() *)
| L_cjoin               (* close(): self.join(timeout=10) *)
| L_end.

Inductive rpc :=
| R_wait                (* self._done.wait(0.01) *)
| R_lock
| R_iter                (* self._alive.items() *)
| R_scan (i : nat) (acc : list nat)   (* next item of the iteration, read server.done *)
| R_pick (acc : list nat)             (* for tid in to_remove: self._alive.pop(tid) *)
| R_rm (r : rm) (rest : list nat)
| R_rel
| R_dlock               (* final `with self._lock` *)
| R_dtest               (* while self._alive *)
| R_dnext               (* next(iter(self._alive)) *)
| R_dpop (tid : nat)
| R_drm (r : rm)
| R_drel
| R_end                 (* run() returned *)
| R_dead.               (* run() left by an exception (KeyError / RuntimeError from the dictionary) *)

Record state := mkS {
  lockh : option nat;             (* holder of _lock *)
  alive : list (nat * nat);       (* _alive in insertion order: tid |-> index of the sub-server *)
  subs : list sub;
  devt : bool;                    (* the _done event *)
  lp : lpc; ladds : list nat; lclose : bool; nadd : nat;
  rp : rpc }.

Inductive act :=
| ACall (tid : nat) | AAcq | ARel
| APop (tid : nat) (found : bool) | AStore (tid s : nat)
| AIter | ARead (s : nat) (d : bool) | ALen (n : nat) | ANext (tid : nat)
| AShutReq (s : nat) | AShutWait (s : nat) | AJoin (s : nat) | AClose (s : nat)
| AStart (s : nat) | ADoneSet | ADoneWait (b : bool) | AJoinReaper
| ASub (ph : sphase) (b : bool)      (* the step taken at phase ph; b = flag read / done set *)
| ARaise.                            (* the reaper's run() is left by an exception *)

Inductive outcome := Next (st : state) (a : act) | Blocked | TimedOut | Stop.

Fixpoint upd {A} (l : list A) (i : nat) (x : A) : list A :=
  match l, i with
  | [], _ => []
  | _ :: r, O => x :: r
  | y :: r, S i' => y :: upd r i' x
  end.

Definition set_lock st h := mkS h (alive st) (subs st) (devt st) (lp st) (ladds st) (lclose st) (nadd st) (rp st).
Definition set_alive st a := mkS (lockh st) a (subs st) (devt st) (lp st) (ladds st) (lclose st) (nadd st) (rp st).
Definition set_subs st s := mkS (lockh st) (alive st) s (devt st) (lp st) (ladds st) (lclose st) (nadd st) (rp st).
Definition set_devt st d := mkS (lockh st) (alive st) (subs st) d (lp st) (ladds st) (lclose st) (nadd st) (rp st).
Definition set_lp st p := mkS (lockh st) (alive st) (subs st) (devt st) p (ladds st) (lclose st) (nadd st) (rp st).
Definition set_rp st p := mkS (lockh st) (alive st) (subs st) (devt st) (lp st) (ladds st) (lclose st) (nadd st) p.
Definition set_sub st s x := set_subs st (upd (subs st) s x).

Definition lookup (tid : nat) (a : list (nat * nat)) : option nat :=
  match find (fun e => Nat.eqb (fst e) tid) a with Some e => Some (snd e) | None => None end.
Definition remove_tid (tid : nat) (a : list (nat * nat)) : list (nat * nat) :=
  filter (fun e => negb (Nat.eqb (fst e) tid)) a.
Definition mem (x : nat) (l : list nat) : bool := existsb (Nat.eqb x) l.
(* dict.__setitem__: an existing key keeps its place and gets the new value *)
Definition store (tid s : nat) (a : list (nat * nat)) : list (nat * nat) :=
  match lookup tid a with
  | Some _ => map (fun e => if Nat.eqb (fst e) tid then (tid, s) else e) a
  | None => a ++ [(tid, s)]
  end.

(* where the listener goes between two calls *)
Definition next_lp (adds : list nat) (cl : bool) : lpc :=
  match adds with _ :: _ => L_idle | [] => if cl then L_cset else L_end end.

(* the part of _remove after the pop; [k] tells the caller where to continue *)
Inductive rmres := RmNext (ss : list sub) (k : option rm) (a : act) | RmBlocked | RmTimedOut.
Definition rm_step (ss : list sub) (r : rm) (c : nat) : rmres :=
  match r with
  | RmShut s => match nth_error ss s with
                | Some x => RmNext (upd ss s (mkSub (sph x) (sdone x) true (sevt x) (sclosed x)))
                                   (Some (RmWait s)) (AShutReq s)
                | None => RmBlocked
                end
  | RmWait s => match nth_error ss s with
                | Some x => if sevt x then RmNext ss (Some (RmJoin s)) (AShutWait s) else RmBlocked
                | None => RmBlocked
                end
  | RmJoin s => match nth_error ss s with
                | Some x => match sph x with
                            | Returned => RmNext ss (Some (RmClose s)) (AJoin s)
                            | _ => match c with O => RmBlocked | _ => RmTimedOut end
                            end
                | None => RmBlocked
                end
  | RmClose s => match nth_error ss s with
                 | Some x => RmNext (upd ss s (mkSub (sph x) (sdone x) (sreq x) (sevt x) true))
                                    None (AClose s)
                 | None => RmBlocked
                 end
  end.

Definition lstep (st : state) (c : nat) : outcome :=
  match lp st with
  | L_idle => match ladds st with
              | tid :: _ => Next (set_lp st L_lock) (ACall tid)
              | [] => Stop
              end
  | L_lock => match lockh st with
              | None => Next (set_lp (set_lock st (Some 0)) L_pop) AAcq
              | Some _ => Blocked
              end
  | L_pop => let tid := hd 0 (ladds st) in
             match lookup tid (alive st) with
             | Some s => Next (set_lp (set_alive st (remove_tid tid (alive st))) (L_rm (RmShut s)))
                              (APop tid true)
             | None => Next (set_lp st L_store) (APop tid false)
             end
  | L_rm r => match rm_step (subs st) r c with
              | RmNext ss k a =>
                Next (set_lp (set_subs st ss) (match k with Some r' => L_rm r' | None => L_store end)) a
              | RmBlocked => Blocked
              | RmTimedOut => TimedOut
              end
  | L_store => let tid := hd 0 (ladds st) in
               Next (set_lp (set_alive st (store tid (nadd st) (alive st))) L_rel)
                    (AStore tid (nadd st))
  | L_rel => Next (set_lp (set_lock st None) L_start) ARel
  | L_start =>
    match nth_error (subs st) (nadd st) with
    | Some x =>
      let st1 := set_sub st (nadd st) (mkSub SClear (sdone x) (sreq x) (sevt x) (sclosed x)) in
      Next (mkS (lockh st1) (alive st1) (subs st1) (devt st1)
                (next_lp (tl (ladds st)) (lclose st)) (tl (ladds st)) (lclose st) (S (nadd st)) (rp st1))
           (AStart (nadd st))
    | None => Stop
    end
  | L_cset => Next (set_lp (set_devt st true) L_cjoin) ADoneSet
  | L_cjoin => match rp st with
               | R_end | R_dead => Next (set_lp st L_end) AJoinReaper
               | _ => match c with O => Blocked | _ => TimedOut end
               end
  | L_end => Stop
  end.

Definition remove_nth (i : nat) (l : list nat) : list nat := firstn i l ++ skipn (S i) l.
Definition after_pick (rest : list nat) : rpc :=
  match rest with [] => R_rel | _ => R_pick rest end.

Definition rstep (st : state) (c : nat) : outcome :=
  match rp st with
  | R_wait => Next (set_rp st (if devt st then R_dlock else R_lock)) (ADoneWait (devt st))
  | R_lock => match lockh st with
              | None => Next (set_rp (set_lock st (Some 1)) R_iter) AAcq
              | Some _ => Blocked
              end
  | R_iter => Next (set_rp st (match alive st with [] => R_rel | _ => R_scan 0 [] end)) AIter
  | R_scan i acc =>
    match nth_error (alive st) i with
    | Some (tid, s) =>
      let d := match nth_error (subs st) s with Some x => sdone x | None => false end in
      let acc' := if d then acc ++ [tid] else acc in
      Next (set_rp st (if Nat.ltb (S i) (List.length (alive st)) then R_scan (S i) acc'
                       else after_pick acc')) (ARead s d)
    | None => Next (set_rp (set_lock st None) R_dead) ARaise   (* changed size during iteration *)
    end
  | R_pick acc =>
    let k := Nat.modulo c (List.length acc) in
    let tid := nth k acc 0 in
    let rest := remove_nth k acc in
    match lookup tid (alive st) with
    | Some s => Next (set_rp (set_alive st (remove_tid tid (alive st))) (R_rm (RmShut s) rest))
                     (APop tid true)
    | None => Next (set_rp (set_lock st None) R_dead) (APop tid false)      (* KeyError *)
    end
  | R_rm r rest =>
    match rm_step (subs st) r c with
    | RmNext ss k a =>
      Next (set_rp (set_subs st ss) (match k with Some r' => R_rm r' rest | None => after_pick rest end)) a
    | RmBlocked => Blocked
    | RmTimedOut => TimedOut
    end
  | R_rel => Next (set_rp (set_lock st None) R_wait) ARel
  | R_dlock => match lockh st with
               | None => Next (set_rp (set_lock st (Some 1)) R_dtest) AAcq
               | Some _ => Blocked
               end
  | R_dtest => Next (set_rp st (match alive st with [] => R_drel | _ => R_dnext end))
                    (ALen (List.length (alive st)))
  | R_dnext => match alive st with
               | (tid, _) :: _ => Next (set_rp st (R_dpop tid)) (ANext tid)
               | [] => Next (set_rp (set_lock st None) R_dead) ARaise        (* StopIteration *)
               end
  | R_dpop tid =>
    match lookup tid (alive st) with
    | Some s => Next (set_rp (set_alive st (remove_tid tid (alive st))) (R_drm (RmShut s))) (APop tid true)
    | None => Next (set_rp (set_lock st None) R_dead) (APop tid false)
    end
  | R_drm r =>
    match rm_step (subs st) r c with
    | RmNext ss k a =>
      Next (set_rp (set_subs st ss) (match k with Some r' => R_drm r' | None => R_dtest end)) a
    | RmBlocked => Blocked
    | RmTimedOut => TimedOut
    end
  | R_drel => Next (set_rp (set_lock st None) R_end) ARel
  | R_end => Stop
  | R_dead => Stop
  end.

(* one sub-server thread: socketserver.BaseServer.serve_forever *)
Definition set_ph (x : sub) (p : sphase) : sub := mkSub p (sdone x) (sreq x) (sevt x) (sclosed x).
Inductive subres := SubNext (x : sub) (a : act) | SubBlocked | SubStop.
Definition sstep (selfsd : bool) (x : sub) (c : nat) : subres :=
  match sph x with
  | NotStarted => SubBlocked
  | SClear => SubNext (mkSub STest (sdone x) (sreq x) false (sclosed x)) (ASub SClear false)
  | STest => SubNext (set_ph x (if sreq x then SFin1 else SPoll)) (ASub STest (sreq x))
  | SPoll => SubNext (set_ph x (if sreq x then SFin1 else SHandle)) (ASub SPoll (sreq x))
  | SHandle =>
    match c with
    | O => SubNext (set_ph x STest) (ASub SHandle false)
    | S O => SubNext (mkSub STest true (sreq x) (sevt x) (sclosed x)) (ASub SHandle true)
    | _ => if selfsd
           then SubNext (mkSub SSelfReq true (sreq x) (sevt x) (sclosed x)) (ASub SHandle true)
           else SubNext (mkSub STest true (sreq x) (sevt x) (sclosed x)) (ASub SHandle true)
    end
  | SSelfReq => SubNext (mkSub SSelfWait (sdone x) true (sevt x) (sclosed x)) (ASub SSelfReq false)
  | SSelfWait => if sevt x then SubNext (set_ph x STest) (ASub SSelfWait true) else SubBlocked
  | SFin1 => SubNext (mkSub SFin2 (sdone x) false (sevt x) (sclosed x)) (ASub SFin1 false)
  | SFin2 => SubNext (mkSub SExit (sdone x) (sreq x) true (sclosed x)) (ASub SFin2 false)
  | SExit => SubNext (set_ph x Returned) (ASub SExit false)
  | Returned => SubStop
  end.

(* one transition of thread i *)
Definition tstep (selfsd : bool) (st : state) (i c : nat) : outcome :=
  match i with
  | O => lstep st c
  | S O => rstep st c
  | S (S k) =>
    match nth_error (subs st) k with
    | Some x => match sstep selfsd x c with
                | SubNext x' a => Next (set_sub st k x') a
                | SubBlocked => Blocked
                | SubStop => Stop
                end
    | None => Stop
    end
  end.

Definition stepP (selfsd : bool) (st : state) (i c : nat) : option (state * act) :=
  match tstep selfsd st i c with Next st' a => Some (st', a) | _ => None end.

(* the step relation of the theorems: the source has no self-shutdown iff the
   translator says so *)
Definition step := stepP (negb no_self_shutdown).

Definition init (adds : list nat) (cl : bool) : state :=
  mkS None [] (repeat fresh (List.length adds)) false (next_lp adds cl) adds cl 0 R_wait.

Fixpoint runP (selfsd : bool) (st : state) (sch : list (nat * nat)) : state :=
  match sch with
  | [] => st
  | (i, c) :: r => match stepP selfsd st i c with
                   | Some (st', _) => runP selfsd st' r
                   | None => runP selfsd st r
                   end
  end.
Definition run := runP (negb no_self_shutdown).

Definition enabledb (selfsd : bool) (st : state) (i : nat) : bool :=
  match tstep selfsd st i 0 with Next _ _ => true | _ => false end.
Definition nthreads (st : state) : nat := 2 + List.length (subs st).
Definition terminatedb (st : state) : bool :=
  match lp st, rp st with
  | L_end, R_end => forallb (fun x => match sph x with Returned => true | _ => false end) (subs st)
  | _, _ => false
  end.
(* nobody can move although not everything has ended *)
Definition stuckb (selfsd : bool) (st : state) : bool :=
  negb (terminatedb st) && negb (existsb (enabledb selfsd st) (seq 0 (nthreads st))).

(* does the action touch the dictionary _alive (mutation, lookup, iteration, truth test)? *)
Definition dict_act (a : act) : bool :=
  match a with
  | APop _ _ | AStore _ _ | AIter | ARead _ _ | ALen _ | ANext _ => true
  | _ => false
  end.

(* ------------------------------------------------------------------ source facts *)
Open Scope string_scope.
Definition expected_digests : list (string * string) := [
  ("TFTPSubServers.__init__", "36a99557b075f80fe96f0022");
  ("TFTPSubServers.close", "244640702a28a1e4666ae15e");
  ("TFTPSubServers.add", "b4a5f3aac133cc9fdf30e4c8");
  ("TFTPSubServers._remove", "9ab4523bd0a417881b15de73");
  ("TFTPSubServers.run", "11d144a9f236d38f5e7190c1");
  ("TFTPBaseServer.server_close", "4757345d7623e23ec50a0393")].
Fixpoint digests_eqb (a b : list (string * string)) : bool :=
  match a, b with
  | [], [] => true
  | (n, d) :: a', (n', d') :: b' => String.eqb n n' && String.eqb d d' && digests_eqb a' b'
  | _, _ => false
  end.
(* what the model rests on, regenerated from the source by harness/gen_registry.py:
   - the six methods are the ones the model was written against;
   - every access to self._alive lies inside `with self._lock:` or in _remove, and
     _remove is called only from inside such blocks of add / run;
   - the registry is reached only through add (do_RRQ, listener thread) and close
     (server_close);
   - no method of TFTPSubHandler / TFTPSubServer / TFTPClientState / TFTPHandler calls
     .shutdown( or ._remove( (a sub-server thread never waits for itself);
   - poll interval of the sub-servers and of the reaper 10 ms, both joins 10 s. *)
Definition registry_source_facts : bool :=
  digests_eqb registry_digests expected_digests &&
  alive_only_in_lock_blocks && remove_only_in_lock_blocks && registry_entry_points_ok &&
  no_self_shutdown &&
  N.eqb sub_poll_interval_ms 10 && N.eqb reaper_wait_ms 10 &&
  N.eqb remove_join_timeout_s 10 && N.eqb close_join_timeout_s 10.
