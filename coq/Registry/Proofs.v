(* The theorems about the transfer registry, stated over the model tied to the
   source by [registry_source_facts] (Gen.Registry, regenerated on every run).

   Hypotheses, all explicit:
   - registry_source_facts = true: the methods are the modelled ones, every access to
     _alive is inside `with self._lock`, and NO code that runs in a sub-server thread
     calls shutdown() / _remove (so [step] has no self-shutdown transition);
   - timeliness: a run is a sequence of transitions of [step]; thread.join(timeout=10)
     and self.join(timeout=10) expiring are not transitions (outcome TimedOut), i.e.
     every join returns because the thread ended;
   - fairness (progress theorems only): the schedule begins with enough ROUNDS, a round
     being any piece of schedule in which every thread gets at least one turn
     (Registry.Fair); a sub-server thread's turn is one step of its poll loop, so the
     wait for it to observe a shutdown request is at most one loop = one poll interval. *)
From Coq Require Import List Arith Bool Lia.
From NV Require Import Gen.Registry Registry.Model Registry.Inv Registry.ProofsLocal Registry.ProofsInv
  Registry.Measure Registry.ProofsSafe Registry.Fair Registry.ProofsLive Registry.ProofsListener.
Import ListNotations.

(* the generated facts hold for the source as it is now; when they do not, this
   fails to compile and everything below is reported as a broken tie *)
Example registry_source_facts_hold : registry_source_facts = true.
Proof. vm_compute. reflexivity. Qed.

Inductive reachable (adds : list nat) (cl : bool) : state -> Prop :=
| reachable_init : reachable adds cl (init adds cl)
| reachable_step : forall st i c st' a, reachable adds cl st -> step st i c = Some (st', a) ->
                   reachable adds cl st'.

Lemma facts_no_selfsd : registry_source_facts = true -> no_self_shutdown = true.
Proof.
  unfold registry_source_facts. intros H. repeat (apply andb_true_iff in H; destruct H as [H ?]).
  assumption.
Qed.
Lemma step_is : registry_source_facts = true -> step = stepP false.
Proof. intros H. unfold step. rewrite (facts_no_selfsd H). reflexivity. Qed.
Lemma run_is : registry_source_facts = true -> run = runP false.
Proof. intros H. unfold run. rewrite (facts_no_selfsd H). reflexivity. Qed.
Lemma reachable_inv : registry_source_facts = true ->
  forall adds cl st, reachable adds cl st -> Inv st.
Proof.
  intros F adds cl st H. induction H.
  - apply init_inv.
  - rewrite (step_is F) in H0. apply stepP_tstep in H0. eapply step_inv; eauto.
Qed.

(* 1. every operation on _alive (mutation, lookup, iteration, truth test) is done by
      the thread that holds _lock, and _alive changes only through such operations:
      no "dictionary changed size during iteration" *)
Theorem alive_only_under_lock : registry_source_facts = true ->
  forall adds cl st i c st' a, reachable adds cl st -> step st i c = Some (st', a) ->
  (dict_act a = true -> lockh st = Some i) /\ (dict_act a = false -> alive st' = alive st) /\
  rp st' <> R_dead.
Proof.
  intros F adds cl st i c st' a HR H. pose proof (reachable_inv F _ _ _ HR) as HI.
  rewrite (step_is F) in H. apply stepP_tstep in H.
  destruct (dict_under_lock _ _ _ _ _ HI H) as [A B]. split; [exact A|]. split; [exact B|].
  pose proof (I_rp _ (step_inv _ _ _ _ _ HI H)) as R. unfold rp_ok in R.
  intros E. rewrite E in R. exact R.
Qed.

(* 2. no reachable state is a deadlock *)
Theorem no_deadlock : registry_source_facts = true ->
  forall adds cl st, reachable adds cl st ->
  terminatedb st = true \/ exists i st' a, i < nthreads st /\ step st i 0 = Some (st', a).
Proof.
  intros F adds cl st HR. pose proof (reachable_inv F _ _ _ HR) as HI.
  destruct (no_deadlock_inv st HI) as [T|(i & Hi & st' & a & E)]; [left; exact T|].
  right. exists i, st', a. split; [exact Hi|]. rewrite (step_is F). apply stepP_tstep. exact E.
Qed.

(* 3. a registered sub-server whose done flag is set is removed within S (phi s st)
      fair rounds: not in _alive, thread returned, source closed -- and stays so *)
Theorem finished_is_reaped : registry_source_facts = true ->
  forall adds cl st s tid x, reachable adds cl st ->
  In (tid, s) (alive st) -> nth_error (subs st) s = Some x -> sdone x = true ->
  forall sch, rounds (nthreads st) (S (phi s st)) sch ->
  ~ In s (map snd (alive (run st sch))) /\
  exists x', nth_error (subs (run st sch)) s = Some x' /\ sph x' = Returned /\ sclosed x' = true.
Proof.
  intros F adds cl st s tid x HR Hin Hx Hd sch Hr. pose proof (reachable_inv F _ _ _ HR) as HI.
  rewrite (run_is F). apply finished_is_reaped_inv; [|exact Hr].
  split; [exact HI|]. split; [|eauto].
  apply (I_born _ HI). apply in_map_iff. exists (tid, s). auto.
Qed.

(* 4. add never overwrites: _alive has one entry per tid; the store happens only when
      the tid is absent, and at that moment every sub-server that ever was registered
      and is not in _alive has been shut down completely (thread returned, source
      closed) -- in particular the one add itself popped; the listener gets from the
      pop to the store only through the close step of that sub-server *)
Theorem add_replaces : registry_source_facts = true ->
  forall adds cl st, reachable adds cl st ->
  NoDup (map fst (alive st)) /\ NoDup (map snd (alive st)) /\
  (forall c st' tid s, step st 0 c = Some (st', AStore tid s) ->
     lookup tid (alive st) = None /\ alive st' = alive st ++ [(tid, s)] /\ s = nadd st /\
     forall u x, u < born st -> nth_error (subs st) u = Some x -> ~ In u (map snd (alive st)) ->
                 sph x = Returned /\ sclosed x = true) /\
  (forall r c st' a, lp st = L_rm r -> step st 0 c = Some (st', a) ->
     match lp st' with
     | L_rm r' => rm_tgt r' = rm_tgt r
     | L_store => exists x, r = RmClose (rm_tgt r) /\ nth_error (subs st') (rm_tgt r) = Some x /\
                            sph x = Returned /\ sclosed x = true
     | _ => False
     end).
Proof.
  intros F adds cl st HR. pose proof (reachable_inv F _ _ _ HR) as HI.
  split; [exact (I_nd1 _ HI)|]. split; [exact (I_nd2 _ HI)|]. split.
  - intros c st' tid s H. rewrite (step_is F) in H. apply stepP_tstep in H.
    exact (store_is_fresh _ _ _ _ _ HI H).
  - intros r c st' a El H. rewrite (step_is F) in H. apply stepP_tstep in H.
    exact (remove_completes_before_store _ _ _ _ _ HI El H).
Qed.

(* 5. when close() has returned (the listener passed self.join because run() ended)
      _alive is empty and every sub-server thread has returned and is closed *)
Theorem close_drains : registry_source_facts = true ->
  forall adds cl st, reachable adds cl st -> lp st = L_end -> lclose st = true ->
  rp st = R_end /\ alive st = [] /\ nadd st = length (subs st) /\
  forall x, In x (subs st) -> sph x = Returned /\ sclosed x = true.
Proof.
  intros F adds cl st HR El Hc. exact (closed_drained st (reachable_inv F _ _ _ HR) El Hc).
Qed.

(* 6. the listener: every step of its own lowers lam (at most 12 per add), and whenever
      it cannot move it can again within S (phi6 st) fair rounds, phi6 = what is left of
      the lock holder's section (5 per transfer being removed ...) plus the distance of
      the sub-server threads from having returned *)
Theorem listener_progress : registry_source_facts = true ->
  forall adds cl st, reachable adds cl st ->
  (forall c st' a, step st 0 c = Some (st', a) -> lam st' < lam st) /\
  lam st <= 12 * length (ladds st) + 15 /\
  (lp st <> L_end -> forall sch, rounds (nthreads st) (S (phi6 st)) sch ->
     exists pre suf st' a, sch = pre ++ suf /\ step (run st pre) 0 0 = Some (st', a)).
Proof.
  intros F adds cl st HR. pose proof (reachable_inv F _ _ _ HR) as HI. split; [|split].
  - intros c st' a H. rewrite (step_is F) in H. apply stepP_tstep in H.
    exact (lstep_lam _ _ _ _ (I_lp _ HI) H).
  - unfold lam. pose proof (I_lp _ HI) as HL. unfold lp_ok in HL.
    destruct (lp st); try lia; destruct (ladds st); cbn [tl length lk rmrank]; try lia;
      try (destruct r; cbn [rmrank]; lia).
  - intros Hne sch Hr. destruct (listener_progress_inv st sch HI Hne Hr) as (pre & suf & E & st' & a & H).
    exists pre, suf, st', a. split; [exact E|]. rewrite (step_is F), (run_is F).
    apply stepP_tstep. exact H.
Qed.
