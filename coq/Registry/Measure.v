(* Ranks of the three kinds of threads, used by the progress theorems.
   subrank / sigma : how far the sub-server threads are from having returned
                     (constant while a thread that has not been asked to shut down
                     goes round its poll loop);
   lam             : remaining steps of the listener (12 per add still to do);
   pr              : remaining steps of the reaper inside its current pass. *)
From Coq Require Import List Arith Bool Lia.
From NV Require Import Gen.Registry Registry.Model Registry.Inv Registry.ProofsLocal.
Import ListNotations.

Definition subrank (x : sub) : nat :=
  match sph x with
  | NotStarted => 8 | SClear => 7
  | STest | SPoll => if sreq x then 4 else 6
  | SHandle => if sreq x then 5 else 6
  | SFin1 => 3 | SFin2 => 2 | SExit => 1 | Returned => 0
  | SSelfReq => 10 | SSelfWait => 9
  end.
Fixpoint sigma (l : list sub) : nat :=
  match l with [] => 0 | x :: r => subrank x + sigma r end.
(* going round the poll loop without a shutdown request *)
Definition neutral (x : sub) : bool :=
  match sph x with STest | SPoll | SHandle => negb (sreq x) | _ => false end.

Lemma sigma_upd : forall l i x x', nth_error l i = Some x ->
  sigma (upd l i x') + subrank x = sigma l + subrank x'.
Proof.
  induction l as [|y l IH]; intros [|i] x x' H; simpl in *; try discriminate.
  - inversion H; subst. lia.
  - specialize (IH i x x' H). lia.
Qed.

Lemma sstep_rank : forall x c x' a, sstep false x c = SubNext x' a ->
  (neutral x = false -> subrank x' < subrank x) /\
  (neutral x = true -> subrank x' = subrank x /\ sevt x' = sevt x /\
                       is_ret (sph x') = false /\ is_ret (sph x) = false).
Proof.
  intros [p d q e cl] c x' a H. unfold sstep in H. simpl in H.
  destruct p; simpl in *; try discriminate;
    try (destruct c as [|[|c]]); try (destruct q); try (destruct e); inversion H; subst; clear H;
    unfold neutral, subrank; simpl; split; intros N; try discriminate; try lia; auto.
Qed.

Lemma sstep_any_c : forall x c, (exists x' a, sstep false x 0 = SubNext x' a) ->
  exists x' a, sstep false x c = SubNext x' a.
Proof.
  intros [p d q e cl] c (x' & a & H). unfold sstep in *. simpl in *.
  destruct p; try discriminate; try (destruct c as [|[|c]]); try (destruct e); eauto; discriminate.
Qed.

Lemma rm_step_sigma : forall ss r c ss' k a, rm_step ss r c = RmNext ss' k a -> sigma ss' <= sigma ss.
Proof.
  intros ss r c ss' k a H. destruct r as [s|s|s|s]; simpl in H;
    destruct (nth_error ss s) as [x|] eqn:E; try discriminate.
  - inversion H; subst.
    pose proof (sigma_upd ss s x (mkSub (sph x) (sdone x) true (sevt x) (sclosed x)) E) as U.
    assert (subrank (mkSub (sph x) (sdone x) true (sevt x) (sclosed x)) <= subrank x).
    { unfold subrank. simpl. destruct (sph x), (sreq x); lia. }
    lia.
  - destruct (sevt x); inversion H; subst. lia.
  - destruct (sph x); try (destruct c; discriminate). inversion H; subst. lia.
  - inversion H; subst.
    pose proof (sigma_upd ss s x (mkSub (sph x) (sdone x) (sreq x) (sevt x) true) E) as U.
    unfold subrank in *. simpl in *. lia.
Qed.

(* ---------------------------------------------------------------- listener *)
Definition rmrank (r : rm) : nat :=
  match r with RmShut _ => 4 | RmWait _ => 3 | RmJoin _ => 2 | RmClose _ => 1 end.
Definition lk (p : lpc) : nat :=
  match p with
  | L_idle => 12 | L_lock => 11 | L_pop => 10 | L_rm r => 5 + rmrank r
  | L_store => 5 | L_rel => 4 | L_start => 3 | _ => 0
  end.
Definition lam (st : state) : nat :=
  match lp st with
  | L_cset => 2 | L_cjoin => 1 | L_end => 0
  | p => 12 * length (tl (ladds st)) + 3 + lk p
  end.

Lemma rm_step_rank : forall ss r c ss' r' a, rm_step ss r c = RmNext ss' (Some r') a ->
  rmrank r' < rmrank r.
Proof.
  intros ss r c ss' r' a H. destruct r as [s|s|s|s]; simpl in H;
    destruct (nth_error ss s) as [z|]; try discriminate.
  all: try (destruct (sevt z)); try (destruct (sph z)); try (destruct c);
    try discriminate; inversion H; simpl; lia.
Qed.

Lemma lstep_lam : forall st c st' a, lp_ok st -> lstep st c = Next st' a -> lam st' < lam st.
Proof.
  intros st c st' a HL H. unfold lp_ok in HL. unfold lstep in H. unfold lam.
  destruct (lp st) eqn:Elp;
    repeat (match type of H with context [match ?x with _ => _ end] => destruct x eqn:? end;
            try discriminate H);
    inversion H; subst; clear H; ssimpl; rw_pcs; cbn [lk tl length rmrank]; try lia.
  - match goal with E : rm_step _ _ _ = RmNext _ (Some _) _ |- _ =>
      pose proof (rm_step_rank _ _ _ _ _ _ E) end. lia.
  - destruct r; cbn [rmrank]; lia.
  - destruct (tl (ladds st)) as [|t2 l]; destruct (lclose st); cbn [next_lp tl length]; lia.
Qed.

(* ---------------------------------------------------------------- reaper *)
(* N = number of sub-servers of the run, A = current size of _alive *)
Definition pr (N A : nat) (p : rpc) : nat :=
  match p with
  | R_wait => 7 * N + 5
  | R_lock => 7 * N + 4
  | R_iter => 7 * N + 3
  | R_scan i acc => 6 * (A - i) + 5 * length acc + 1
  | R_pick acc => 5 * length acc + 1
  | R_rm r rest => 5 * length rest + 1 + rmrank r
  | R_rel => 1
  | R_dlock => 7 * N + 3
  | R_dtest => 7 * A + 2
  | R_dnext => 7 * A + 1
  | R_dpop _ => 7 * A
  | R_drm r => 7 * A + 2 + rmrank r
  | R_drel => 1
  | R_end | R_dead => 0
  end.

Lemma pr_after_pick : forall N A l, pr N A (after_pick l) <= 5 * length l + 1.
Proof. intros N A [|x l]; simpl; lia. Qed.

Lemma alive_le : forall st, Inv st -> length (alive st) <= length (subs st).
Proof.
  intros st HI. pose proof (I_nd2 _ HI) as H2. pose proof (I_born _ HI) as HB.
  pose proof (I_len _ HI) as HN. pose proof (I_lp _ HI) as HL.
  rewrite <- (map_length snd).
  rewrite <- (seq_length (length (subs st)) 0).
  apply NoDup_incl_length; [exact H2|].
  intros u Hu. apply in_seq. specialize (HB u Hu).
  assert (born st <= length (subs st)).
  { unfold born, lp_ok in *. destruct (lp st); try lia; destruct HL as [Ha _];
      destruct (ladds st); simpl in *; try congruence; lia. }
  lia.
Qed.
Lemma length_remove_nth : forall k (l : list nat), k < length l -> length (remove_nth k l) + 1 = length l.
Proof.
  intros k l H. unfold remove_nth. rewrite app_length, firstn_length, skipn_length. lia.
Qed.
Lemma remove_absent : forall tid a, ~ In tid (map fst a) -> remove_tid tid a = a.
Proof.
  induction a as [|[t u] a IH]; simpl; intros H; [reflexivity|].
  destruct (Nat.eqb t tid) eqn:E; simpl.
  - apply Nat.eqb_eq in E. subst. tauto.
  - f_equal. apply IH. tauto.
Qed.
Lemma length_remove_found : forall a tid s, NoDup (map fst a) -> lookup tid a = Some s ->
  length (remove_tid tid a) + 1 = length a.
Proof.
  induction a as [|[t u] a IH]; intros tid s Hn H; [discriminate|].
  simpl in Hn. apply NoDup_cons_iff in Hn. destruct Hn as [Hnot Hnd].
  unfold lookup in H. simpl in *.
  destruct (Nat.eqb t tid) eqn:E; simpl.
  - apply Nat.eqb_eq in E. subst t. rewrite (remove_absent _ _ Hnot). lia.
  - specialize (IH tid s Hnd H). lia.
Qed.

(* every step of the reaper except the wrap-around R_rel -> R_wait lowers pr *)
Lemma rstep_pr : forall st c st' a, Inv st -> rstep st c = Next st' a -> rp st <> R_rel ->
  pr (length (subs st')) (length (alive st')) (rp st') <
  pr (length (subs st)) (length (alive st)) (rp st).
Proof.
  intros st c st' a HI H Hrel. pose proof (alive_le _ HI) as HA. pose proof (I_rp _ HI) as HR.
  pose proof (I_nd1 _ HI) as H1.
  unfold rp_ok in HR. unfold rstep in H.
  destruct (rp st) eqn:Erp; try congruence;
    repeat (match type of H with context [match ?x with _ => _ end] => destruct x eqn:? end;
            try discriminate H);
    inversion H; subst; clear H; ssimpl; simpl in HR; cbn [pr rmrank]; try lia.
  all: try (match goal with E : rm_step _ _ _ = RmNext _ _ _ |- _ =>
              rewrite (rm_step_length _ _ _ _ _ _ E) end).
  all: try (match goal with E : rm_step _ _ _ = RmNext _ (Some _) _ |- _ =>
              pose proof (rm_step_rank _ _ _ _ _ _ E); lia end).
  - rewrite Heql in *. cbn [length] in *. lia.
  - destruct HR as (Hi & _). rewrite app_length. cbn [length].
    match goal with E : (S i <? _) = true |- _ => apply Nat.ltb_lt in E end. lia.
  - destruct HR as (Hi & _).
    pose proof (pr_after_pick (length (subs st)) (length (alive st)) (acc ++ [n])) as Q.
    rewrite app_length in Q. cbn [length] in Q. lia.
  - destruct HR as (Hi & _).
    pose proof (pr_after_pick (length (subs st)) (length (alive st)) acc) as Q. lia.
  - destruct HR as (Hne & _).
    assert (Hlt : c mod length acc < length acc).
    { apply Nat.mod_upper_bound. destruct acc; [congruence|simpl; lia]. }
    pose proof (length_remove_nth _ _ Hlt). lia.
  - pose proof (pr_after_pick (length (subs st)) (length (alive st)) rest). destruct r; cbn [rmrank]; lia.
  - rewrite Heql. cbn [length]. lia.
  - rewrite Heql. cbn [length]. lia.
  - pose proof (length_remove_found _ _ _ H1 Heqo). lia.
  - destruct HR as [_ HR]. congruence.
  - destruct r; cbn [rmrank]; lia.
Qed.
