(* finished_is_reaped: a registered sub-server whose done flag is set is removed
   within phi(st) fair rounds; afterwards its thread has returned, its source is
   closed and it is no longer in _alive. *)
From Coq Require Import List Arith Bool Lia.
From NV Require Import Gen.Registry Registry.Model Registry.Inv Registry.ProofsLocal Registry.ProofsInv
  Registry.Measure Registry.ProofsSafe Registry.Fair.
Import ListNotations.

Lemma rpc_eq_rel : forall p, p = R_rel \/ p <> R_rel.
Proof. destruct p; try (right; discriminate). left; reflexivity. Qed.

Section Reap.
  Variable s : nat.     (* the sub-server we follow *)

  Definition reapedb (st : state) : bool :=
    match stage_of st s with Reaped => true | _ => false end.
  Definition inb (a : list (nat * nat)) : bool := existsb (fun e => Nat.eqb (snd e) s) a.
  Definition rlookup (a : list (nat * nat)) : option nat :=
    match find (fun e => Nat.eqb (snd e) s) a with Some e => Some (fst e) | None => None end.
  (* will the pass of the reaper that is under way remove s? *)
  Definition caught (st : state) : bool :=
    match rlookup (alive st) with
    | None => true
    | Some tid =>
      match rp st with
      | R_scan i acc => inb (skipn i (alive st)) || mem tid acc
      | R_pick acc => mem tid acc
      | R_rm _ rest => mem tid rest
      | R_rel => false
      | _ => true
      end
    end.
  Definition P0 (st : state) : nat := 7 * length (subs st) + 5.
  Definition rho (st : state) : nat :=
    pr (length (subs st)) (length (alive st)) (rp st) + if caught st then 0 else P0 st.
  Definition phi (st : state) : nat := lam st + rho st + sigma (subs st).
  Definition Pd (st : state) : Prop :=
    Inv st /\ s < born st /\ exists x, nth_error (subs st) s = Some x /\ sdone x = true.

  (* ---------------------------------------------------------------- rlookup *)
  Lemma rlookup_None : forall a, rlookup a = None <-> ~ In s (map snd a).
  Proof.
    intros a. unfold rlookup. split.
    - intros H Hin. apply in_map_iff in Hin. destruct Hin as ([t u] & E & Hin). simpl in E. subst u.
      destruct (find _ a) eqn:F; [discriminate|].
      pose proof (find_none _ _ F _ Hin) as Q. simpl in Q. rewrite Nat.eqb_refl in Q. discriminate.
    - intros H. destruct (find _ a) as [[t u]|] eqn:F; [|reflexivity].
      apply find_some in F. destruct F as [Hin E]. simpl in E. apply Nat.eqb_eq in E. subst u.
      exfalso. apply H. apply in_map_iff. exists (t, s). auto.
  Qed.
  Lemma rlookup_In : forall a tid, rlookup a = Some tid -> In (tid, s) a.
  Proof.
    intros a tid H. unfold rlookup in H. destruct (find _ a) as [[t u]|] eqn:F; [|discriminate].
    apply find_some in F. destruct F as [Hin E]. simpl in *. apply Nat.eqb_eq in E.
    inversion H; subst. exact Hin.
  Qed.
  Lemma In_rlookup : forall a tid, NoDup (map snd a) -> In (tid, s) a -> rlookup a = Some tid.
  Proof.
    induction a as [|[t u] a IH]; intros tid Hn Hin; [contradiction|].
    simpl in Hn. apply NoDup_cons_iff in Hn. destruct Hn as [Hnot Hnd].
    unfold rlookup. simpl. destruct Hin as [E|Hin].
    - inversion E; subst. rewrite Nat.eqb_refl. reflexivity.
    - destruct (Nat.eqb u s) eqn:Eu.
      + apply Nat.eqb_eq in Eu. subst u. exfalso. apply Hnot. apply in_map_iff. exists (tid, s). auto.
      + apply (IH tid Hnd Hin).
  Qed.
  Lemma inb_In : forall a, inb a = true <-> In s (map snd a).
  Proof.
    intros a. unfold inb. rewrite existsb_exists. split.
    - intros ([t u] & Hin & E). simpl in E. apply Nat.eqb_eq in E. subst u.
      apply in_map_iff. exists (t, s). auto.
    - intros H. apply in_map_iff in H. destruct H as ([t u] & E & Hin). simpl in E. subst u.
      exists (t, s). split; [exact Hin|]. simpl. apply Nat.eqb_refl.
  Qed.
  Lemma skipn_nth : forall {A} (l : list A) i e, nth_error l i = Some e ->
    skipn i l = e :: skipn (S i) l.
  Proof.
    induction l; intros [|i] e H; simpl in *; try discriminate.
    - inversion H; reflexivity.
    - apply IHl. exact H.
  Qed.
  Lemma mem_app_l : forall x l l', mem x l = true -> mem x (l ++ l') = true.
  Proof. intros. unfold mem in *. rewrite existsb_app, H. reflexivity. Qed.
  Lemma mem_remove_nth : forall x k l, mem x l = true -> x <> nth k l 0 -> mem x (remove_nth k l) = true.
  Proof.
    intros x k l H Hne. apply mem_In in H. apply mem_In. unfold remove_nth.
    revert k Hne. induction l as [|y l IH]; intros k Hne; [contradiction|].
    destruct k as [|k]; simpl in *.
    - destruct H as [H|H]; [congruence|exact H].
    - destruct H as [H|H]; [left; exact H|right; apply IH; assumption].
  Qed.
  Lemma rlookup_remove_other : forall a tid t, NoDup (map fst a) -> NoDup (map snd a) ->
    rlookup a = Some tid -> t <> tid -> rlookup (remove_tid t a) = Some tid.
  Proof.
    intros a tid t H1 H2 H Hne. apply rlookup_In in H. apply In_rlookup.
    - apply NoDup_map_filter. exact H2.
    - apply In_remove_tid. split; [exact H|simpl; congruence].
  Qed.
  Lemma rlookup_remove_same : forall a tid, NoDup (map fst a) -> NoDup (map snd a) ->
    rlookup a = Some tid -> rlookup (remove_tid tid a) = None.
  Proof.
    intros a tid H1 H2 H. apply rlookup_In in H. apply rlookup_None.
    intros C. apply (snd_remove_tid a tid s s H1 H2 H) in C. tauto.
  Qed.

  Lemma rlookup_remove_none : forall a t, rlookup a = None -> rlookup (remove_tid t a) = None.
  Proof.
    intros a t H. apply rlookup_None in H. apply rlookup_None. intros C. apply H.
    eapply In_snd_remove; eauto.
  Qed.

  Lemma after_pick_snoc : forall acc n, after_pick (acc ++ [n]) = R_pick (acc ++ [n]).
  Proof. intros [|y acc] n; reflexivity. Qed.

  Lemma caught_mono : forall st c st' a, Pd st -> rstep st c = Next st' a -> rp st <> R_rel ->
    caught st = true -> caught st' = true.
  Proof.
    intros st c st' a (HI & Hb & x & Hx & Hd) H Hrel Hc.
    pose proof (I_rp _ HI) as HR. pose proof (I_nd1 _ HI) as H1. pose proof (I_nd2 _ HI) as H2.
    unfold rp_ok in HR. unfold rstep in H. unfold caught in *.
    destruct (rp st) eqn:Erp; try congruence;
      repeat (match type of H with context [match ?x with _ => _ end] => destruct x eqn:? end;
              try discriminate H);
      inversion H; subst; clear H; ssimpl; simpl in HR;
      try (destruct (rlookup (alive st)); reflexivity).
    - rewrite Heql. reflexivity.
    - destruct (rlookup (alive st)) as [tid|] eqn:Er; [|reflexivity].
      apply rlookup_In in Er. simpl skipn.
      assert (Q : inb (alive st) = true) by (apply inb_In; apply in_map_iff; exists (tid, s); auto).
      rewrite Q. reflexivity.
    - destruct (rlookup (alive st)) as [tid|] eqn:Er; [|reflexivity].
      rewrite (skipn_nth _ _ _ Heqo) in Hc. unfold inb in Hc; cbn [existsb snd] in Hc; fold (inb (skipn (S i) (alive st))) in Hc.
      destruct (Nat.eqb n0 s) eqn:En.
      + apply Nat.eqb_eq in En. subst n0.
        rewrite (In_rlookup _ n H2 (nth_error_In _ _ Heqo)) in Er. inversion Er; subst.
        rewrite mem_app_one, Nat.eqb_refl, !orb_true_r. reflexivity.
      + cbn [orb] in Hc. apply orb_true_iff in Hc. destruct Hc as [Q|Q]; rewrite ?Q; [reflexivity|].
        rewrite (mem_app_l _ _ _ Q). apply orb_true_r.
    - destruct (rlookup (alive st)) as [tid|] eqn:Er; [|reflexivity].
      rewrite (skipn_nth _ _ _ Heqo) in Hc. unfold inb in Hc; cbn [existsb snd] in Hc; fold (inb (skipn (S i) (alive st))) in Hc.
      destruct (Nat.eqb n0 s) eqn:En.
      + apply Nat.eqb_eq in En. subst n0. rewrite Hx in *. congruence.
      + cbn [orb] in Hc. exact Hc.
    - destruct (rlookup (alive st)) as [tid|] eqn:Er; [|reflexivity].
      rewrite (skipn_nth _ _ _ Heqo) in Hc. unfold inb in Hc; cbn [existsb snd] in Hc; fold (inb (skipn (S i) (alive st))) in Hc.
      match goal with Q : (S i <? _) = false |- _ => apply Nat.ltb_ge in Q; rewrite (skipn_all2 _ Q) in Hc end.
      cbn [inb existsb orb] in Hc.
      rewrite after_pick_snoc. destruct (Nat.eqb n0 s) eqn:En.
      + apply Nat.eqb_eq in En. subst n0.
        rewrite (In_rlookup _ n H2 (nth_error_In _ _ Heqo)) in Er. inversion Er; subst.
        rewrite mem_app_one, Nat.eqb_refl, orb_true_r. reflexivity.
      + rewrite orb_false_r in Hc. cbn [orb] in Hc. apply mem_app_l. exact Hc.
    - destruct (rlookup (alive st)) as [tid|] eqn:Er; [|reflexivity].
      rewrite (skipn_nth _ _ _ Heqo) in Hc. unfold inb in Hc; cbn [existsb snd] in Hc; fold (inb (skipn (S i) (alive st))) in Hc.
      match goal with Q : (S i <? _) = false |- _ => apply Nat.ltb_ge in Q; rewrite (skipn_all2 _ Q) in Hc end.
      cbn [inb existsb orb] in Hc.
      destruct (Nat.eqb n0 s) eqn:En.
      + apply Nat.eqb_eq in En. subst n0. rewrite Hx in *. congruence.
      + rewrite orb_false_r in Hc. cbn [orb] in Hc. destruct acc as [|y acc]; [discriminate|]. exact Hc.
    - destruct HR as (Hne & Ha & Hk).
      destruct (rlookup (alive st)) as [tid|] eqn:Er.
      + destruct (Nat.eq_dec (nth (c mod length acc) acc 0) tid) as [E|E].
        * rewrite E. rewrite (rlookup_remove_same _ _ H1 H2 Er). reflexivity.
        * rewrite (rlookup_remove_other _ _ _ H1 H2 Er E). apply mem_remove_nth; [exact Hc|congruence].
      + rewrite (rlookup_remove_none _ _ Er). reflexivity.
    - exact Hc.
    - destruct (rlookup (alive st)) as [tid|] eqn:Er; [|reflexivity].
      destruct rest as [|y rest]; [discriminate|]. exact Hc.
    - destruct (rlookup (remove_tid _ _)); reflexivity.
  Qed.

  Lemma tstep_len : forall st i c st' a, tstep false st i c = Next st' a ->
    length (subs st') = length (subs st).
  Proof.
    intros st i c st' a H. inv_step H; ssimpl; rewrite ?upd_length; try reflexivity.
    all: match goal with E : rm_step _ _ _ = RmNext _ _ _ |- _ =>
           exact (rm_step_length _ _ _ _ _ _ E) end.
  Qed.

  Lemma live_or_reaped : forall st, Inv st -> s < born st -> rm_of st = None -> reapedb st = false ->
    exists tid, rlookup (alive st) = Some tid.
  Proof.
    intros st HI Hb Hr Hg. unfold reapedb, stage_of, stage_fn in Hg. rewrite Hr in Hg.
    destruct (mem s (map snd (alive st))) eqn:Em.
    - apply mem_In in Em. destruct (rlookup (alive st)) eqn:E; [eauto|].
      apply rlookup_None in E. contradiction.
    - apply Nat.ltb_lt in Hb. rewrite Hb in Hg. discriminate.
  Qed.

  Lemma rho_dec : forall st c st' a, Pd st -> reapedb st = false -> rstep st c = Next st' a ->
    rho st' < rho st.
  Proof.
    intros st c st' a HP Hg H. pose proof HP as (HI & Hb & x & Hx & Hd).
    assert (Hlen : length (subs st') = length (subs st)) by (apply (tstep_len st 1 c st' a); exact H).
    unfold rho, P0. rewrite Hlen.
    destruct (rpc_eq_rel (rp st)) as [Erel|Nrel].
    - assert (Hro : rm_of st = None).
      { pose proof (I_excl _ HI) as HX. unfold rm_of. rewrite Erel in *.
        destruct (lp st); simpl in HX; try (specialize (HX eq_refl); discriminate); reflexivity. }
      destruct (live_or_reaped st HI Hb Hro Hg) as (tid & Et).
      unfold rstep in H. rewrite Erel in H. inversion H; subst. unfold caught. ssimpl.
      rewrite Et, Erel. cbn [pr]. lia.
    - pose proof (rstep_pr _ _ _ _ HI H Nrel) as Hpr. rewrite Hlen in Hpr.
      destruct (caught st) eqn:Ec.
      + rewrite (caught_mono _ _ _ _ HP H Nrel Ec). lia.
      + destruct (caught st'); lia.
  Qed.

  Lemma lstep_rho : forall st c st' a, Inv st -> lstep st c = Next st' a -> rho st' = rho st.
  Proof.
    intros st c st' a HI H. pose proof (I_excl _ HI) as HX.
    assert (Hlen : length (subs st') = length (subs st)) by (apply (tstep_len st 0 c st' a); exact H).
    unfold rho, P0, caught. rewrite Hlen. unfold lstep in H.
    destruct (lp st) eqn:Elp;
      repeat (match type of H with context [match ?x with _ => _ end] => destruct x eqn:? end;
              try discriminate H);
      inversion H; subst; clear H; ssimpl; try reflexivity; try (rw_pcs; reflexivity).
    all: specialize (HX eq_refl); destruct (rp st); simpl in HX; try discriminate; cbn [pr];
      destruct (rlookup _), (rlookup _); reflexivity.
  Qed.

  Lemma not_started_nadd : forall st x, Inv st -> nth_error (subs st) (nadd st) = Some x ->
    sph x = NotStarted.
  Proof.
    intros st x HI Hx. pose proof (I_subs _ HI _ _ Hx) as HS. unfold sub_okb in HS.
    apply andb_true_iff in HS. destruct HS as [HS _]. rewrite Nat.ltb_irrefl in HS.
    destruct (sph x); simpl in HS; try discriminate. reflexivity.
  Qed.

  Lemma lstep_sigma : forall st c st' a, Inv st -> lstep st c = Next st' a ->
    sigma (subs st') <= sigma (subs st).
  Proof.
    intros st c st' a HI H. unfold lstep in H.
    destruct (lp st) eqn:Elp;
      repeat (match type of H with context [match ?x with _ => _ end] => destruct x eqn:? end;
              try discriminate H);
      inversion H; subst; clear H; ssimpl; try lia.
    - eapply rm_step_sigma; eauto.
    - eapply rm_step_sigma; eauto.
    - match goal with E : nth_error _ _ = Some ?x |- _ =>
        pose proof (sigma_upd _ _ _ (mkSub SClear (sdone x) (sreq x) (sevt x) (sclosed x)) E) as U;
        pose proof (not_started_nadd _ _ HI E) as Q end.
      unfold subrank in U. cbn [sph] in U. rewrite Q in U. lia.
  Qed.

  Lemma rm_step_flags : forall ss r c ss' k a u x, rm_step ss r c = RmNext ss' k a ->
    nth_error ss u = Some x ->
    exists x', nth_error ss' u = Some x' /\ sdone x' = sdone x /\ (sclosed x = true -> sclosed x' = true).
  Proof.
    intros ss r c ss' k a u x H Hx. destruct r as [t|t|t|t]; simpl in H;
      destruct (nth_error ss t) as [z|] eqn:E; try discriminate.
    - inversion H; subst. destruct (Nat.eq_dec t u) as [Et|Et].
      + subst. rewrite nth_upd_same by (apply nth_error_Some; congruence).
        rewrite E in Hx. inversion Hx; subst. eexists. split; [reflexivity|]. simpl. auto.
      + rewrite nth_upd_other by assumption. eauto.
    - destruct (sevt z); inversion H; subst. eauto.
    - destruct (sph z); try (destruct c; discriminate). inversion H; subst. eauto.
    - inversion H; subst. destruct (Nat.eq_dec t u) as [Et|Et].
      + subst. rewrite nth_upd_same by (apply nth_error_Some; congruence).
        rewrite E in Hx. inversion Hx; subst. eexists. split; [reflexivity|]. simpl. auto.
      + rewrite nth_upd_other by assumption. eauto.
  Qed.
  Lemma sstep_flags : forall x c x' a, sstep false x c = SubNext x' a ->
    (sdone x = true -> sdone x' = true) /\ sclosed x' = sclosed x.
  Proof.
    intros [p d q e cl] c x' a H. unfold sstep in H. simpl in H.
    destruct p; simpl in *; try discriminate;
      try (destruct c as [|[|c]]); try (destruct q); try (destruct e); inversion H; subst; simpl; auto.
  Qed.

  Lemma flags_mono : forall st i c st' a u x, tstep false st i c = Next st' a ->
    nth_error (subs st) u = Some x ->
    exists x', nth_error (subs st') u = Some x' /\ (sdone x = true -> sdone x' = true) /\
               (sclosed x = true -> sclosed x' = true).
  Proof.
    intros st i c st' a u x H Hx. inv_step H; ssimpl; eauto.
    all: try (match goal with E : rm_step _ _ _ = RmNext _ _ _ |- _ =>
                destruct (rm_step_flags _ _ _ _ _ _ _ _ E Hx) as (x' & A & B & C);
                exists x'; rewrite B; auto end).
    - destruct (Nat.eq_dec (nadd st) u) as [Et|Et].
      + subst. rewrite nth_upd_same by (apply nth_error_Some; congruence).
        rewrite Heqo in Hx. inversion Hx; subst. eexists. split; [reflexivity|]. simpl. auto.
      + rewrite nth_upd_other by assumption. eauto.
    - destruct (Nat.eq_dec k u) as [Et|Et].
      + subst. rewrite nth_upd_same by (apply nth_error_Some; congruence).
        rewrite Heqo in Hx. inversion Hx; subst. eexists. split; [reflexivity|].
        match goal with Q : sstep _ _ _ = SubNext _ _ |- _ => destruct (sstep_flags _ _ _ _ Q) as [A B] end.
        rewrite B. auto.
      + rewrite nth_upd_other by assumption. eauto.
  Qed.

  Lemma born_mono : forall st i c st' a, tstep false st i c = Next st' a -> born st <= born st'.
  Proof.
    intros st i c st' a H. unfold born. inv_step H; ssimpl; rw_pcs; rewrite ?born_next_lp; lia.
  Qed.

  Lemma Pd_step : forall st i c st' a, Pd st -> stepP false st i c = Some (st', a) -> Pd st'.
  Proof.
    intros st i c st' a (HI & Hb & x & Hx & Hd) H. apply stepP_tstep in H.
    split; [eapply step_inv; eauto|]. split.
    - pose proof (born_mono _ _ _ _ _ H). lia.
    - destruct (flags_mono _ _ _ _ _ _ _ H Hx) as (x' & A & B & _). eauto.
  Qed.

  (* once reaped, always reaped: a closed source is never re-opened and only
     sub-servers with an open source are registered or being removed *)
  Lemma reaped_stable : forall st i c st' a, Inv st -> s < born st -> reapedb st = true ->
    tstep false st i c = Next st' a -> reapedb st' = true.
  Proof.
    intros st i c st' a HI Hb Hg H. pose proof (step_inv _ _ _ _ _ HI H) as HI'.
    pose proof (born_le_len _ HI) as Hl.
    destruct (nth_error (subs st) s) as [x|] eqn:Hx; [|apply nth_error_None in Hx; lia].
    pose proof (I_subs _ HI _ _ Hx) as HS. unfold reapedb in Hg.
    destruct (stage_of st s) eqn:Est; try discriminate.
    destruct (okb_reaped _ _ HS) as [_ Hc].
    destruct (flags_mono _ _ _ _ _ _ _ H Hx) as (x' & Hx' & _ & C). specialize (C Hc).
    pose proof (I_subs _ HI' _ _ Hx') as HS'. unfold reapedb.
    pose proof (born_mono _ _ _ _ _ H) as Hbm.
    destruct (stage_of st' s) eqn:Est'; try reflexivity; exfalso;
      unfold sub_okb in HS'; apply andb_true_iff in HS'; destruct HS' as [_ HS'].
    - rewrite C in HS'. rewrite !andb_false_r in HS'. discriminate.
    - rewrite C in HS'. rewrite !andb_false_r in HS'. discriminate.
    - destruct r; rewrite C in HS'; simpl in HS'; rewrite ?andb_false_r in HS'; discriminate.
  Qed.

  Lemma rstep_frame : forall st c st' a, rstep st c = Next st' a ->
    lam st' = lam st /\ sigma (subs st') <= sigma (subs st).
  Proof.
    intros st c st' a H. unfold lam. unfold rstep in H.
    destruct (rp st) eqn:Erp;
      repeat (match type of H with context [match ?x with _ => _ end] => destruct x eqn:? end;
              try discriminate H);
      inversion H; subst; clear H; ssimpl; split; try reflexivity; try lia.
    all: eapply rm_step_sigma; eauto.
  Qed.

  Lemma rm_en_frame : forall ss r t x x', (exists ss' k a, rm_step ss r 0 = RmNext ss' k a) ->
    nth_error ss t = Some x -> sevt x' = sevt x -> is_ret (sph x') = false -> is_ret (sph x) = false ->
    exists ss' k a, rm_step (upd ss t x') r 0 = RmNext ss' k a.
  Proof.
    intros ss r t x x' (ss' & k & a & H) Hx He Hr' Hr.
    assert (Hlt : t < length ss) by (apply nth_error_Some; congruence).
    destruct r as [u|u|u|u]; simpl in *; destruct (Nat.eq_dec t u) as [E|E];
      try (subst u; rewrite (nth_upd_same _ _ _ Hlt); rewrite Hx in H);
      try (rewrite (nth_upd_other _ _ _ _ E)).
    all: try (destruct (nth_error ss u) as [z|]; [|discriminate]).
    all: try (eauto; fail).
    - rewrite He. destruct (sevt x); [eauto|discriminate].
    - destruct (sevt z); [eauto|discriminate].
    - destruct (sph x); simpl in Hr; try discriminate.
    - destruct (sph z); try discriminate; eauto.
  Qed.

  Lemma en_frame : forall st t x x' j, nth_error (subs st) t = Some x -> sevt x' = sevt x ->
    is_ret (sph x') = false -> is_ret (sph x) = false -> j < 2 ->
    en st j -> en (set_sub st t x') j.
  Proof.
    intros st t x x' j Hx He Hr' Hr Hj (st1 & a & H).
    assert (Hlt : t < length (subs st)) by (apply nth_error_Some; congruence).
    destruct j as [|[|j]]; [| |lia]; unfold en in *; simpl in *.
    - unfold lstep in *. ssimpl.
      destruct (lp st) eqn:Elp;
        first [ solve [eauto] | solve [destruct (ladds st); [discriminate|eauto]]
              | solve [destruct (lockh st); [discriminate|eauto]]
              | solve [destruct (lookup _ _); eauto]
              | solve [destruct (rp st); try discriminate; eauto] | solve [discriminate] | idtac ].
      + destruct (rm_step (subs st) r 0) as [ss' k a0| |] eqn:E; try discriminate.
        destruct (rm_en_frame _ _ _ _ x' (ex_intro _ ss' (ex_intro _ k (ex_intro _ a0 E))) Hx He Hr' Hr)
          as (ss2 & k2 & a2 & E2). rewrite E2. eauto.
      + destruct (nth_error (subs st) (nadd st)) eqn:En; [|discriminate].
        destruct (nth_error (upd (subs st) t x') (nadd st)) eqn:En'; [eauto|].
        apply nth_error_None in En'. rewrite upd_length in En'.
        assert (nadd st < length (subs st)) by (apply nth_error_Some; congruence). lia.
    - unfold rstep in *. ssimpl.
      destruct (rp st) eqn:Erp;
        first [ solve [eauto] | solve [destruct (lockh st); [discriminate|eauto]]
              | solve [destruct (nth_error (alive st) i) as [[t0 s0]|]; eauto]
              | solve [destruct (lookup _ _); eauto]
              | solve [destruct (alive st) as [|[t0 s0] l]; eauto] | solve [discriminate] | idtac ].
      + destruct (rm_step (subs st) r 0) as [ss' k a0| |] eqn:E; try discriminate.
        destruct (rm_en_frame _ _ _ _ x' (ex_intro _ ss' (ex_intro _ k (ex_intro _ a0 E))) Hx He Hr' Hr)
          as (ss2 & k2 & a2 & E2). rewrite E2. eauto.
      + destruct (rm_step (subs st) r 0) as [ss' k a0| |] eqn:E; try discriminate.
        destruct (rm_en_frame _ _ _ _ x' (ex_intro _ ss' (ex_intro _ k (ex_intro _ a0 E))) Hx He Hr' Hr)
          as (ss2 & k2 & a2 & E2). rewrite E2. eauto.
  Qed.

  Lemma rm_any_c : forall ss r c ss' k a, rm_step ss r 0 = RmNext ss' k a ->
    rm_step ss r c = RmNext ss' k a.
  Proof.
    intros ss r c ss' k a H. destruct r as [u|u|u|u]; simpl in *; try exact H.
    destruct (nth_error ss u) as [z|]; [|discriminate]. destruct (sph z); try discriminate. exact H.
  Qed.

  Lemma en_any_c : forall st j c, j < 2 -> en st j -> exists st' a, tstep false st j c = Next st' a.
  Proof.
    intros st j c Hj (st1 & a & H). destruct j as [|[|j]]; [| |lia]; simpl in *.
    - unfold lstep in *.
      destruct (lp st) eqn:Elp;
        first [ solve [eauto] | solve [destruct (ladds st); [discriminate|eauto]]
              | solve [destruct (lockh st); [discriminate|eauto]]
              | solve [destruct (lookup _ _); eauto]
              | solve [destruct (rp st); try discriminate; eauto] | solve [discriminate]
              | solve [destruct (nth_error (subs st) (nadd st)); [eauto|discriminate]]
              | idtac ].
      all: match type of H with context [rm_step ?ss ?r0 0] =>
             destruct (rm_step ss r0 0) as [ss' k a0| |] eqn:E; try discriminate;
             rewrite (rm_any_c _ _ c _ _ _ E); eauto end.
    - unfold rstep in *.
      destruct (rp st) eqn:Erp;
        first [ solve [eauto] | solve [destruct (lockh st); [discriminate|eauto]]
              | solve [destruct (nth_error (alive st) i) as [[t0 s0]|]; eauto]
              | solve [destruct (lookup _ _); eauto]
              | solve [destruct (alive st) as [|[t0 s0] l]; eauto] | solve [discriminate]
              | solve [match goal with |- context [lookup ?u ?v] => destruct (lookup u v); eauto end]
              | idtac ].
      all: match type of H with context [rm_step ?ss ?r0 0] =>
             destruct (rm_step ss r0 0) as [ss' k a0| |] eqn:E; try discriminate;
             rewrite (rm_any_c _ _ c _ _ _ E); eauto end.
  Qed.

  Lemma good_any_c : forall st j c, good j st -> exists st' a, stepP false st j c = Some (st', a).
  Proof.
    intros st j c H.
    assert (Q : exists st' a, tstep false st j c = Next st' a).
    { destruct j as [|[|t]].
      - apply en_any_c; [lia|exact H].
      - apply en_any_c; [lia|exact H].
      - destruct H as (x & Hx & _ & Hs). destruct (sstep_any_c x c Hs) as (x' & a & E).
        simpl. rewrite Hx, E. eauto. }
    destruct Q as (st' & a & Q). exists st', a. apply stepP_tstep. exact Q.
  Qed.

  (* what one transition does to the measure *)
  Lemma phi_tstep : forall st i c st' a, Pd st -> reapedb st = false ->
    tstep false st i c = Next st' a ->
    match i with
    | S (S t) => exists x x', nth_error (subs st) t = Some x /\ st' = set_sub st t x' /\
                   sstep false x c = SubNext x' a /\
                   (neutral x = false -> phi st' < phi st) /\ (neutral x = true -> phi st' = phi st)
    | _ => phi st' < phi st
    end.
  Proof.
    intros st i c st' a HP Hg H. pose proof HP as (HI & _).
    destruct i as [|[|t]]; simpl in H.
    - pose proof (lstep_lam _ _ _ _ (I_lp _ HI) H). pose proof (lstep_rho _ _ _ _ HI H).
      pose proof (lstep_sigma _ _ _ _ HI H). unfold phi. lia.
    - destruct (rstep_frame _ _ _ _ H) as [A B]. pose proof (rho_dec _ _ _ _ HP Hg H).
      unfold phi. lia.
    - destruct (nth_error (subs st) t) as [x|] eqn:Hx; [|discriminate].
      destruct (sstep false x c) as [x' a'| |] eqn:Es; try discriminate.
      inversion H; subst. exists x, x'. repeat split; try assumption; try reflexivity.
      + intros N. destruct (sstep_rank _ _ _ _ Es) as [A _]. specialize (A N).
        pose proof (sigma_upd _ _ _ x' Hx). unfold phi, lam, rho, P0, caught. ssimpl.
        rewrite upd_length. lia.
      + intros N. destruct (sstep_rank _ _ _ _ Es) as [_ A]. destruct (A N) as [A1 _].
        pose proof (sigma_upd _ _ _ x' Hx). unfold phi, lam, rho, P0, caught. ssimpl.
        rewrite upd_length. lia.
  Qed.

  Lemma not_terminated : forall st, Pd st -> reapedb st = false -> terminatedb st = false.
  Proof.
    intros st (HI & Hb & _) Hg. unfold terminatedb.
    destruct (lp st) eqn:Elp; try reflexivity. destruct (rp st) eqn:Erp; try reflexivity.
    exfalso. pose proof (I_rp _ HI) as HR. unfold rp_ok in HR. rewrite Erp in HR. destruct HR as [_ Ha].
    assert (Hro : rm_of st = None) by (unfold rm_of; rewrite Elp, Erp; reflexivity).
    destruct (live_or_reaped st HI Hb Hro Hg) as (tid & Et). rewrite Ha in Et. discriminate.
  Qed.

  Section Inst.
    Variable n : nat.
    Let P (st : state) : Prop := Pd st /\ nthreads st = n.

    Lemma P_step : forall st i c st' a, P st -> reapedb st = false ->
      stepP false st i c = Some (st', a) -> P st'.
    Proof.
      intros st i c st' a [HP Hn] _ H. split; [eapply Pd_step; eauto|].
      apply stepP_tstep in H. unfold nthreads in *. rewrite (tstep_len _ _ _ _ _ H). exact Hn.
    Qed.

    Lemma phi_step : forall st i c st' a, P st -> reapedb st = false ->
      stepP false st i c = Some (st', a) ->
      reapedb st' = true \/ phi st' < phi st \/ (phi st' = phi st /\ forall j, good j st -> good j st').
    Proof.
      intros st i c st' a [HP Hn] Hg H. apply stepP_tstep in H.
      pose proof (phi_tstep _ _ _ _ _ HP Hg H) as Q.
      destruct i as [|[|t]]; try (right; left; exact Q).
      destruct Q as (x & x' & Hx & Est & Es & Q1 & Q2).
      destruct (neutral x) eqn:N; [|right; left; auto].
      right. right. split; [auto|]. subst st'.
      destruct (sstep_rank _ _ _ _ Es) as [_ A]. destruct (A N) as (_ & Ev & Hr' & Hr).
      intros j Hgj. destruct j as [|[|u]].
      - apply (en_frame st t x x' 0 Hx Ev Hr' Hr); [lia|exact Hgj].
      - apply (en_frame st t x x' 1 Hx Ev Hr' Hr); [lia|exact Hgj].
      - destruct Hgj as (y & Hy & Ny & Hs). destruct (Nat.eq_dec t u) as [E|E].
        + subst u. rewrite Hx in Hy. inversion Hy; subst. congruence.
        + exists y. ssimpl. rewrite nth_upd_other by assumption. auto.
    Qed.

    Lemma good_ex : forall st, P st -> reapedb st = false -> exists j, j < n /\ good j st.
    Proof.
      intros st [HP Hn] Hg. pose proof HP as (HI & _).
      destruct (progress_inv st HI) as [T|(j & Hj & G)].
      - rewrite (not_terminated st HP Hg) in T. discriminate.
      - exists j. split; [lia|exact G].
    Qed.

    Lemma good_dec : forall st j c st' a, P st -> reapedb st = false -> good j st ->
      stepP false st j c = Some (st', a) -> reapedb st' = true \/ phi st' < phi st.
    Proof.
      intros st j c st' a [HP Hn] Hg G H. apply stepP_tstep in H.
      pose proof (phi_tstep _ _ _ _ _ HP Hg H) as Q.
      destruct j as [|[|t]]; try (right; exact Q).
      destruct Q as (x & x' & Hx & Est & Es & Q1 & Q2).
      destruct G as (y & Hy & Ny & _). rewrite Hx in Hy. inversion Hy; subst. right. auto.
    Qed.

    Lemma reap_eventually : forall k sch st, rounds n k sch -> P st -> phi st < k ->
      hit reapedb st sch.
    Proof.
      apply (eventually P reapedb phi good n P_step phi_step good_ex).
      - intros st j c HP Hg G. apply good_any_c. exact G.
      - exact good_dec.
    Qed.
  End Inst.

  Lemma run_reaped : forall sch st, Inv st -> s < born st -> reapedb st = true ->
    reapedb (runP false st sch) = true.
  Proof.
    induction sch as [|[i c] sch IH]; intros st HI Hb Hg; simpl; [exact Hg|].
    destruct (stepP false st i c) as [[st' a]|] eqn:E; [|apply IH; assumption].
    apply stepP_tstep in E. apply IH.
    - eapply step_inv; eauto.
    - pose proof (born_mono _ _ _ _ _ E). lia.
    - eapply reaped_stable; eauto.
  Qed.
  Lemma run_inv : forall sch st, Inv st -> Inv (runP false st sch).
  Proof.
    induction sch as [|[i c] sch IH]; intros st HI; simpl; [exact HI|].
    destruct (stepP false st i c) as [[st' a]|] eqn:E; [|apply IH; assumption].
    apply stepP_tstep in E. apply IH. eapply step_inv; eauto.
  Qed.
  Lemma run_born : forall sch st, born st <= born (runP false st sch).
  Proof.
    induction sch as [|[i c] sch IH]; intros st; simpl; [lia|].
    destruct (stepP false st i c) as [[st' a]|] eqn:E; [|apply IH].
    apply stepP_tstep in E. pose proof (born_mono _ _ _ _ _ E). specialize (IH st'). lia.
  Qed.

  Lemma reaped_means : forall st, Inv st -> reapedb st = true ->
    ~ In s (map snd (alive st)) /\
    exists x, nth_error (subs st) s = Some x /\ sph x = Returned /\ sclosed x = true.
  Proof.
    intros st HI Hg. unfold reapedb in Hg. destruct (stage_of st s) eqn:Est; try discriminate.
    assert (Hn : ~ In s (map snd (alive st))).
    { intros C. unfold stage_of in Est. rewrite stage_live in Est by exact C. discriminate. }
    split; [exact Hn|].
    assert (Hb : s < born st).
    { unfold stage_of, stage_fn in Est. apply mem_false in Hn. rewrite Hn in Est.
      destruct (rm_of st) as [r|].
      - destruct (Nat.eqb (rm_tgt r) s); [discriminate|].
        destruct (Nat.ltb s (born st)) eqn:L; [apply Nat.ltb_lt; exact L|discriminate].
      - destruct (Nat.ltb s (born st)) eqn:L; [apply Nat.ltb_lt; exact L|discriminate]. }
    pose proof (born_le_len _ HI) as Hl.
    destruct (nth_error (subs st) s) as [x|] eqn:Hx; [|apply nth_error_None in Hx; lia].
    exists x. split; [reflexivity|]. pose proof (I_subs _ HI _ _ Hx) as HS. rewrite Est in HS.
    eapply okb_reaped; eauto.
  Qed.

  Theorem finished_is_reaped_inv : forall st sch, Pd st ->
    rounds (nthreads st) (S (phi st)) sch ->
    let st' := runP false st sch in
    ~ In s (map snd (alive st')) /\
    exists x, nth_error (subs st') s = Some x /\ sph x = Returned /\ sclosed x = true.
  Proof.
    intros st sch HP Hr st'. pose proof HP as (HI & Hb & _).
    destruct (reap_eventually (nthreads st) _ _ st Hr (conj HP eq_refl) (Nat.lt_succ_diag_r _))
      as (pre & suf & E & Hg).
    assert (G : reapedb st' = true).
    { unfold st'. rewrite E, runP_app. apply run_reaped; [apply run_inv; exact HI| |exact Hg].
      pose proof (run_born pre st). lia. }
    apply reaped_means; [apply run_inv; exact HI|exact G].
  Qed.
End Reap.
