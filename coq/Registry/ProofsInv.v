(* Preservation of the invariant by every transition of every thread. *)
From Coq Require Import List Arith Bool Lia.
From NV Require Import Gen.Registry Registry.Model Registry.Inv Registry.ProofsLocal.
Import ListNotations.

Lemma NoDup_remove_fst : forall tid a, NoDup (map fst a) -> NoDup (map fst (remove_tid tid a)).
Proof. intros. apply NoDup_map_filter. assumption. Qed.
Lemma NoDup_remove_snd : forall tid a, NoDup (map snd a) -> NoDup (map snd (remove_tid tid a)).
Proof. intros. apply NoDup_map_filter. assumption. Qed.
Lemma In_snd_remove : forall tid a s, In s (map snd (remove_tid tid a)) -> In s (map snd a).
Proof.
  intros tid a s H. apply in_map_iff in H. destruct H as (e & E & H).
  apply In_remove_tid in H. apply in_map_iff. exists e. tauto.
Qed.
Lemma NoDup_app_one : forall (l : list nat) x, NoDup l -> ~ In x l -> NoDup (l ++ [x]).
Proof.
  induction l; simpl; intros x H Hn.
  - constructor; auto.
  - inversion H; subst. constructor.
    + rewrite in_app_iff. simpl. intuition.
    + apply IHl; auto.
Qed.

Lemma step_alive : forall st i c st' a, Inv st -> tstep false st i c = Next st' a ->
  NoDup (map fst (alive st')) /\ NoDup (map snd (alive st')) /\
  (forall s, In s (map snd (alive st')) -> s < born st') /\
  length (subs st') = nadd st' + length (ladds st').
Proof.
  intros st i c st' a HI H.
  pose proof (I_lp _ HI) as HL. pose proof (I_nd1 _ HI) as H1. pose proof (I_nd2 _ HI) as H2.
  pose proof (I_born _ HI) as HB. pose proof (I_len _ HI) as HN.
  unfold lp_ok, born in *.
  inv_step H; simpl in *; rewrite ?born_next_lp, ?upd_length; rw_pcs.
  all: try (repeat split; solve [assumption | intros; apply HB; assumption]).
  all: try (repeat split;
            solve [apply NoDup_remove_fst; assumption | apply NoDup_remove_snd; assumption
                  | intros s0 Hs; apply In_snd_remove in Hs; apply HB; assumption | assumption]).
  all: try (match goal with E : rm_step _ _ _ = RmNext _ _ _ |- _ =>
              rewrite (rm_step_length _ _ _ _ _ _ E) end;
            repeat split; solve [assumption | intros; apply HB; assumption]).
  all: try (repeat split; try assumption; try (intros; apply HB; assumption); simpl; lia).
  - destruct HL as (Ha & Hd & Hk). rewrite (store_new _ _ _ Hk). rewrite !map_app. simpl.
    repeat split.
    + apply NoDup_app_one; [assumption|]. apply lookup_None. exact Hk.
    + apply NoDup_app_one; [assumption|]. intros C. apply HB in C. lia.
    + intros s Hs. apply in_app_iff in Hs. destruct Hs as [Hs|[Hs|[]]].
      * apply HB in Hs. lia.
      * lia.
    + assumption.
  - destruct (ladds st) as [|t r]; [tauto|]. simpl in *. repeat split; try assumption.
    + intros s0 Hs. apply HB in Hs. lia.
    + lia.
Qed.


Lemma firstn_S_nth : forall {A} (l : list A) i e, nth_error l i = Some e ->
  firstn (S i) l = firstn i l ++ [e].
Proof.
  induction l; intros [|i] e H; simpl in *; try discriminate.
  - inversion H; reflexivity.
  - f_equal. apply IHl. exact H.
Qed.
Lemma nth_not_in_firstn : forall (l : list (nat * nat)) i e, NoDup (map fst l) ->
  nth_error l i = Some e -> ~ In (fst e) (map fst (firstn i l)).
Proof.
  induction l; intros [|i] e Hn H; simpl in *; try discriminate; auto.
  inversion Hn; subst. intros [C|C].
  - apply H2. rewrite C. apply in_map. eapply nth_error_In; eauto.
  - eapply IHl; eauto.
Qed.
Lemma In_firstn : forall {A} (l : list A) i x, In x (firstn i l) -> In x l.
Proof.
  intros A l i x H. rewrite <- (firstn_skipn i l). apply in_app_iff. left. exact H.
Qed.
Lemma In_remove_nth : forall k l t, In t (remove_nth k l) -> In t l.
Proof.
  intros k l t H. unfold remove_nth in H. apply in_app_iff in H. destruct H as [H|H].
  - eapply In_firstn; eauto.
  - rewrite <- (firstn_skipn (S k) l). apply in_app_iff. right. exact H.
Qed.
Lemma NoDup_remove_nth : forall l k, NoDup l -> k < length l ->
  NoDup (remove_nth k l) /\ ~ In (nth k l 0) (remove_nth k l).
Proof.
  induction l as [|x l IH]; intros k Hn Hk; simpl in Hk; [lia|].
  inversion Hn; subst. destruct k as [|k]; unfold remove_nth; simpl.
  - split; assumption.
  - destruct (IH k H2 ltac:(lia)) as [A B]. unfold remove_nth in *. split.
    + constructor; [|exact A]. intros C. apply H1. apply (In_remove_nth k l x). exact C.
    + intros [C|C]; [|exact (B C)]. apply H1. rewrite C. apply nth_In. lia.
Qed.
Lemma keys_remove_other : forall t tid a, t <> tid -> lookup t a <> None ->
  lookup t (remove_tid tid a) <> None.
Proof.
  intros t tid a Hne H C. apply H. apply lookup_None. apply lookup_None in C.
  intros Hin. apply C. apply in_map_iff in Hin. destruct Hin as (e & E & Hin).
  apply in_map_iff. exists e. split; [exact E|]. apply In_remove_tid. split; [exact Hin|congruence].
Qed.
Lemma incl_keys : forall acc i (a : list (nat * nat)), incl acc (map fst (firstn i a)) -> keys_in acc a.
Proof.
  intros acc i a H t Ht C. apply lookup_None in C. apply C. apply H in Ht.
  apply in_map_iff in Ht. destruct Ht as (e & E & Ht). apply in_map_iff. exists e.
  split; [exact E|]. eapply In_firstn; eauto.
Qed.

(* one scan step keeps the accumulated set duplicate-free and inside the scanned prefix *)
Lemma scan_acc : forall (a : list (nat * nat)) i acc tid s (d : bool), NoDup (map fst a) -> nth_error a i = Some (tid, s) ->
  NoDup acc -> incl acc (map fst (firstn i a)) ->
  let acc' := if d then acc ++ [tid] else acc in
  NoDup acc' /\ incl acc' (map fst (firstn (S i) a)).
Proof.
  intros a i acc tid s d Hn Hi Ha Hinc. cbv zeta.
  rewrite (firstn_S_nth _ _ _ Hi), map_app. cbn [map fst]. destruct d.
  - split.
    + apply NoDup_app_one; [assumption|]. intros C. apply Hinc in C.
      exact (nth_not_in_firstn _ _ _ Hn Hi C).
    + intros t Ht. apply in_app_iff in Ht. apply in_app_iff. destruct Ht as [Ht|Ht]; auto.
  - split; [assumption|]. intros t Ht. apply in_app_iff. left. auto.
Qed.

Lemma after_pick_ok : forall acc al d, NoDup acc -> keys_in acc al -> rp_okp (after_pick acc) al d.
Proof. intros [|x acc] al d H K; simpl; auto. repeat split; auto. discriminate. Qed.

Lemma step_rp : forall st i c st' a, Inv st -> tstep false st i c = Next st' a -> rp_ok st'.
Proof.
  intros st i c st' a HI H.
  pose proof (I_lp _ HI) as HL. pose proof (I_excl _ HI) as HX. pose proof (I_rp _ HI) as HR.
  pose proof (I_nd1 _ HI) as H1.
  unfold lp_ok, rp_ok in *.
  inv_step H; ssimpl; rw_pcs.
  all: try (rewrite Heqr in HR).
  all: try (simpl in *; intuition (auto; congruence)).
  all: try (destruct (rp st) eqn:Erp; simpl in *; try (specialize (HX eq_refl); discriminate);
            intuition (auto; congruence)).
  - simpl. repeat split; [lia|constructor|intros x []].
  - destruct HR as (Hi & Ha & Hinc).
    match goal with E : (S i <? _) = true |- _ => apply Nat.ltb_lt in E end.
    destruct (scan_acc _ _ _ _ _ true H1 Heqo Ha Hinc) as [A B]. simpl. auto.
  - destruct HR as (Hi & Ha & Hinc).
    match goal with E : (S i <? _) = true |- _ => apply Nat.ltb_lt in E end.
    destruct (scan_acc _ _ _ _ _ false H1 Heqo Ha Hinc) as [A B]. simpl. auto.
  - destruct HR as (Hi & Ha & Hinc).
    destruct (scan_acc _ _ _ _ _ true H1 Heqo Ha Hinc) as [A B].
    apply after_pick_ok; [exact A|]. eapply incl_keys; eauto.
  - destruct HR as (Hi & Ha & Hinc).
    destruct (scan_acc _ _ _ _ _ false H1 Heqo Ha Hinc) as [A B].
    apply after_pick_ok; [exact A|]. eapply incl_keys; eauto.
  - destruct HR as (Hi & _). apply nth_error_None in Heqo. simpl. lia.
  - destruct HR as (Hne & Ha & Hk).
    assert (Hlt : c mod length acc < length acc).
    { apply Nat.mod_upper_bound. destruct acc; [congruence|simpl; lia]. }
    destruct (NoDup_remove_nth _ _ Ha Hlt) as [A B]. simpl. split; [exact A|].
    intros t Ht. apply keys_remove_other.
    + intros C. subst t. exact (B Ht).
    + apply Hk. eapply In_remove_nth; eauto.
  - destruct HR as (Hne & Ha & Hk).
    assert (Hlt : c mod length acc < length acc).
    { apply Nat.mod_upper_bound. destruct acc; [congruence|simpl; lia]. }
    simpl. apply (Hk (nth (c mod length acc) acc 0)); [apply nth_In; exact Hlt|exact Heqo].
  - destruct HR as (Ha & Hk). apply after_pick_ok; assumption.
  - simpl in *. split; [tauto|]. unfold lookup. simpl. rewrite Nat.eqb_refl. discriminate.
Qed.


Lemma mem_remove : forall a tid s u, NoDup (map fst a) -> NoDup (map snd a) -> In (tid, s) a ->
  mem u (map snd (remove_tid tid a)) = mem u (map snd a) && negb (Nat.eqb u s).
Proof.
  intros a tid s u H1 H2 Hin. pose proof (snd_remove_tid a tid s u H1 H2 Hin) as E.
  destruct (mem u (map snd (remove_tid tid a))) eqn:A.
  - apply mem_In in A. apply E in A. destruct A as [A B]. apply mem_In in A. rewrite A.
    apply Nat.eqb_neq in B. rewrite B. reflexivity.
  - apply mem_false in A. destruct (mem u (map snd a)) eqn:B; [|reflexivity].
    apply mem_In in B. destruct (Nat.eqb u s) eqn:C; [reflexivity|].
    apply Nat.eqb_neq in C. exfalso. apply A. apply E. auto.
Qed.

Lemma stage_pop : forall a tid s b u, NoDup (map fst a) -> NoDup (map snd a) -> In (tid, s) a ->
  stage_fn (remove_tid tid a) (Some (RmShut s)) b u =
  if Nat.eqb u s then Tgt (RmShut s) else stage_fn a None b u.
Proof.
  intros a tid s b u H1 H2 Hin. unfold stage_fn. rewrite (mem_remove _ _ _ _ H1 H2 Hin). simpl.
  rewrite (Nat.eqb_sym s u). destruct (Nat.eqb u s) eqn:E; simpl.
  - rewrite andb_false_r. reflexivity.
  - rewrite andb_true_r. reflexivity.
Qed.
Lemma stage_live : forall a ro b s, In s (map snd a) -> stage_fn a ro b s = Live.
Proof. intros. unfold stage_fn. apply mem_In in H. rewrite H. reflexivity. Qed.
Lemma stage_tgt : forall a r b, ~ In (rm_tgt r) (map snd a) -> stage_fn a (Some r) b (rm_tgt r) = Tgt r.
Proof. intros. unfold stage_fn. apply mem_false in H. rewrite H, Nat.eqb_refl. reflexivity. Qed.
Lemma stage_other : forall a r b u, rm_tgt r <> u -> stage_fn a (Some r) b u = stage_fn a None b u.
Proof. intros. unfold stage_fn. apply Nat.eqb_neq in H. rewrite H. reflexivity. Qed.
Lemma stage_reaped : forall a b s, ~ In s (map snd a) -> s < b -> stage_fn a None b s = Reaped.
Proof.
  intros. unfold stage_fn. apply mem_false in H. rewrite H. apply Nat.ltb_lt in H0. rewrite H0.
  reflexivity.
Qed.

Definition subs_ok (st : state) : Prop :=
  forall s x, nth_error (subs st) s = Some x ->
    sub_okb (stage_of st s) (Nat.ltb s (nadd st)) x = true.

Lemma subs_pop : forall st st' tid s0, subs_ok st ->
  NoDup (map fst (alive st)) -> NoDup (map snd (alive st)) ->
  lookup tid (alive st) = Some s0 -> rm_of st = None ->
  subs st' = subs st -> nadd st' = nadd st -> alive st' = remove_tid tid (alive st) ->
  rm_of st' = Some (RmShut s0) -> born st' = born st -> subs_ok st'.
Proof.
  intros st st' tid s0 HS H1 H2 Hl Hr Es En Ea Er Eb s x Hx.
  rewrite Es in Hx. specialize (HS s x Hx). unfold stage_of in *.
  rewrite Ea, Er, Eb, En. rewrite Hr in HS. apply lookup_In in Hl.
  rewrite (stage_pop _ _ _ _ _ H1 H2 Hl). destruct (Nat.eqb s s0) eqn:E; [|exact HS].
  apply Nat.eqb_eq in E. subst s. rewrite stage_live in HS; [exact HS|].
  apply in_map_iff. exists (tid, s0). auto.
Qed.

Lemma subs_rm : forall st st' r c ss k a, subs_ok st ->
  rm_of st = Some r -> ~ In (rm_tgt r) (map snd (alive st)) -> rm_tgt r < born st ->
  rm_step (subs st) r c = RmNext ss k a ->
  subs st' = ss -> nadd st' = nadd st -> alive st' = alive st ->
  rm_of st' = k -> born st' = born st -> subs_ok st'.
Proof.
  intros st st' r c ss k a HS Hr Hn Hb Hstep Es En Ea Er Eb s y Hy.
  destruct (rm_step_spec _ _ _ _ _ _ Hstep) as (x & x' & Hx & Ess & Hk).
  rewrite Es, Ess in Hy. unfold stage_of in *. rewrite Ea, Er, Eb, En.
  destruct (nth_upd _ _ _ _ _ Hy) as [[E1 E2]|[E1 E2]].
  - subst s y. specialize (HS _ _ Hx). unfold stage_of in HS. rewrite Hr, stage_tgt in HS by assumption.
    specialize (Hk _ HS). destruct k as [r'|].
    + destruct Hk as [Et Hk]. rewrite <- Et. rewrite stage_tgt; [rewrite Et; exact Hk|]. rewrite Et. exact Hn.
    + rewrite stage_reaped; assumption.
  - specialize (HS _ _ E2). unfold stage_of in HS. rewrite Hr, stage_other in HS by assumption.
    destruct k as [r'|]; [|exact HS].
    assert (Et : rm_tgt r' = rm_tgt r).
    { clear - Hstep.
      destruct r as [s0|s0|s0|s0]; simpl in Hstep; destruct (nth_error (subs st) s0) as [z|]; try discriminate.
      all: try (destruct (sevt z)); try (destruct (sph z)); try (destruct c);
        try discriminate; inversion Hstep; reflexivity. }
    rewrite stage_other; [exact HS|]. rewrite Et. exact E1.
Qed.

Lemma mem_app_one : forall u l n, mem u (l ++ [n]) = mem u l || Nat.eqb u n.
Proof. intros. unfold mem. rewrite existsb_app. simpl. rewrite orb_false_r. reflexivity. Qed.
Lemma stage_store : forall a tid n u, (forall s, In s (map snd a) -> s < n + 0) ->
  stage_fn (a ++ [(tid, n)]) None (n + 1) u =
  if Nat.eqb u n then Live else stage_fn a None (n + 0) u.
Proof.
  intros a tid n u Hb. unfold stage_fn. rewrite map_app. simpl. rewrite mem_app_one.
  destruct (Nat.eqb u n) eqn:E.
  - rewrite orb_true_r. reflexivity.
  - rewrite orb_false_r. apply Nat.eqb_neq in E.
    destruct (mem u (map snd a)); [reflexivity|].
    destruct (Nat.ltb u (n + 1)) eqn:A, (Nat.ltb u (n + 0)) eqn:B; try reflexivity.
    + apply Nat.ltb_lt in A. apply Nat.ltb_ge in B. lia.
    + apply Nat.ltb_lt in B. apply Nat.ltb_ge in A. lia.
Qed.
Lemma stage_unborn : forall a n, (forall s, In s (map snd a) -> s < n + 0) ->
  stage_fn a None (n + 0) n = Unborn.
Proof.
  intros a n Hb. unfold stage_fn. destruct (mem n (map snd a)) eqn:E.
  - apply mem_In in E. apply Hb in E. lia.
  - replace (Nat.ltb n (n + 0)) with false; [reflexivity|]. symmetry. apply Nat.ltb_ge. lia.
Qed.
Lemma stage_not_unborn : forall a ro b u, u < b -> stage_fn a ro b u <> Unborn.
Proof.
  intros a ro b u H. unfold stage_fn. apply Nat.ltb_lt in H. rewrite H.
  destruct (mem u (map snd a)); [discriminate|]. destruct ro as [r|]; [|discriminate].
  destruct (Nat.eqb (rm_tgt r) u); discriminate.
Qed.
Lemma okb_unborn_live : forall b x, sub_okb Unborn b x = true -> sub_okb Live b x = true.
Proof.
  intros b [p d q e cl]. simpl. destruct p, b, d, q, e, cl; simpl; try discriminate; reflexivity.
Qed.
Lemma okb_start : forall g x, g <> Unborn -> sub_okb g false x = true ->
  sub_okb g true (mkSub SClear (sdone x) (sreq x) (sevt x) (sclosed x)) = true.
Proof.
  intros g [p d q e cl] Hg. simpl.
  destruct g as [| |[s|s|s|s]|]; try congruence; destruct p, q, e, cl; simpl; try discriminate; reflexivity.
Qed.
Lemma rm_after_pick : forall l, match after_pick l with R_rm r _ | R_drm r => Some r | _ => None end = None.
Proof. destruct l; reflexivity. Qed.

Lemma step_subs : forall st i c st' a, Inv st -> tstep false st i c = Next st' a -> subs_ok st'.
Proof.
  intros st i c st' a HI H.
  pose proof (I_lp _ HI) as HL. pose proof (I_excl _ HI) as HX. pose proof (I_rp _ HI) as HR.
  pose proof (I_nd1 _ HI) as H1. pose proof (I_nd2 _ HI) as H2. pose proof (I_born _ HI) as HB.
  pose proof (I_tgt _ HI) as HT. pose proof (I_subs _ HI) as HS. pose proof (I_len _ HI) as HN.
  inv_step H; ssimpl; rw_pcs.
  all: try (intros s x Hx; specialize (HS s x Hx); unfold stage_of, rm_of, born in *; ssimpl; rw_pcs;
            try rewrite Heql in HS; try rewrite Heqr in HS; exact HS).
  all: try (eapply subs_pop; try eassumption; try reflexivity;
            unfold rm_of, born; ssimpl; rw_pcs; try reflexivity;
            solve [ destruct (rp st); simpl in *; try (specialize (HX eq_refl); discriminate); reflexivity
                  | destruct (lp st); simpl in *; try (specialize (HX eq_refl); discriminate); reflexivity ]).
  all: try (match goal with E : rm_step (subs ?st0) ?r _ = RmNext _ _ _ |- _ =>
              assert (Hro : rm_of st0 = Some r) by
                (unfold rm_of; rw_pcs;
                 solve [ reflexivity
                       | destruct (lp st); simpl in *; try (specialize (HX eq_refl); discriminate); reflexivity ]);
              destruct (HT _ Hro) as [Hlt Hnin];
              eapply (subs_rm st0 _ r); try eassumption; try reflexivity;
              unfold rm_of, born; ssimpl; rw_pcs; try reflexivity;
              solve [ destruct (rp st); simpl in *; try (specialize (HX eq_refl); discriminate); reflexivity
                    | destruct (lp st); simpl in *; try (specialize (HX eq_refl); discriminate);
                      try destruct rest; reflexivity ]
            end).
  - (* store *)
    unfold lp_ok in HL. rewrite Heql in HL. destruct HL as (Ha & Hd & Hk).
    intros s x Hx. ssimpl. specialize (HS s x Hx). unfold stage_of, rm_of, born in *. ssimpl.
    rewrite Heql in *. rewrite (store_new _ _ _ Hk).
    assert (Hrp : match rp st with R_rm r _ | R_drm r => Some r | _ => None end = None).
    { destruct (rp st); simpl in *; try (specialize (HX eq_refl); discriminate); reflexivity. }
    rewrite Hrp in *. rewrite (stage_store _ _ _ _ HB).
    destruct (Nat.eqb s (nadd st)) eqn:E; [|exact HS].
    apply Nat.eqb_eq in E. subst s. rewrite (stage_unborn _ _ HB) in HS.
    apply okb_unborn_live. exact HS.
  - (* start *)
    intros s0 y Hy. unfold stage_of, rm_of, born in *. ssimpl. rewrite Heql in *.
    rewrite born_next_lp.
    assert (Hlp : forall X : option rm, match next_lp (tl (ladds st)) (lclose st) with
                       | L_rm r => Some r | _ => X end = X).
    { intros X. destruct (tl (ladds st)), (lclose st); reflexivity. }
    rewrite Hlp. replace (S (nadd st) + 0) with (nadd st + 1) by lia.
    destruct (nth_upd _ _ _ _ _ Hy) as [[E1 E2]|[E1 E2]].
    + subst s0 y. specialize (HS _ _ Heqo).
      replace (Nat.ltb (nadd st) (S (nadd st))) with true by (symmetry; apply Nat.ltb_lt; lia).
      rewrite Nat.ltb_irrefl in HS. apply okb_start; [|exact HS].
      apply stage_not_unborn. lia.
    + specialize (HS _ _ E2).
      replace (Nat.ltb s0 (S (nadd st))) with (Nat.ltb s0 (nadd st)); [exact HS|].
      destruct (Nat.ltb s0 (nadd st)) eqn:A, (Nat.ltb s0 (S (nadd st))) eqn:B; try reflexivity.
      * apply Nat.ltb_lt in A. apply Nat.ltb_ge in B. lia.
      * apply Nat.ltb_lt in B. apply Nat.ltb_ge in A. lia.
  - intros s x Hx; specialize (HS s x Hx); unfold stage_of, rm_of, born in *; ssimpl.
    rewrite Heqr in HS. rewrite rm_after_pick. exact HS.
  - intros s x Hx; specialize (HS s x Hx); unfold stage_of, rm_of, born in *; ssimpl.
    rewrite Heqr in HS. rewrite rm_after_pick. exact HS.
  - intros s0 y Hy. ssimpl. unfold stage_of, rm_of, born in *. ssimpl.
    destruct (nth_upd _ _ _ _ _ Hy) as [[E1 E2]|[E1 E2]].
    + subst s0 y. eapply sstep_ok; [apply (HS _ _ Heqo)|eassumption].
    + apply HS. exact E2.
Qed.



Lemma rm_step_tgt : forall ss r c ss' r' a, rm_step ss r c = RmNext ss' (Some r') a ->
  rm_tgt r' = rm_tgt r.
Proof.
  intros ss r c ss' r' a H. destruct r as [s|s|s|s]; simpl in H;
    destruct (nth_error ss s) as [z|]; try discriminate.
  all: try (destruct (sevt z)); try (destruct (sph z)); try (destruct c);
    try discriminate; inversion H; reflexivity.
Qed.

Lemma pop_tgt : forall a tid n, NoDup (map fst a) -> NoDup (map snd a) -> lookup tid a = Some n ->
  In n (map snd a) /\ ~ In n (map snd (remove_tid tid a)).
Proof.
  intros a tid n H1 H2 Hl. apply lookup_In in Hl. split.
  - apply in_map_iff. exists (tid, n). auto.
  - intros C. apply (snd_remove_tid a tid n n H1 H2 Hl) in C. tauto.
Qed.

Lemma step_tgt : forall st i c st' a, Inv st -> tstep false st i c = Next st' a ->
  forall r, rm_of st' = Some r -> rm_tgt r < born st' /\ ~ In (rm_tgt r) (map snd (alive st')).
Proof.
  intros st i c st' a HI H.
  pose proof (I_lp _ HI) as HL. pose proof (I_excl _ HI) as HX.
  pose proof (I_nd1 _ HI) as H1. pose proof (I_nd2 _ HI) as H2. pose proof (I_born _ HI) as HB.
  pose proof (I_tgt _ HI) as HT.
  unfold rm_of, born in *.
  inv_step H; ssimpl; rw_pcs; rewrite ?born_next_lp, ?rm_after_pick.
  all: try (rewrite Heql in HT).
  all: try (rewrite Heqr in HT).
  all: try (exact HT).
  all: try (intros r0 Hr0; destruct (rp st); simpl in *; try (specialize (HX eq_refl); discriminate);
            discriminate).
  - intros r E. inversion E; subst. simpl. destruct (pop_tgt _ _ _ H1 H2 Heqo) as [A B].
    split; [apply HB; exact A|exact B].
  - intros r1 E. inversion E; subst. match goal with Q : rm_step _ _ _ = RmNext _ (Some _) _ |- _ => rewrite (rm_step_tgt _ _ _ _ _ _ Q) end.
    apply HT. reflexivity.
  - intros r E.
    assert (Hlp : forall X : option rm, match next_lp (tl (ladds st)) (lclose st) with
                       | L_rm r => Some r | _ => X end = X).
    { intros X. destruct (tl (ladds st)), (lclose st); reflexivity. }
    rewrite Hlp in E. destruct (HT _ E) as [A B]. split; [lia|exact B].
  - destruct (lp st); simpl in *; try (specialize (HX eq_refl); discriminate);
      intros r E; inversion E; subst; simpl; destruct (pop_tgt _ _ _ H1 H2 Heqo) as [A B];
      (split; [apply HB; exact A|exact B]).
  - destruct (lp st); simpl in *; try (specialize (HX eq_refl); discriminate);
      intros r1 E; inversion E; subst; match goal with Q : rm_step _ _ _ = RmNext _ (Some _) _ |- _ => rewrite (rm_step_tgt _ _ _ _ _ _ Q) end;
      apply HT; reflexivity.
  - destruct (lp st); simpl in *; try (specialize (HX eq_refl); discriminate); intros; discriminate.
  - destruct (lp st); simpl in *; try (specialize (HX eq_refl); discriminate);
      intros r E; inversion E; subst; simpl; destruct (pop_tgt _ _ _ H1 H2 Heqo) as [A B];
      (split; [apply HB; exact A|exact B]).
  - destruct (lp st); simpl in *; try (specialize (HX eq_refl); discriminate);
      intros r1 E; inversion E; subst; match goal with Q : rm_step _ _ _ = RmNext _ (Some _) _ |- _ => rewrite (rm_step_tgt _ _ _ _ _ _ Q) end;
      apply HT; reflexivity.
  - destruct (lp st); simpl in *; try (specialize (HX eq_refl); discriminate); intros; discriminate.
Qed.


Theorem step_inv : forall st i c st' a, Inv st -> tstep false st i c = Next st' a -> Inv st'.
Proof.
  intros st i c st' a HI H.
  destruct (step_lock _ _ _ _ _ HI H) as [A B].
  destruct (step_alive _ _ _ _ _ HI H) as (C & D & E & F).
  constructor; auto.
  - exact (step_tgt _ _ _ _ _ HI H).
  - exact (step_subs _ _ _ _ _ HI H).
  - exact (step_lp _ _ _ _ _ HI H).
  - exact (step_rp _ _ _ _ _ HI H).
Qed.

Lemma nth_repeat : forall {A} (x : A) n i y, nth_error (repeat x n) i = Some y -> y = x.
Proof.
  intros A x n i y H. apply nth_error_In in H. apply repeat_spec in H. exact H.
Qed.

Theorem init_inv : forall adds cl, Inv (init adds cl).
Proof.
  intros adds cl. unfold init. constructor; simpl.
  - unfold lock_of. simpl. rewrite lholds_next_lp. reflexivity.
  - rewrite lholds_next_lp. discriminate.
  - constructor.
  - constructor.
  - intros s [].
  - unfold rm_of. simpl. intros r. destruct adds, cl; discriminate.
  - rewrite repeat_length. reflexivity.
  - intros s x Hx. apply nth_repeat in Hx. subst x. unfold stage_of, stage_fn, rm_of, born. simpl.
    replace (match next_lp adds cl with L_rm r => Some r | _ => None end) with (@None rm)
      by (destruct adds, cl; reflexivity).
    rewrite born_next_lp. reflexivity.
  - unfold lp_ok. simpl. destruct adds, cl; simpl; intuition discriminate.
  - exact I.
Qed.

(* states reachable from an initial state by transitions of the model without
   self-shutdown (and without join time-outs, which are not transitions) *)
Inductive reach (adds : list nat) (cl : bool) : state -> Prop :=
| reach_init : reach adds cl (init adds cl)
| reach_step : forall st i c st' a, reach adds cl st -> stepP false st i c = Some (st', a) ->
               reach adds cl st'.

Lemma stepP_tstep : forall sd st i c st' a, stepP sd st i c = Some (st', a) <-> tstep sd st i c = Next st' a.
Proof.
  intros. unfold stepP. destruct (tstep sd st i c); split; intros H; inversion H; reflexivity.
Qed.

Theorem reach_inv : forall adds cl st, reach adds cl st -> Inv st.
Proof.
  induction 1.
  - apply init_inv.
  - apply stepP_tstep in H0. eapply step_inv; eauto.
Qed.
