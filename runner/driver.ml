(* Generic line-protocol driver around an extracted Coq [dispatch : string -> val -> val].
   Request  : "<cmd> <val>"      Response : "<val>"
   val ::= n<hex> | z[-]<hex> | s<hexbytes> | u<hex>,<hex>,.. | ( val* )
   Trusted glue: converts text <-> the extracted datatypes, nothing else. *)
open Model

let hexval c = match c with
  | '0'..'9' -> Char.code c - 48
  | 'a'..'f' -> Char.code c - 87
  | 'A'..'F' -> Char.code c - 55
  | _ -> failwith "hex"

let n_of_hex (s : String.t) : n =
  let acc = ref None in
  String.iter (fun c ->
    let v = hexval c in
    for i = 3 downto 0 do
      let b = (v lsr i) land 1 = 1 in
      acc := (match !acc, b with
        | None, false -> None
        | None, true -> Some XH
        | Some p, false -> Some (XO p)
        | Some p, true -> Some (XI p))
    done) s;
  match !acc with None -> N0 | Some p -> Npos p

let rec int_of_pos p = match p with
  | XH -> 1 | XO q -> 2 * int_of_pos q | XI q -> 2 * int_of_pos q + 1
let int_of_n x = match x with N0 -> 0 | Npos p -> int_of_pos p

let rec pos_of_int i =
  if i = 1 then XH
  else if i land 1 = 0 then XO (pos_of_int (i lsr 1))
  else XI (pos_of_int (i lsr 1))
let n_of_int i = if i = 0 then N0 else Npos (pos_of_int i)

let hex_of_pos p =
  (* bits lsb first *)
  let rec bits p acc = match p with
    | XH -> List.rev (true :: acc)
    | XO q -> bits q (false :: acc)
    | XI q -> bits q (true :: acc) in
  let bl = Array.of_list (bits p []) in
  let nb = Array.length bl in
  let nd = (nb + 3) / 4 in
  let b = Buffer.create nd in
  for d = nd - 1 downto 0 do
    let v = ref 0 in
    for i = 3 downto 0 do
      let k = d * 4 + i in
      v := !v * 2 + (if k < nb && bl.(k) then 1 else 0)
    done;
    Buffer.add_char b "0123456789abcdef".[!v]
  done;
  Buffer.contents b
let hex_of_n x = match x with N0 -> "0" | Npos p -> hex_of_pos p

let coq_string_of (s : String.t) : Model.string =
  let r = ref EmptyString in
  for i = String.length s - 1 downto 0 do
    let c = Char.code s.[i] in
    let b k = (c lsr k) land 1 = 1 in
    r := String (Ascii (b 0, b 1, b 2, b 3, b 4, b 5, b 6, b 7), !r)
  done; !r

let bytes_tbl = Array.init 256 n_of_int

let parse_s tok =
  let l = (String.length tok - 1) / 2 in
  let rec go i acc = if i < 0 then acc else
    go (i - 1) (bytes_tbl.(hexval tok.[1 + 2*i] * 16 + hexval tok.[2 + 2*i]) :: acc) in
  go (l - 1) []

let parse_u tok =
  let body = String.sub tok 1 (String.length tok - 1) in
  if body = "" then [] else List.map n_of_hex (String.split_on_char ',' body)

let rec parse_val toks = match toks with
  | [] -> failwith "eof"
  | t :: rest ->
    if t = "(" then
      let rec items toks acc = match toks with
        | ")" :: r -> (VL (List.rev acc), r)
        | _ -> let (v, r) = parse_val toks in items r (v :: acc) in
      items rest []
    else match t.[0] with
      | 'n' -> (VN (n_of_hex (String.sub t 1 (String.length t - 1))), rest)
      | 'z' ->
        if String.length t > 1 && t.[1] = '-' then
          (match n_of_hex (String.sub t 2 (String.length t - 2)) with
           | N0 -> (VZ Z0, rest) | Npos p -> (VZ (Zneg p), rest))
        else (match n_of_hex (String.sub t 1 (String.length t - 1)) with
           | N0 -> (VZ Z0, rest) | Npos p -> (VZ (Zpos p), rest))
      | 's' -> (VS (parse_s t), rest)
      | 'u' -> (VS (parse_u t), rest)
      | _ -> failwith ("bad token " ^ t)

let rec print_val b v = match v with
  | VN x -> Buffer.add_char b 'n'; Buffer.add_string b (hex_of_n x)
  | VZ Z0 -> Buffer.add_string b "z0"
  | VZ (Zpos p) -> Buffer.add_char b 'z'; Buffer.add_string b (hex_of_pos p)
  | VZ (Zneg p) -> Buffer.add_string b "z-"; Buffer.add_string b (hex_of_pos p)
  | VS l ->
    let ints = List.map int_of_n l in
    if List.for_all (fun i -> i < 256) ints then begin
      Buffer.add_char b 's';
      List.iter (fun i -> Buffer.add_string b (Printf.sprintf "%02x" i)) ints
    end else begin
      Buffer.add_char b 'u';
      List.iteri (fun k x ->
        if k > 0 then Buffer.add_char b ',';
        Buffer.add_string b (hex_of_n x)) l
    end
  | VL l ->
    Buffer.add_char b '(';
    List.iter (fun x -> Buffer.add_char b ' '; print_val b x) l;
    Buffer.add_string b " )"

let () =
  try
    while true do
      let line = input_line stdin in
      let toks = List.filter (fun s -> s <> "") (String.split_on_char ' ' line) in
      (match toks with
       | [] -> print_string "\n"
       | cmd :: rest ->
         let out =
           try
             let (v, _) = parse_val rest in
             let r = dispatch (coq_string_of cmd) v in
             let b = Buffer.create 256 in print_val b r; Buffer.contents b
           with
           | Stack_overflow -> "( s455252 s737461636b )"
           | Failure m -> "( s455252 s" ^ (String.concat "" (List.map (fun c -> Printf.sprintf "%02x" (Char.code c)) (List.init (String.length m) (String.get m)))) ^ " )"
         in
         print_string out; print_char '\n');
      flush stdout
    done
  with End_of_file -> ()
