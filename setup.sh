#!/bin/sh
# Build the whole framework offline: translator -> Coq (.vo, full build) -> extraction -> runners.
set -u
cd "$(dirname "$0")"
export NV_HERE=$(pwd) PYTHONPATH=${NOBODD_REPO:-/repo} PYTHONHASHSEED=0 PYTHONDONTWRITEBYTECODE=1
/venv/bin/python - <<'PY'
import sys, os
sys.path.insert(0, os.environ['NV_HERE'] + '/harness')
import lib, translate
with lib.Lock():
    print('translate:', translate.run())
    lib.gen_makefile()
    rc, out = lib.make([], keep_going=True, timeout=3000)
    print(out[-3000:])
    print('make exit', rc, '(proof failures are reported by the individual checks)')
    for area in sorted(os.path.splitext(f)[0] for f in os.listdir(os.path.join(lib.COQ, 'Extract')) if f.endswith('.v')):
        try:
            print('runner', area, lib.build_runner(area))
        except lib.BuildError as e:
            print('runner', area, 'FAILED', str(e)[:500])
    bad = lib.lint()
    print('lint:', bad or 'clean')
PY
exit 0
