"""Operation histories on a nobodd FatFileSystem with a plain in-memory expected model.

An operation is a dict; `apply_impl` runs it through the public path API (each path freshly
derived from the root), `apply_model` runs it on the expected tree.  Used by C04, C10, C14, C15."""
import errno, io, os, warnings


class Tree:
    """expected file-system content: nested dicts keyed by upper-cased name"""
    def __init__(self):
        self.root = {'kind': 'dir', 'name': '', 'children': {}}

    def _walk(self, parts):
        n = self.root
        for p in parts:
            if n['kind'] != 'dir':
                return 'notdir'
            n = n['children'].get(p.upper())
            if n is None:
                return None
        return n

    def get(self, path):
        return self._walk([p for p in path.split('/') if p])

    def parent(self, path):
        parts = [p for p in path.split('/') if p]
        return self._walk(parts[:-1]), parts[-1]

    def canon(self, n=None):
        n = n or self.root
        if n['kind'] == 'file':
            return ('F', n['name'], bytes(n['data']))
        return ('D', n['name'], [self.canon(k) for k in n['children'].values()])

    def used_clusters(self, cs, n=None, root=True):
        n = n or self.root
        if n['kind'] == 'file':
            return (len(n['data']) + cs - 1) // cs
        own = 0 if root else max(1, (32 * (2 + sum(entry_slots(k['name']) for k in n['children'].values())) + cs - 1) // cs)
        return own + sum(self.used_clusters(cs, k, False) for k in n['children'].values())


def entry_slots(name):
    return 1 + (len(name.encode('utf-16-le')) // 2 + 12) // 13


def exc_class(e):
    import lib
    if isinstance(e, lib.Hang):
        return 'HANG'
    if isinstance(e, OSError):
        if e.errno == errno.ENOSPC:
            return 'ENOSPC'
        if e.errno == errno.ENOTEMPTY:
            return 'ENOTEMPTY'
        if e.errno == errno.EINVAL and type(e) is OSError:
            return 'EINVAL'
        if e.errno == errno.EACCES and not isinstance(e, PermissionError):
            return 'EACCES'
    return type(e).__name__


def apply_model(t, op):
    """returns outcome class ('ok' or exception name); mutates the expected tree"""
    k = op['op']
    path = op['path']
    par, name = t.parent(path)
    node = t.get(path)
    def need_parent():
        if par is None or par == 'notdir' and False:
            return 'FileNotFoundError'
        if par == 'notdir' or (par is not None and par['kind'] != 'dir'):
            return 'NotADirectoryError'
        return None
    if k in ('write', 'append', 'seekwrite', 'truncate', 'touch'):
        if k == 'write' and op.get('via') == 'exclusive' and node not in (None, 'notdir'):
            return 'FileExistsError' if node['kind'] != 'dir' else 'IsADirectoryError'
        if node == 'notdir' or par == 'notdir':
            return 'NotADirectoryError'
        if par is None:
            return 'FileNotFoundError'
        if par['kind'] != 'dir':
            return 'NotADirectoryError'
        if node is not None and node['kind'] == 'dir':
            return 'IsADirectoryError'
        if k in ('seekwrite', 'truncate') and node is None:
            return 'FileNotFoundError'
        if node is None:
            node = {'kind': 'file', 'name': name, 'data': bytearray()}
            par['children'][name.upper()] = node
        d = node['data']
        if k == 'write':
            node['data'] = bytearray(op['data'])
        elif k == 'append':
            d += op['data']
        elif k == 'seekwrite':
            pos = op['pos']
            if pos > len(d):
                d += bytes(pos - len(d))
            d[pos:pos + len(op['data'])] = op['data']
        elif k == 'truncate':
            n = op['size']
            if n <= len(d):
                del d[n:]
            else:
                d += bytes(n - len(d))
        return 'ok'
    if k == 'session':
        # one open handle: open(mode) ; seek / write / truncate / read steps ; close
        mode = op['mode']
        if node == 'notdir' or par == 'notdir':
            return 'NotADirectoryError'
        if par is None:
            return 'FileNotFoundError'
        if par['kind'] != 'dir':
            return 'NotADirectoryError'
        if node is not None and node['kind'] == 'dir':
            return 'IsADirectoryError'
        if 'r' in mode and node is None:
            return 'FileNotFoundError'
        if 'x' in mode and node is not None:
            return 'FileExistsError'
        if node is None:
            node = {'kind': 'file', 'name': name, 'data': bytearray()}
            par['children'][name.upper()] = node
        if 'w' in mode or 'x' in mode:
            node['data'] = bytearray()
        d = node['data']
        pos = len(d) if 'a' in mode else 0
        reads = []
        for st in op['steps']:
            if st[0] == 'seek':
                pos = st[1]
            elif st[0] == 'write':
                if pos > len(d):
                    d += bytes(pos - len(d))
                d[pos:pos + len(st[1])] = st[1]
                pos += len(st[1])
            elif st[0] == 'truncate':
                n = pos if st[1] is None else st[1]
                if n <= len(d):
                    del d[n:]
                else:
                    d += bytes(n - len(d))
            elif st[0] == 'read':
                reads.append(bytes(d[pos:pos + st[1]]))
                pos = min(len(d), pos + st[1]) if pos < len(d) else pos
        op['_reads'] = reads
        return 'ok'
    if k == 'unlink':
        if node == 'notdir' or par == 'notdir':
            return 'NotADirectoryError'
        if node is None:
            return 'FileNotFoundError'
        if node['kind'] == 'dir':
            return 'IsADirectoryError'
        del par['children'][name.upper()]
        return 'ok'
    if k == 'mkdir':
        if node == 'notdir' or par == 'notdir':
            return 'NotADirectoryError'
        if node is not None:
            return 'FileExistsError'
        if par is None:
            return 'FileNotFoundError'
        if par['kind'] != 'dir':
            return 'NotADirectoryError'
        par['children'][name.upper()] = {'kind': 'dir', 'name': name, 'children': {}}
        return 'ok'
    if k == 'rmdir':
        if node == 'notdir' or par == 'notdir':
            return 'NotADirectoryError'
        if node is None:
            return 'FileNotFoundError'
        if node['kind'] != 'dir':
            return 'NotADirectoryError'
        if node['children']:
            return 'ENOTEMPTY'
        del par['children'][name.upper()]
        return 'ok'
    if k == 'rename':
        tpar, tname = t.parent(op['target'])
        tnode = t.get(op['target'])
        if node is None or node == 'notdir' or par == 'notdir':
            return 'FileNotFoundError'
        if tpar is None or tpar == 'notdir' or tpar['kind'] != 'dir':
            return 'FileNotFoundError'
        if node['kind'] == 'dir' and tnode is not node and (op['target'].upper().rstrip('/') + '/').startswith(path.upper().rstrip('/') + '/'):
            return 'EINVAL'         # a directory cannot be moved into its own sub-tree (names compare case-insensitively)
        if tnode not in (None, 'notdir') and tnode['kind'] == 'dir' and tnode is not node:
            return 'IsADirectoryError'
        if tnode not in (None, 'notdir') and node['kind'] == 'dir' and tnode is not node:
            return 'NotADirectoryError'
        if tnode is node:
            # renaming onto itself (identical or case variant): the entry stays, content unchanged
            return 'ok'
        # a directory may not be moved into itself
        del par['children'][name.upper()]
        keep_name = tnode['name'] if tnode not in (None, 'notdir') else tname
        node = dict(node); node['name'] = keep_name
        tpar['children'][tname.upper()] = node
        return 'ok'
    raise ValueError(k)


def apply_impl(fs, op):
    """runs the operation on the real file-system; returns outcome class"""
    import lib
    k = op['op']
    try:
        p = fs.root / op['path'].lstrip('/')
        with lib.time_limit(20, str(op.get('op'))), warnings.catch_warnings():
            warnings.simplefilter('ignore')
            if k == 'session':
                reads = []
                with p.open(op['mode'], buffering=op.get('buffering', -1)) as f:
                    for st in op['steps']:
                        if st[0] == 'seek':
                            f.seek(st[1])
                        elif st[0] == 'write':
                            f.write(st[1])
                        elif st[0] == 'truncate':
                            f.truncate(st[1])
                        elif st[0] == 'read':
                            got = b''                   # a raw (unbuffered) handle may return short reads
                            while len(got) < st[1]:
                                chunk = f.read(st[1] - len(got))
                                if not chunk:
                                    break
                                got += chunk
                            reads.append(got)
                if '_reads' in op and reads != op['_reads']:
                    i = next(i for i, (a, b) in enumerate(zip(reads, op['_reads'])) if a != b)
                    return f'READ-MISMATCH(read #{i}: {len(reads[i])} bytes {reads[i][:12].hex()}.. expected {len(op["_reads"][i])} bytes {op["_reads"][i][:12].hex()}..)'
            elif k == 'write':
                if op.get('via') == 'exclusive':
                    with p.open('xb') as f:
                        f.write(op['data'])
                elif op.get('via') == 'open':
                    with p.open('wb') as f:
                        f.write(op['data'])
                else:
                    p.write_bytes(op['data'])
            elif k == 'append':
                with p.open('ab') as f:
                    f.write(op['data'])
            elif k == 'seekwrite':
                with p.open('r+b', buffering=op.get('buffering', -1)) as f:
                    f.seek(op['pos'])
                    f.write(op['data'])
            elif k == 'truncate':
                with p.open('r+b', buffering=op.get('buffering', -1)) as f:
                    f.truncate(op['size'])
            elif k == 'touch':
                p.touch()
            elif k == 'unlink':
                p.unlink()
            elif k == 'mkdir':
                p.mkdir()
            elif k == 'rmdir':
                p.rmdir()
            elif k == 'rename':
                p.rename(fs.root / op['target'].lstrip('/'))
            else:
                raise ValueError(k)
        return 'ok'
    except (Exception, lib.Hang) as e:
        return exc_class(e)


NAMES = ['a.txt', 'B.BIN', 'config.txt', 'Long File Name.data', 'readme', 'x', 'kernel8.img', 'überlang name with ß.txt',
         'file.with.many.dots', '.hidden', 'UPPER', 'lower', 'MiXeD.CaSe', 'euro €.txt', 'twelve chars', 'sub', 'dir1', 'DIR2',
         'abcdefgh.ijk', 'abcdefghi.jkl', 'abcdef~1.txt', 'ABCDEF~2.TXT']


def gen_session(rng, t, cs, files, new_path, variant, payload):
    """several steps on ONE open handle (a composite of public operations, so only for single-threaded histories)"""
    mode = rng.choice(['r+b', 'r+b', 'wb', 'w+b', 'ab', 'xb', 'a+b'])
    if 'r' in mode or (files and rng.random() < 0.7 and 'x' not in mode):
        if not files:
            mode = 'w+b'
            p, ln = new_path(), 0
        else:
            p = rng.choice(files)
            ln = len(t.get(p)['data'])
            p = variant(p)
    else:
        p, ln = new_path(), 0
    if 'w' in mode or 'x' in mode:
        ln = 0
    steps, pos, hi = [], (ln if 'a' in mode else 0), ln
    for _ in range(rng.randint(1, 5)):
        r = rng.random()
        if 'a' in mode:
            r = 0.5 if r < 0.45 else r          # no seeks before writes in append mode
        if r < 0.3:
            pos = rng.choice([0, 1, cs - 1, cs, cs + 1, ln, ln + 1, ln + cs, ln // 2, 2 * cs + 3, max(0, ln - 1)])
            steps.append(('seek', pos))
        elif r < 0.65:
            d = payload()[:rng.choice([1, 5, cs, 2 * cs + 1])] or b'q'
            steps.append(('write', d))
            pos += len(d)
        elif r < 0.85:
            n = rng.choice([None, 0, 1, cs, cs + 1, ln, max(0, ln - cs), ln + cs + 1, 3 * cs])
            steps.append(('truncate', n))
            hi = max(hi, pos if n is None else n)
        elif '+' in mode:
            n = rng.choice([1, cs, 2 * cs + 1, 10 * cs])
            steps.append(('read', n))
        hi = max(hi, pos)
    return dict(op='session', path=p, mode=mode, buffering=rng.choice([-1, 0]), steps=steps, pos=0, size=hi)


def gen_op(rng, t, cs, dirs_ok=True, big=False, sessions=False):
    """one random operation biased towards existing paths"""
    def all_paths(n=None, base=''):
        n = n or t.root
        out = []
        for k in n['children'].values():
            p = base + '/' + k['name']
            out.append((p, k))
            if k['kind'] == 'dir':
                out += all_paths(k, p)
        return out
    existing = all_paths()
    files = [p for p, k in existing if k['kind'] == 'file']
    dirs = [''] + [p for p, k in existing if k['kind'] == 'dir']
    def new_path():
        return rng.choice(dirs) + '/' + rng.choice(NAMES)
    def variant(p):
        r = rng.random()
        return p.upper() if r < 0.2 else p.lower() if r < 0.4 else p
    def payload():
        n = rng.choice([0, 1, cs - 1, cs, cs + 1, 2 * cs, 2 * cs + 1, 3 * cs - 1, 5 * cs] if not big else [7 * cs, 9 * cs + 3])
        return bytes(rng.getrandbits(8) for _ in range(n))
    kind = rng.choice(['write', 'write', 'append', 'seekwrite', 'truncate', 'unlink', 'mkdir', 'rmdir', 'rename', 'rename', 'touch', 'write']
                      + (['session', 'session', 'session'] if sessions else []))
    if kind == 'session':
        return gen_session(rng, t, cs, files, new_path, variant, payload)
    if kind == 'write':
        p = variant(rng.choice(files)) if files and rng.random() < 0.5 else new_path()
        return dict(op='write', path=p, data=payload(), via=rng.choice(['open', 'bytes', 'open', 'bytes', 'exclusive']))
    if kind == 'append':
        p = variant(rng.choice(files)) if files and rng.random() < 0.7 else new_path()
        return dict(op='append', path=p, data=payload())
    if kind == 'seekwrite':
        if not files:
            return dict(op='write', path=new_path(), data=payload(), via='open')
        p = rng.choice(files)
        ln = len(t.get(p)['data'])
        pos = rng.choice([0, max(0, ln - 1), ln, ln + 1, ln + cs, ln + 2 * cs + 3, ln // 2])
        return dict(op='seekwrite', path=variant(p), pos=pos, data=payload()[:rng.choice([1, cs, 2 * cs + 1])] or b'z',
                    buffering=rng.choice([-1, 0]))
    if kind == 'truncate':
        if not files:
            return dict(op='write', path=new_path(), data=payload(), via='open')
        p = rng.choice(files)
        ln = len(t.get(p)['data'])
        size = rng.choice([0, 1, max(0, ln - 1), max(0, ln - cs), max(0, ln - 2 * cs - 1), ln, ln + 1, ln + cs, ln + 3 * cs, cs, 2 * cs])
        return dict(op='truncate', path=variant(p), size=size, buffering=rng.choice([-1, 0]))
    if kind == 'unlink':
        p = variant(rng.choice(files)) if files and rng.random() < 0.85 else new_path()
        return dict(op='unlink', path=p)
    if kind == 'mkdir':
        return dict(op='mkdir', path=new_path())
    if kind == 'rmdir':
        ds = [d for d in dirs if d]
        p = variant(rng.choice(ds)) if ds and rng.random() < 0.8 else new_path()
        return dict(op='rmdir', path=p)
    if kind == 'rename':
        src_pool = files + ([d for d in dirs if d] if dirs_ok else [])
        if not src_pool:
            return dict(op='mkdir', path=new_path())
        src = rng.choice(src_pool)
        r = rng.random()
        if r < 0.15:
            tgt = src                                  # identical
        elif r < 0.3:
            tgt = src.rsplit('/', 1)[0] + '/' + src.rsplit('/', 1)[1].swapcase()   # case variant of itself
        elif r < 0.5 and files:
            tgt = rng.choice(files)                    # onto an existing file
        elif r < 0.62:
            tgt = rng.choice(dirs) + '/' + src.rsplit('/', 1)[1]     # the same name in another (or the same) directory
        else:
            tgt = new_path()
        if t.get(src)['kind'] == 'dir' and rng.random() < 0.12:
            # into its own sub-tree (must be refused), spelled in the same or in another case
            inner = [p for p, k in existing if k['kind'] == 'dir' and (p.upper() + '/').startswith(src.upper() + '/')]
            base = rng.choice(inner)
            tgt = (base.swapcase() if rng.random() < 0.5 else base) + '/' + rng.choice(NAMES)
        elif t.get(src)['kind'] == 'dir' and (tgt.upper() + '/').startswith(src.upper() + '/') and tgt.upper() != src.upper():
            tgt = '/' + rng.choice(NAMES)
        return dict(op='rename', path=variant(src), target=tgt)
    p = variant(rng.choice(files)) if files and rng.random() < 0.6 else new_path()
    return dict(op='touch', path=p)
