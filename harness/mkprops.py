#!/usr/bin/env python3
"""Generate the statement-only part of a Props file from lemma names: the statement text is what Coq
prints for `Check lemma` under the same imports (so it re-parses), closed by `exact lemma`."""
import subprocess, sys, re, os
COQ = '/verif/coq'

def statements(header, lemmas):
    src = header + '\nSet Printing Width 110.\nSet Printing Depth 1000.\n' + ''.join(f'Check {l}.\n' for _, l, _ in lemmas)
    p = subprocess.run(['coqtop', '-Q', COQ, 'NV', '-quiet'], input=src, capture_output=True, text=True, cwd=COQ)
    out = p.stdout
    res = []
    for _, l, _ in lemmas:
        short = l.split('.')[-1]
        m = re.search(r'(?m)^(?:Coq < )*(?:[\w.]+\.)?' + re.escape(short) + r'\n\s+: (.*?)(?=\n\n|\n\S|\Z)', out, re.S)
        if not m:
            raise SystemExit(f'no statement for {l}\n{out[-2000:]}\n{p.stderr[-2000:]}')
        res.append(' '.join(m.group(1).split()))
    return res

def emit(path, title, header, lemmas, tail=''):
    sts = statements(header, lemmas)
    L = [f'(* {title} *)', header, '']
    for (name, lemma, comment), st in zip(lemmas, sts):
        if comment:
            L.append(f'(* {comment} *)')
        L.append(f'Theorem {name} :\n  {st}.\nProof. exact {lemma}. Qed.\nPrint Assumptions {name}.\n')
    L.append(tail)
    open(path, 'w').write('\n'.join(L))

if __name__ == '__main__':
    pass
