"""In-process driver for the real nobodd.tftpd handler classes: fake sockets, a
virtual clock, no threads.  The same event lists are fed to the extracted model
(`session` command of the Tftp runner) and compared."""
import io, logging, struct
import lib

logging.disable(logging.CRITICAL)


def addr_of(n):
    return ('10.0.0.%d' % (n % 250 + 1), 1000 + n)


class FakeSock:
    def __init__(self, log, tid):
        self.log, self.tid = log, tid
    def sendto(self, b, a):
        self.log.append((self.tid, bytes(b), a))
        return len(b)
    def close(self):
        pass
    def fileno(self):
        return -1


class FakePath:
    def __init__(self, name, spec, opened):
        self.name, self.spec, self.opened = name, spec, opened
    def open(self, mode='rb'):
        if isinstance(self.spec, BaseException):
            raise self.spec
        if isinstance(self.spec, tuple) and self.spec[0] == 'eio':
            f = FailingSource(self.spec[1], self.spec[2])       # reads fine, then raises EIO
        else:
            f = io.BytesIO(self.spec)
        self.opened.append(f)
        return f


class FailingSource(io.BytesIO):
    """a source whose read raises OSError(EIO) after `good_reads` successful reads (a medium that goes bad mid-transfer)"""
    def __init__(self, data, good_reads):
        super().__init__(data)
        self.good_reads = good_reads
    def read(self, *a):
        if self.good_reads <= 0:
            raise OSError(5, 'Input/output error')
        self.good_reads -= 1
        return super().read(*a)


EXC = {1: FileNotFoundError(2, 'No such file'), 2: PermissionError(13, 'denied'),
       3: IsADirectoryError(21, 'Is a directory'), 4: OSError(5, 'I/O error')}


class Sim:
    def __init__(self, files, handler_cls=None, server_attrs=None, addr_fn=None):
        """files: dict name(str) -> bytes | int tag (1 notfound 2 permission 3 isdir 4 oserror)
        handler_cls: a TFTPBaseHandler subclass to use instead of the in-memory one (e.g. BootHandler)"""
        self.addr_fn = addr_fn or addr_of
        import nobodd.tftpd as T
        self.T = T
        self.files = files
        self.now = 0
        self.log = []
        self.opened = []
        self.subs = {}          # tid -> sub server
        self.next = 1
        sim = self
        T.time_ns = lambda: sim.now

        class Sub(T.TFTPSubServer):
            def __init__(s, main_server, client_state):
                s.done = False
                s.dead = False
                s.client_state = client_state
                s.tid = sim.next
                s.socket = FakeSock(sim.log, s.tid)
                s.server_address = ('127.0.0.1', 40000 + s.tid)
        self.Sub = Sub
        T.TFTPSubServer = Sub

        class Subs:
            def add(s, server):
                sim.subs[server.tid] = server
                sim.next += 1
        class Main:
            logger = T.TFTPBaseServer.logger
            server_address = ('127.0.0.1', 69)
            subs = Subs()
        self.main = Main()
        for k, v in (server_attrs or {}).items():
            setattr(self.main, k, v)

        class H(T.TFTPBaseHandler):
            def resolve_path(h, filename):
                spec = sim.files.get(filename, 1)
                if len(filename) > 255:
                    # what opening such a path on a real file-system gives: the text quotes the name
                    spec = OSError(36, 'File name too long', '/srv/tftp/' + filename)
                elif isinstance(spec, int):
                    spec = EXC[spec]
                return FakePath(filename, spec, sim.opened)
        self.H = handler_cls or H

    def restore(self):
        import importlib, time
        self.T.time_ns = time.monotonic_ns
        self.T.TFTPSubServer = self.Sub.__mro__[1]

    def _run_handler(self, cls, server, pkt, src, sock):
        h = cls.__new__(cls)
        h.request = (pkt, sock)
        h.client_address = src
        h.server = server
        raised = None
        h.setup()
        try:
            h.handle()
        except Exception as e:      # socketserver.handle_error would log and continue
            raised = type(e).__name__
        finally:
            h.finish()
        return raised

    def _handler(self, tid, src, dgram):
        if tid == 0:
            cls, server, sock = self.H, self.main, FakeSock(self.log, 0)
        else:
            s = self.subs[tid]
            cls, server, sock = self.T.TFTPSubHandler, s, s.socket
        h = cls.__new__(cls)
        h.request = (dgram, sock)
        h.client_address = self.addr_fn(src)
        h.server = server
        return h

    def overlapped(self, a, b, order, now):
        """two datagrams (tid, src, bytes) whose handler objects are alive at the same time, as when the listening thread and a
        transfer thread (or two transfer threads) each handle a packet: `order` interleaves the phases, lower case for a,
        upper case for b: s/S setup, h/H handle, f/F finish.  Returns the datagrams sent, in order."""
        self.now = now
        self.log.clear()
        ha, hb = self._handler(*a), self._handler(*b)
        for ch in order:
            h = ha if ch.islower() else hb
            try:
                {'s': h.setup, 'h': h.handle, 'f': h.finish}[ch.lower()]()
            except Exception:
                pass
        return list(self.log)

    def packet(self, tid, src, dgram, now):
        self.now = now
        self.log.clear()
        raised = None
        if tid == 0:
            raised = self._run_handler(self.H, self.main, dgram, self.addr_fn(src), FakeSock(self.log, 0))
        elif tid in self.subs and not self.subs[tid].dead:
            s = self.subs[tid]
            raised = self._run_handler(self.T.TFTPSubHandler, s, dgram, self.addr_fn(src), s.socket)
        return list(self.log), raised

    def tick(self, tid, now):
        self.now = now
        self.log.clear()
        raised = None
        if tid in self.subs and not self.subs[tid].dead:
            s = self.subs[tid]
            try:
                s.service_actions()
            except Exception as e:
                raised = type(e).__name__
                s.dead = True
        return list(self.log), raised

    def reap(self):
        for tid in [t for t, s in self.subs.items() if s.done]:
            self.subs[tid].client_state.close()
            del self.subs[tid]

    def digest(self):
        out = []
        for tid in sorted(self.subs, reverse=True):
            s = self.subs[tid]
            st = s.client_state
            out.append([tid, [st.blocks_read, st.block_size,
                              [] if st.last_ack_size is None else [st.last_ack_size],
                              st.timeout, st.last_recv,
                              [] if st.last_send is None else [st.last_send],
                              int(bool(s.done)), int(s.dead), list(st.blocks)]])
        return out


TAGS = [b'Invalid request', b'Unsupported operation', b'Server error']


def canon_dgram(b):
    """canonical form of an emitted datagram: ERROR messages reduced to tags"""
    if len(b) >= 4 and b[:2] == b'\0\5':
        code = struct.unpack('!H', b[2:4])[0]
        msg = b[4:-1] if b.endswith(b'\0') else b[4:]
        wf = b.endswith(b'\0') and b'\0' not in msg
        if code == 8:
            tag = b'silly block size'
        elif code == 0:
            tag = next((t for t in TAGS if msg.startswith(t)), b'<oserror>')
        else:
            tag = msg
        return ('ERROR', code, tag, wf)
    return ('RAW', b)


def float_oracle(dgram):
    """what int(float(v) * 1e9) gives for the RRQ's timeout option (input to the model)"""
    from nobodd.tftp import Packet, RRQPacket
    try:
        p = Packet.from_bytes(dgram)
    except Exception:
        return (1,)
    if not isinstance(p, RRQPacket) or 'timeout' not in p.options:
        return (1,)
    try:
        return (0, lib.Zint(int(float(p.options['timeout']) * 1_000_000_000)))
    except ValueError:
        return (1,)
    except OverflowError:
        return (2,)


class Session:
    """runs the implementation online (so that a scripted client can react to what the
    server sends), records events / outputs / state digests, then replays the same event
    list on the extracted model and compares."""
    def __init__(self, files):
        self.files = dict(files)
        self.sim = Sim(self.files)
        self.events, self.outs, self.digests = [], [], []
        self.fl = []

    def packet(self, tid, src, dgram, now):
        self.events.append(('p', tid, src, bytes(dgram), now))
        self.fl.append(float_oracle(bytes(dgram)) if tid == 0 else (1,))
        sent, raised = self.sim.packet(tid, src, bytes(dgram), now)
        self.outs.append((sent, raised)); self.digests.append(self.sim.digest())
        return sent

    def tick(self, tid, now):
        self.events.append(('t', tid, now)); self.fl.append(None)
        sent, raised = self.sim.tick(tid, now)
        self.outs.append((sent, raised)); self.digests.append(self.sim.digest())
        return sent

    def reap(self):
        self.events.append(('r',)); self.fl.append(None)
        self.sim.reap()
        self.outs.append(([], None)); self.digests.append(self.sim.digest())

    def close(self):
        self.sim.restore()

    def compare(self, ctx, R, sig_prefix):
        if R is None:
            return True
        mfiles = [(k, 0, bytes(v)) if isinstance(v, (bytes, bytearray)) else (k, v, b'') for k, v in self.files.items()]
        mevs = []
        for e, fl in zip(self.events, self.fl):
            if e[0] == 'p':
                mevs.append((0, e[1], e[2], e[3], fl, lib.Zint(e[4])))
            elif e[0] == 't':
                mevs.append((1, e[1], lib.Zint(e[2])))
            else:
                mevs.append((2,))
        mout = R.call('session', (mfiles, mevs))
        for i, e in enumerate(self.events):
            sent, raised = self.outs[i]
            impl_out = [[t, canon_dgram(b)] for t, b, a in sent]
            model_out = [[t, canon_dgram(b)] for t, b in mout[i][0]]
            impl_state = self.digests[i]
            model_state = [[t, list(s)] for t, s in mout[i][1]]
            if impl_out != model_out or impl_state != model_state:
                ctx.violation(sig_prefix + '/model-mismatch',
                              f'event {i} {e[:3]}: implementation sent {str(impl_out)[:200]} state {impl_state}; '
                              f'model sent {str(model_out)[:200]} state {model_state}',
                              dict(files={k: (v if isinstance(v, int) else bytes(v)) for k, v in self.files.items()},
                                   events=[list(x) for x in self.events[max(0, i - 30):i + 1]], first_event_index=max(0, i - 30),
                                   impl=[impl_out, impl_state], model=[model_out, model_state], raised=raised))
                return False
        return True
