#!/usr/bin/env python3
"""Fail-closed translator: /repo/nobodd/*.py  ->  /verif/coq/Gen/*.v

Each emitter reads the current source with `ast`, extracts exactly the
constants / layouts / expressions it understands and raises TranslateError on
anything else.  Files are rewritten only when their text changes so that `make`
rebuilds exactly the cones that depend on what changed.
"""
import ast, os, sys, re, json

REPO = os.environ.get('NOBODD_REPO', '/repo')
SRC = os.path.join(REPO, 'nobodd')
OUT = os.path.join(os.path.dirname(os.path.abspath(__file__)), '..', 'coq', 'Gen')

class TranslateError(Exception):
    pass

def parse(name):
    path = os.path.join(SRC, name)
    with open(path) as f:
        return ast.parse(f.read(), path)

def module_consts(tree):
    """name -> python value for simple module-level constant assignments"""
    env = {}
    for node in tree.body:
        if isinstance(node, ast.Assign) and len(node.targets) == 1 \
                and isinstance(node.targets[0], ast.Name):
            try:
                env[node.targets[0].id] = const_eval(node.value, env)
            except TranslateError:
                pass
    return env

def const_eval(node, env):
    if isinstance(node, ast.Constant):
        return node.value
    if isinstance(node, ast.Name):
        if node.id in env:
            return env[node.id]
        raise TranslateError(f'unknown name {node.id}')
    if isinstance(node, ast.UnaryOp) and isinstance(node.op, ast.USub):
        return -const_eval(node.operand, env)
    if isinstance(node, ast.BinOp):
        a, b = const_eval(node.left, env), const_eval(node.right, env)
        ops = {ast.Add: lambda: a + b, ast.Sub: lambda: a - b,
               ast.Mult: lambda: a * b, ast.FloorDiv: lambda: a // b,
               ast.LShift: lambda: a << b, ast.RShift: lambda: a >> b,
               ast.BitOr: lambda: a | b, ast.BitAnd: lambda: a & b,
               ast.Pow: lambda: a ** b, ast.Mod: lambda: a % b}
        for k, f in ops.items():
            if isinstance(node.op, k):
                return f()
        raise TranslateError('binop')
    if isinstance(node, (ast.Tuple, ast.List)):
        return tuple(const_eval(e, env) for e in node.elts)
    if isinstance(node, ast.Set):
        return frozenset(const_eval(e, env) for e in node.elts)
    if isinstance(node, ast.Call) and isinstance(node.func, ast.Name) \
            and node.func.id == 'frozenset' and len(node.args) == 1:
        return frozenset(const_eval(node.args[0], env))
    raise TranslateError(f'not a constant: {ast.dump(node)[:80]}')

def find_class(tree, name):
    for n in tree.body:
        if isinstance(n, ast.ClassDef) and n.name == name:
            return n
    raise TranslateError(f'class {name} not found')

def find_func(body, name):
    for n in body:
        if isinstance(n, (ast.FunctionDef, ast.AsyncFunctionDef)) and n.name == name:
            return n
    raise TranslateError(f'function {name} not found')

def class_consts(cls, env=None):
    env = dict(env or {})
    out = {}
    for node in cls.body:
        if isinstance(node, ast.Assign) and len(node.targets) == 1 \
                and isinstance(node.targets[0], ast.Name):
            try:
                out[node.targets[0].id] = const_eval(node.value, {**env, **out})
            except TranslateError:
                pass
    return out

def _module_level_imports(tree):
    """Import / ImportFrom nodes executed when the module is imported (not inside
    functions or classes, not under `if __name__ == '__main__'`)"""
    out = []
    def visit(stmts):
        for node in stmts:
            if isinstance(node, (ast.Import, ast.ImportFrom)):
                out.append(node)
            elif isinstance(node, ast.If):
                if not _is_main_guard(node):
                    visit(node.body); visit(node.orelse)
            elif isinstance(node, ast.Try):
                visit(node.body); visit(node.orelse); visit(node.finalbody)
                for h in node.handlers:
                    visit(h.body)
            elif isinstance(node, ast.With):
                visit(node.body)
    visit(tree.body)
    return out

def import_closure(root):
    """modules of package nobodd transitively imported when nobodd.<root> is imported"""
    seen, todo = set(), [root]
    while todo:
        m = todo.pop()
        if m in seen or not os.path.exists(os.path.join(SRC, m + '.py')):
            continue
        seen.add(m)
        for sub in _module_level_imports(parse(m + '.py')):
            if isinstance(sub, ast.ImportFrom):
                if sub.level == 1 and sub.module is None:
                    todo.extend(a.name for a in sub.names)
                elif sub.level == 1:
                    todo.append(sub.module.split('.')[0])
                elif sub.level == 0 and sub.module == 'nobodd':
                    todo.extend(a.name for a in sub.names)
                elif sub.level == 0 and sub.module and sub.module.startswith('nobodd.'):
                    todo.append(sub.module.split('.')[1])
            else:
                for a in sub.names:
                    if a.name.startswith('nobodd.'):
                        todo.append(a.name.split('.')[1])
    return seen

def _is_main_guard(node):
    return isinstance(node, ast.If) and isinstance(node.test, ast.Compare) and \
        isinstance(node.test.left, ast.Name) and node.test.left.id == '__name__'

# ---------------------------------------------------------------- Coq text helpers
def coq_bool(b):
    return 'true' if b else 'false'

def coq_N(n):
    if not isinstance(n, int) or isinstance(n, bool) or n < 0:
        raise TranslateError(f'not a natural: {n!r}')
    return f'{n}%N'

def coq_Z(n):
    if not isinstance(n, int) or isinstance(n, bool):
        raise TranslateError(f'not an int: {n!r}')
    return f'({n})%Z'

def coq_bytes(b):
    if isinstance(b, str):
        b = [ord(c) for c in b]
    return '[' + '; '.join(f'{x}%N' for x in b) + ']'

HEADER = '''(* GENERATED by harness/translate.py from {src} -- do not edit.
   Regenerated on every check run from /repo's working tree. *)
From Coq Require Import List NArith ZArith Bool String.
Import ListNotations.
'''

def write_if_changed(name, text):
    os.makedirs(OUT, exist_ok=True)
    path = os.path.join(OUT, name)
    old = None
    if os.path.exists(path):
        with open(path) as f:
            old = f.read()
    if old != text:
        with open(path, 'w') as f:
            f.write(text)
        return True
    return False

# ---------------------------------------------------------------- emitters
def has_module_call(tree, func_src):
    for node in tree.body:
        if isinstance(node, ast.Expr) and isinstance(node.value, ast.Call):
            if ast.unparse(node.value) == func_src:
                return True
    return False

def call_kwargs(call, env=None):
    d = {}
    for kw in call.keywords:
        try:
            d[kw.arg] = const_eval(kw.value, env or {})
        except TranslateError:
            d[kw.arg] = ('expr', ast.unparse(kw.value))
    return d

# Emitters live in harness/gen_<area>.py; each defines  NAME = '<Area>'  and
# emit() -> text of coq/Gen/<Area>.v  (raise TranslateError to fail closed).
def _discover():
    import importlib, glob as _glob
    here = os.path.dirname(os.path.abspath(__file__))
    ems = {}
    for path in sorted(_glob.glob(os.path.join(here, 'gen_*.py'))):
        mod = importlib.import_module(os.path.splitext(os.path.basename(path))[0])
        ems[mod.NAME] = mod.emit
    return ems


def run(which=None):
    """returns dict name -> None (ok) or error string"""
    res = {}
    for name, fn in _discover().items():
        if which and name not in which:
            continue
        try:
            write_if_changed(name + '.v', fn())
            res[name] = None
        except Exception as exc:   # fail closed
            res[name] = f'{type(exc).__name__}: {exc}'
            # leave a file that cannot compile so that dependants fail closed
            write_if_changed(name + '.v', f'(* translation failed: {res[name]} *)\nDefinition translation_failed : False := I.\n')
    return res

if __name__ == '__main__':
    r = run(set(sys.argv[1:]) or None)
    print(json.dumps(r, indent=1))
    sys.exit(1 if any(r.values()) else 0)
