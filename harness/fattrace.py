"""Run-time observation of a nobodd FatFileSystem: lock events (by wrapping the RWLock the
file-system creates) and image mutations (by diffing the buffer at every executed line of
nobodd/fs.py and nobodd/path.py).  Gives, per operation, the ordered event list
  ('acq', side) ('rel', side) ('poke', first_changed, last_changed, image_after)"""
import sys, threading, warnings


class RecLock:
    def __init__(self, inner, side, log):
        self._inner, self._side, self._log = inner, side, log
    def acquire(self, *a, **k):
        r = self._inner.acquire(*a, **k)
        if r:
            self._log(('acq', self._side))
        return r
    def release(self):
        self._inner.release()
        self._log(('rel', self._side))
    def __enter__(self):
        self.acquire()
        return self
    def __exit__(self, *exc):
        self.release()


class Tracer:
    def __init__(self, buf, vol_slice=None):
        import nobodd.fs as F
        self.F = F
        self.buf = buf
        self.sl = vol_slice or slice(0, len(buf))
        self.events = []
        self.snap = bytes(buf)
        self.depth_w = 0
        self.depth_r = 0
        self.files = (F.__file__, __import__('nobodd.path').path.__file__)
        tracer = self
        RealRW = F.RWLock
        class RW(RealRW):
            def __init__(s):
                super().__init__()
                s.read = RecLock(s.read, 'r', tracer._lock_event)
                s.write = RecLock(s.write, 'w', tracer._lock_event)
        self._RealRW, self._RW = RealRW, RW

    def open_fs(self, **kw):
        self.F.RWLock = self._RW
        try:
            with warnings.catch_warnings():
                warnings.simplefilter('ignore')
                return self.F.FatFileSystem(memoryview(self.buf)[self.sl], **kw)
        finally:
            self.F.RWLock = self._RealRW

    def _check_poke(self):
        cur = bytes(self.buf)
        if cur != self.snap:
            lo = next(i for i in range(len(cur)) if cur[i] != self.snap[i])
            hi = next(i for i in range(len(cur) - 1, -1, -1) if cur[i] != self.snap[i])
            self.events.append(('poke', lo, hi, cur, self.depth_w, self.depth_r))
            self.snap = cur

    def _lock_event(self, ev):
        self._check_poke()
        if ev == ('acq', 'w'): self.depth_w += 1
        elif ev == ('rel', 'w'): self.depth_w -= 1
        elif ev == ('acq', 'r'): self.depth_r += 1
        else: self.depth_r -= 1
        self.events.append(ev + (self.depth_w, self.depth_r))

    def _trace(self, frame, event, arg):
        if frame.f_code.co_filename in self.files:
            self._check_poke()
            return self._trace
        return None

    def run(self, fn):
        """run fn() under line tracing; returns (result or exception, events)"""
        self.events = []
        self._check_poke()
        self.events = []
        old = sys.gettrace()
        sys.settrace(self._trace)
        try:
            try:
                res = ('ok', fn())
            except BaseException as e:      # noqa
                res = ('exc', e)
        finally:
            sys.settrace(old)
        self._check_poke()
        return res, list(self.events)
