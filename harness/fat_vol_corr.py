"""Composition layer of C04: the extracted Coq model coq/FatVol (path operations of
nobodd.path.FatPath over a record-level volume state: FAT values + decoded directory entries)
stepped side by side with the REAL public path API on small synthesised FAT12/16/32 volumes.

After EVERY operation
  (correspondence) the outcome class and the whole record-level state agree: every FAT entry
      value, the FSInfo pair, and per directory (keyed by first cluster) the '.' / '..' cluster
      fields and every entry's name, 8.3 alias, attr, size, first cluster, number of long-name
      records and SLOT -- the real state is read off the image by the extracted specification
      reader (runner 'Fat', commands abs / fat), never through nobodd;
  (oracle) the specification reader's structural check reports nothing, and the tree (names,
      kinds, sizes) equals the plain in-memory model of harness/fatops.py.
Histories: fatops.gen_op (no sessions) on volumes small enough to run out of clusters and of
root slots, plus scripted ones (rename onto existing / itself / case variant / into its own
sub-tree by case, by upper-case equality, by alias; rmdir of a non-empty directory; mkdir and
create when the root / the volume is full; an alias that equals another entry's upper-cased
long name).  All randomness comes from ctx.rng.  `run(ctx)` is the entry point."""
import struct, warnings
import lib, fatimg, fatspec, fatops

SPEC_THEOREMS = {
    'FV_step_inv': 'every operation (touch / open+write|truncate+close / unlink / mkdir / rmdir / rename), EVERY outcome incl. ENOSPC and '
                   'other failures, keeps VolInv: chains well-formed per FatAlloc, pairwise disjoint, no lost cluster, sizes = chain lengths, '
                   "empty files own nothing, every sub-directory named by exactly one entry with '.' = itself and '..' = its parent, names / "
                   'aliases unique, the directory graph is a tree (depth function)',
    'FV_step_refines': 'outcome and tree (names, kinds, sizes, order) = the plain tree model, for every outcome but ENOSPC',
    'FV_failure_keeps_tree': 'a failed operation (other than ENOSPC) leaves the tree unchanged',
    'FV_unlink_fail_unchanged / FV_rmdir_fail_unchanged': 'a failed unlink / rmdir leaves the whole state (FAT included) unchanged',
    'FV_rename_inv / FV_rename_refines': 'rename in FULL: onto a new name, onto an existing file, onto itself / a case variant, directories '
                                         "with the '..' fix-up and the into-itself guard (compared by first cluster)",
    'FV_mkdir_inv': 'mkdir keeps VolInv also when storing the entry fails: the reserved cluster is released again (mkdir_tail_spec: the '
                    'entries of every directory are then unchanged; only the FSInfo next-free hint moved)',
    'FV_history_inv / FV_history_refines': 'any operation list: VolInv at the end (at every point), outcomes and final tree = spec_run',
    'FV_example / FV_enospc_keeps_prefix / FV_failures_unchanged': 'non-vacuity: a concrete volume and history satisfy every guard; a write '
                                                                  'that hits ENOSPC keeps a prefix (why ENOSPC is outside the refinement)',
}
TRUSTED = [
    'Coq 8.16.1 kernel; vm_compute only in the Examples of FatVol/ProofsEx.v',
    'extraction (ExtrOcamlBasic), runner/driver.ml, OCaml',
    'abstraction: directory records as decoded entries + dead slots (justified by FatDir view theorems), cluster data and '
    'timestamps ignored, str.upper() passed in as a table, paths without "." / ".." components',
    'guards of the theorems: params_wf; path components without "~" after upper() (they cannot be mistaken for a generated alias); '
    'guard_create (when an entry is created _get_names succeeds and its name / alias collide with nothing in the directory -- '
    'FatNames.alias_unique is the lower-layer theorem); ENOSPC excluded from the refinement only',
    'the lower layers are separate theorems: FatTable (bytes of the FAT), FatAlloc (chains), FatData (file bytes), FatDir / FatNames (records)',
    'harness/fatimg.py image synthesis; the specification reader Fat/Spec.v + Fat/Check.v (validated in C03)',
]

MODES = {'wb': 0, 'xb': 1, 'ab': 2, 'r+b': 3}
EXN = {'OSError': 'EINVAL'}           # Res.exn has no EINVAL constructor: OSError_Other stands for it


def upper_table():
    out = bytearray()
    for c in range(0x110000):
        if 0xD800 <= c < 0xE000:
            continue
        u = chr(c).upper()
        if u != chr(c):
            out += c.to_bytes(3, 'big') + bytes([len(u)]) + b''.join(ord(x).to_bytes(3, 'big') for x in u)
    return bytes(out)


def parts_of(path):
    return [p for p in path.split('/') if p]


def model_op(op):
    """a fatops operation as a FatVol.Run op"""
    k, p = op['op'], parts_of(op['path'])
    if k == 'write':
        n = len(op['data'])
        return [0, p, MODES['xb' if op.get('via') == 'exclusive' else 'wb'], [1, [], n] if n else []]
    if k == 'append':
        n = len(op['data'])
        return [0, p, MODES['ab'], [1, [], n] if n else []]
    if k == 'seekwrite':
        return [0, p, MODES['r+b'], [1, [op['pos']], len(op['data'])]]
    if k == 'truncate':
        return [0, p, MODES['r+b'], [2, op['size']]]
    if k == 'touch':
        return [0, p, MODES['ab'], [0]]
    if k == 'unlink':
        return [1, p]
    if k == 'mkdir':
        return [2, p]
    if k == 'rmdir':
        return [3, p]
    if k == 'rename':
        return [4, p, parts_of(op['target'])]
    raise ValueError(k)


# ------------------------------------------------------------------ the real state, read by the specification reader
def real_state(RF, img, g):
    """(fat values, info, {dir id: (dot, dotdot, [(name, alias, attr, size, cluster, nlfn, slot)])}, tree) or a complaint"""
    geom, root = fatspec.spec_abs(RF, img)
    if root is None:
        return 'the specification reader cannot read the volume'
    tbl = RF.res('fat', [bytes(img), 0])
    if tbl[0] != 'ok':
        return 'the specification reader cannot read the FAT'
    info = None
    if g.fat_type == 'fat32' and g.fsinfo:
        o = g.info_sector * g.bps
        if img[o:o + 4] == b'RRaA' and img[o + 484:o + 488] == b'rrAa' and img[o + 508:o + 512] == b'\0\0\x55\xaa':
            fc, la = struct.unpack_from('<II', img, o + 488)
            info = (la, fc)
    dirs = {}
    def go(n, ident):
        dots = n.get('dots', [])
        if ident != 0:
            if len(dots) != 2 or [d['sfn'] for d in dots] != ['.', '..'] or [d['off'] for d in dots] != [0, 1]:
                raise ValueError(f"directory {ident}: '.' and '..' are not the first two records")
        elif dots:
            raise ValueError('dot entries in the root')
        ents = []
        for k in n['children']:
            ents.append((k['name'], k['sfn'], k['attr'], k['size'], k['cluster'], k['nlfn'], k['off']))
        if ident in dirs:
            raise ValueError(f'directory {ident} is reachable twice')
        dirs[ident] = (dots[0]['cluster'] if dots else 0, dots[1]['cluster'] if dots else 0, ents)
        for k in n['children']:
            if k['kind'] == 'dir':
                go(k, k['cluster'])
    try:
        go(root, 0)
    except ValueError as e:
        return str(e)
    return list(tbl[1]), info, dirs, root


def wire_state(tbl, info, dirs):
    """the record-level state in the runner's input format; dead slots reconstructed from the slot numbers"""
    out = []
    for ident in sorted(dirs):
        dot, dotdot, ents = dirs[ident]
        items, p = [], (0 if ident == 0 else 2)
        for (name, alias, attr, size, clu, nlfn, off) in sorted(ents, key=lambda e: e[6]):
            start = off - nlfn
            if start < p:
                raise ValueError(f'directory {ident}: overlapping records at slot {off}')
            items += [[]] * (start - p)
            items.append([name, alias, attr, size, clu, nlfn])
            p = off + 1
        out.append([ident, dot, dotdot, items])
    return [tbl, list(info) if info else []], out


def unwire_state(v):
    """runner state (after restr) -> (fat values, info, {dir id: (dot, dotdot, entries with slots)})"""
    fat, dirs = v
    tbl = list(fat[0])
    info = tuple(fat[1]) if fat[1] else None
    out = {}
    for ident, dot, dotdot, items in dirs:
        p = 0 if ident == 0 else 2
        ents = []
        for it in items:
            if not it:
                p += 1
                continue
            name, alias, attr, size, clu, nlfn = it
            ents.append((name, alias, attr, size, clu, nlfn, p + nlfn))
            p += nlfn + 1
        out[ident] = (dot, dotdot, ents)
    return tbl, info, out


def restr(v):
    """names come back as bytes / lib.U: make them str again so that the state can be sent back"""
    fat, dirs = v
    return [fat, [[i, d, dd, [[lib.as_text(it[0]), lib.as_text(it[1])] + list(it[2:]) if it else [] for it in items]] for i, d, dd, items in dirs]]


def state_diff(real, model):
    rt, ri, rd = real
    mt, mi, md = model
    if rt != mt:
        i = next((i for i, (a, b) in enumerate(zip(rt, mt)) if a != b), min(len(rt), len(mt)))
        return f'FAT entry {i}: image {rt[i] if i < len(rt) else None:#x} model {mt[i] if i < len(mt) else None:#x}'
    if ri != mi:
        return f'FSInfo (last_alloc, free_clusters): image {ri} model {mi}'
    if sorted(rd) != sorted(md):
        return f'directories (first clusters): image {sorted(rd)} model {sorted(md)}'
    for ident in sorted(rd):
        a, b = rd[ident], md[ident]
        if ident != 0 and a[:2] != b[:2]:
            return f"directory {ident}: '.' / '..' clusters image {a[:2]} model {b[:2]}"
        if a[2] != b[2]:
            j = next((j for j, (x, y) in enumerate(zip(a[2], b[2])) if x != y), min(len(a[2]), len(b[2])))
            return (f'directory {ident} entry #{j} (name, alias, attr, size, cluster, long-name records, slot): '
                    f'image {a[2][j] if j < len(a[2]) else None} model {b[2][j] if j < len(b[2]) else None}')
    return None


def show_node(n):
    if n[0] == 0:
        return n[1]
    return {lib.as_text(k): show_node(v) for k, v in n[1]}


def tree_of(n):
    if n['kind'] == 'file':
        return ('F', n['name'], n['size'])
    return ('D', n['name'], sorted((tree_of(k) for k in n['children']), key=lambda k: k[1].upper()))


def tree_expected(t, n=None):
    n = n or t.root
    if n['kind'] == 'file':
        return ('F', n['name'], len(n['data']))
    return ('D', n['name'], sorted((tree_expected(t, k) for k in n['children'].values()), key=lambda k: k[1].upper()))


# ------------------------------------------------------------------ one volume, real and model side by side
class Pair:
    def __init__(self, ctx, g, rng, populated=False, table=None):
        from nobodd.fs import FatFileSystem
        self.ctx, self.g = ctx, g
        self.RF, self.RV = ctx.runner('Fat'), ctx.runner('FatVol')
        self.table = table if table is not None else upper_table()
        b = fatimg.Builder(g, rng, fragment=populated and rng.random() < 0.5)
        self.tree = fatops.Tree()
        if populated:
            used, parents = set(), [(b.tree, self.tree.root)]
            for _ in range(rng.randint(2, 6)):
                bp, tp = rng.choice(parents)
                name = rng.choice(fatops.NAMES)
                if name.upper() in tp['children'] or '~' in name:
                    continue
                alias = fatimg.alias_for(name, used)
                try:
                    if rng.random() < 0.3 and len(parents) < 3:
                        n = b.add(bp, name, alias, is_dir=True)
                        tn = {'kind': 'dir', 'name': name, 'children': {}}
                        parents.append((n, tn))
                    else:
                        data = bytes(rng.getrandbits(8) for _ in range(rng.choice([0, 1, g.cs, g.cs + 1, 2 * g.cs])))
                        b.add(bp, name, alias, data=data)
                        tn = {'kind': 'file', 'name': name, 'data': bytearray(data)}
                except MemoryError:
                    break
                tp['children'][name.upper()] = tn
        self.img = bytearray(b.img)
        with warnings.catch_warnings():
            warnings.simplefilter('ignore')
            self.fs = FatFileSystem(memoryview(self.img))
        fs = self.fs
        self.params = [g.bits, fs.clusters.size, fs.fat.limit, fs._root if g.fat_type == 'fat32' else 0,
                       0 if g.fat_type == 'fat32' else g.root_entries]
        r = real_state(self.RF, self.img, g)
        if isinstance(r, str):
            raise RuntimeError('initial volume: ' + r)
        if r[0] != list(fs.fat):
            raise RuntimeError('initial volume: the specification reader and nobodd read different FATs')
        self.mstate = wire_state(*r[:3])
        self.history = []
        self.ok_ops = 0
        self.unguarded = False

    def close(self):
        try:
            self.fs.close()
        except Exception:
            pass

    def replay(self):
        return dict(geometry={k: v for k, v in vars(self.g).items()}, history=self.history)

    def step(self, op, sig, expect=None):
        """one operation on both sides and all comparisons; False after a report"""
        ctx = self.ctx
        jop = {k: (len(v) if isinstance(v, (bytes, bytearray)) else v) for k, v in op.items() if not k.startswith('_')}
        self.history.append(jop)
        out = self.RV.call('refine', [self.params, self.mstate[0], self.mstate[1], self.table, [model_op(op)]])
        mres, sres = lib.Runner.unres(out[0]), lib.Runner.unres(out[1])
        mout = 'ok' if mres[0] == 'ok' else EXN.get(mres[1], mres[1])
        self.mstate = restr(out[4])
        # the statement of the refinement theorems, evaluated: spec_step (abs_tree s) o = (abs_tree s', outcome)
        # (ENOSPC is no outcome of the plain tree; ops addressed through an 8.3 alias are outside the theorems' guard)
        if mout != 'ENOSPC' and expect is None and not self.unguarded:
            ctx.stat('vol-refinement-evaluated')
            if '~' not in (op['path'] + op.get('target', '')):
                ctx.stat('vol-refinement-inside-the-path-guard')
            if sres != mres or out[2] != out[3]:
                ctx.violation(f'{sig}/refinement:{op["op"]}', f'{jop}: model outcome {mres}, tree {show_node(out[3])}; '
                              f'specification outcome {sres}, tree {show_node(out[2])}', self.replay())
                return False
        want = fatops.apply_model(self.tree, op) if expect is None else expect
        got = fatops.apply_impl(self.fs, op)
        ctx.stat('vol-op-' + op['op'] + ('-ok' if got == 'ok' else '-' + got))
        if got != mout:
            ctx.violation(f'{sig}/outcome:{op["op"]}', f'{jop}: the implementation gave {got}, the FatVol model {mout}', self.replay())
            return False
        if got == 'ok':
            self.ok_ops += 1
        r = real_state(self.RF, self.img, self.g)
        if isinstance(r, str):
            ctx.violation(f'{sig}/unreadable', f'after {jop}: {r}', self.replay())
            return False
        # ---- oracle: the statement of the property on the implementation's image
        probs = fatspec.spec_wf(self.RF, bytes(self.img))
        if probs:
            kinds = sorted({str(p[0]) for p in probs})
            if op['op'] == 'mkdir' and got == 'ENOSPC' and kinds == ['lost cluster']:
                s = 'fs.vol/mkdir-enospc-leak'
            elif op['op'] == 'mkdir' and got not in ('ok', 'ENOSPC') and kinds == ['lost cluster']:
                s = 'fs.vol/mkdir-error-leak'
            else:
                s = f'{sig}/structural:{kinds[0]}'
            ctx.violation(s, f'structural check fails after {jop} ({got}): {probs[:4]}', self.replay())
            return False
        d = state_diff(r[:3], unwire_state(self.mstate))
        if d:
            ctx.violation(f'{sig}/state:{op["op"]}', f'after {jop} ({got}) the image and the FatVol model differ: {d}', self.replay())
            return False
        if got != 'ENOSPC' and (want == 'ok') != (got == 'ok'):
            ctx.violation(f'{sig}/plain-model-outcome:{op["op"]}', f'{jop} should {"succeed" if want == "ok" else "fail with " + want} '
                          f'by the plain tree model but gave {got}', self.replay())
            return False
        if got == 'ENOSPC' or expect is not None:
            # the plain model knows no space (nor 8.3 aliases): re-base it on what the volume holds now (a failed write may keep a prefix)
            self.tree = rebuild_tree(r[3])
        elif tree_of(r[3]) != tree_expected(self.tree):
            ctx.violation(f'{sig}/tree', f'after {jop} the volume holds {tree_of(r[3])} but the plain model {tree_expected(self.tree)}', self.replay())
            return False
        return True


def rebuild_tree(root):
    t = fatops.Tree()
    def go(n, tn):
        for k in n['children']:
            if k['kind'] == 'dir':
                c = {'kind': 'dir', 'name': k['name'], 'children': {}}
                go(k, c)
            else:
                c = {'kind': 'file', 'name': k['name'], 'data': bytearray(k['size'])}
            tn['children'][k['name'].upper()] = c
    go(root, t.root)
    return t


# ------------------------------------------------------------------ resolution with '.' / '..' components
def dotted_paths(rng, tree, n):
    """component lists over the names the volume holds (any case), mixed with '.', '..', missing names, a file used as a directory"""
    out = [['.'], ['..'], ['.', '..'], ['..', '..']]
    def names(node):
        return [k['name'] for k in node['children'].values()] if node['kind'] == 'dir' else []
    for _ in range(n):
        node, stack, parts = tree.root, [], []
        for _ in range(rng.randint(1, 7)):
            r = rng.random()
            here = names(node) if node is not None and node != 'lost' else []
            if not stack and here and r < 0.5 and rng.random() < 0.85:
                r = 0.6            # at the root the dot components lead nowhere: mostly step down first
            if r < 0.22:
                parts.append('.')
            elif r < 0.5:
                parts.append('..')
                node = stack.pop() if stack else 'lost'
            elif r < 0.9 and here:
                dirs_here = [x for x in here if node['children'][x.upper()]['kind'] == 'dir']
                nm = rng.choice(dirs_here) if dirs_here and rng.random() < 0.7 else rng.choice(here)
                parts.append(rng.choice([nm, nm.upper(), nm.lower()]))
                stack.append(node)
                node = node['children'][nm.upper()]
            else:
                parts.append(rng.choice(['missing', 'Nothing here.txt']))
                node = 'lost'
            if node == 'lost' and rng.random() < 0.6:
                break
        if node not in (None, 'lost') and node['kind'] == 'dir' and rng.random() < 0.5:
            files_here = [k['name'] for k in node['children'].values() if k['kind'] == 'file']
            if files_here:
                parts.append(rng.choice(files_here))         # end at a file of the directory reached
        if not any('~' in q for q in parts):
            out.append(parts)
    return out


def real_resolve(fs, parts):
    """what FatPath._resolve reaches: 'NotADirectory' | 0 (nothing) | 1 (the root) | [index, [attr, size, first cluster]]"""
    from nobodd.path import FatPath, get_cluster
    p = FatPath(fs, '/' + '/'.join(parts))
    try:
        p._resolve()
    except NotADirectoryError:
        return 'NotADirectory'
    if p._index is None:
        return 0
    if p._entry is None:
        return 1
    e = p._entry
    idx = p._index.cluster if hasattr(p._index, 'cluster') else None
    if fs.fat_type == 'fat32' and idx == fs._root:
        idx = 0
    return [idx, [e.attr, e.size, get_cluster(e, fs.fat_type)]]


def probe_resolution(pair, sig, n=10):
    ctx = pair.ctx
    paths = dotted_paths(ctx.rng, pair.tree, n)
    out = pair.RV.call('resolved', [pair.params, pair.mstate[0], pair.mstate[1], pair.table, [[q for q in p] for p in paths]])
    for parts, o in zip(paths, out):
        mres = lib.Runner.unres(o[0])
        if mres[0] == 'ok':
            m = mres[1] if mres[1] in (0, 1) else [mres[1][0], [mres[1][1][2], mres[1][1][3], mres[1][1][4]]]
        else:
            m = EXN.get(mres[1], mres[1]).replace('Error', '')
        try:
            with lib.time_limit(10):
                real = real_resolve(pair.fs, parts)
        except Exception as e:
            real = type(e).__name__
        ctx.stat('vol-resolve-' + ('error' if isinstance(real, str) else 'nothing' if real == 0 else 'root' if real == 1 else 'dir' if real[1][0] & 16 else 'file')
                 + ('-dots' if any(q in ('.', '..') for q in parts) else ''))
        if real != m:
            ctx.violation(f'{sig}/resolve', f"FatPath('/{'/'.join(parts)}') resolves to {real}; the FatVol model (walk through the dot entries) to {m}",
                          dict(pair.replay(), path=parts))
            return False
        # the statement of resolved_refines, evaluated: the walk over the records = the stack walk over the tree
        sres = lib.Runner.unres(o[2])
        if (mres[0] == 'ok') != (sres[0] == 'ok') or (mres[0] == 'ok' and o[1] != sres[1]) or (mres[0] != 'ok' and mres[1] != sres[1]):
            ctx.violation(f'{sig}/resolve-refinement', f"'/{'/'.join(parts)}': record walk {mres} stands for {show_node(o[1][0]) if o[1] else None}, "
                          f'tree walk gives {sres[0]} {show_node(sres[1][0]) if sres[0] == "ok" and sres[1] else sres[1]}', dict(pair.replay(), path=parts))
            return False
        if mres[0] == 'ok' and mres[1] != 0:
            nres = lib.Runner.unres(o[3])
            ctx.stat('vol-resolve-normal-form-evaluated')
            if nres[0] != 'ok' or nres[1] != o[1]:
                ctx.violation(f'{sig}/resolve-normal-form', f"'/{'/'.join(parts)}' reaches {show_node(o[1][0])}, its dot-free normal form reaches "
                              f'{nres[0]} {show_node(nres[1][0]) if nres[0] == "ok" and nres[1] else nres[1]}', dict(pair.replay(), path=parts))
                return False
    return True


def geometry(rng, roomy=False):
    ft = rng.choice(['fat12', 'fat16', 'fat32'])
    return fatimg.Geometry(ft, rng.choice([48, 72, 96]) if roomy else rng.choice([14, 22, 34, 56]), spc=rng.choice([1, 1, 2]), bps=512,
                           nfats=rng.choice([1, 2]), root_entries=rng.choice([16, 32, 64]), extra_fat_entries=rng.choice([0, 0, 7]),
                           fsinfo=rng.random() < 0.8, type_string=True)


def run_history(ctx, rng, table, nops, populated, roomy):
    g = geometry(rng, roomy)
    p = Pair(ctx, g, rng, populated, table)
    try:
        for _ in range(nops):
            op = fatops.gen_op(rng, p.tree, g.cs, sessions=False, big=(rng.random() < 0.05))
            if not p.step(op, 'fs.vol/history'):
                break
            if _ % 6 == 5 and not probe_resolution(p, 'fs.vol/history'):
                break
    finally:
        p.close()
        ctx.case(repr(p.history), p.ok_ops >= 5, 'vol-' + g.fat_type + ('-populated' if populated else '-empty'))
    if len(ctx.samples) < 2:
        ctx.sample(dict(fat_type=g.fat_type, clusters=g.n_clusters, history=p.history[:6]))


def scripts(g):
    cs = g.cs
    W = lambda path, n, via='open': dict(op='write', path=path, data=b'\x5a' * n, via=via)
    MK, RM, UN, T = (lambda p: dict(op='mkdir', path=p)), (lambda p: dict(op='rmdir', path=p)), \
                    (lambda p: dict(op='unlink', path=p)), (lambda p: dict(op='touch', path=p))
    R = lambda a, b, e=None: dict(op='rename', path=a, target=b, **({'_expect': e} if e else {}))
    yield 'rename-targets', [
        W('/one.txt', cs + 3), W('/two.txt', 2 * cs), MK('/d'), W('/d/three', 5), T('/d/empty'),
        R('/one.txt', '/two.txt'), R('/two.txt', '/two.txt'), R('/two.txt', '/TWO.TXT'), R('/two.txt', '/d/three'),
        R('/d/three', '/d/Three'), R('/d/empty', '/d/three'), R('/d/three', '/d'), R('/d', '/d/three'), R('/d', '/', 'IsADirectoryError'),
        R('/missing', '/x'), R('/d/three', '/nodir/x'), R('/d/three/x', '/y'), R('/', '/r', 'PermissionError'), R('/d', '/D'), R('/d', '/e'),
        R('/e/three', '/A long name for the moved file.bin'), R('/ALONGN~1.BIN', '/e/back', 'ok'), R('/e/back', '/E/BACK'),
        W('/Another long name here.txt', 3), R('/e/back', '/ANOTHE~1.TXT', 'ok'), R('/anothe~1.txt', '/Another long name here.txt', 'ok')]
    yield 'directory-into-its-own-subtree', [
        MK('/a.dir'), MK('/a.dir/in'), W('/a.dir/in/f', cs + 2), R('/a.dir', '/a.dir/in/x'), R('/a.dir', '/A.DIR/in/x'),
        R('/a.dir', '/A.DIR/IN'), R('/A.DIR', '/a.dir/new'), R('/a.dir/in', '/A.DIR/IN/deeper'), R('/a.dir', '/b.dir'), R('/b.dir/in', '/in'),
        MK('/straße'), MK('/straße/sub'), W('/straße/sub/f', 9), R('/straße', '/STRASSE/inner'), R('/straße', '/STRASSE/SUB/inner'),
        MK('/a long directory name'), W('/a long directory name/g', cs), R('/a long directory name', '/ALONGD~1/inner', 'EINVAL'),
        R('/a long directory name', '/elsewhere'), R('/elsewhere', '/in/deep'), R('/in/deep', '/in/f/x'), R('/in', '/in/deep/y')]
    yield 'rmdir-cases', [
        MK('/d'), MK('/d/e'), T('/d/e/f'), RM('/d'), RM('/d/e'), UN('/d/e/f'), RM('/D/E'), RM('/d/e'), dict(op='rmdir', path='/', _expect='PermissionError'), T('/file'), RM('/file'),
        RM('/file/x'), RM('/d'), RM('/d'), MK('/d'), MK('/d'), MK('/file'), MK('/file/x'), MK('/none/x'), UN('/d'), UN('/none'), T('/d')]
    yield 'slots-and-growth', (
        [MK('/sub')] + [W(f'/sub/a rather long file name number {k}.dat', k) for k in range(1, 20)]
        + [UN(f'/sub/a rather long file name number {k}.dat') for k in range(2, 20, 2)]
        + [W(f'/sub/second wave {k}.bin', 3) for k in range(1, 12)] + [MK('/sub/inner'), R('/sub/inner', '/moved'), R('/sub/second wave 5.bin', '/moved/five')]
        + [UN(f'/sub/second wave {k}.bin') for k in range(6, 12)] + [T('/sub/x'), RM('/moved'), UN('/moved/five'), RM('/moved')])
    yield 'volume-full', (
        [MK('/D'), W('/D/big', 200 * cs), MK('/D/E'), T('/D/x'), dict(op='append', path='/D/big', data=b'z' * cs),
         R('/D/big', '/D/renamed while full'), W('/second', 3), MK('/E'), dict(op='truncate', path='/D/big', size=cs, buffering=0), MK('/D/E'),
         R('/D/big', '/D/renamed after all'), W('/D/E/f', 100 * cs), dict(op='seekwrite', path='/D/E/f', pos=300 * cs, data=b'q', buffering=0),
         UN('/D/E/f'), R('/D/E', '/E2'), dict(op='truncate', path='/D/renamed after all', size=0, buffering=-1)])
    yield 'root-full', (
        [T(f'/F{k}') for k in range(40)] + [T('/one more'), UN('/F3'), UN('/F4'), T('/a long name that needs three slots'), T('/G1'), T('/G2'),
                                            UN('/F7'), R('/F8', '/F8 renamed to a long name'), R('/F9', '/F9B'), T('/G3'), T('/G4'), T('/G5'), MK('/NEWDIR')])
    yield 'mkdir-name-too-long', [
        MK('/d'), dict(op='touch', path='/' + 'y' * 300, _expect='ValueError'), dict(op='mkdir', path='/d/' + 'x' * 300, _expect='ValueError'), T('/d/after'),
        dict(op='mkdir', path='/d/a\ud800b', _expect='UnicodeEncodeError'), dict(op='mkdir', path='/' + 'z' * 256, _expect='ValueError'), MK('/d/e')]
    yield 'alias-equals-upper-cased-long-name', [
        W('/straß~2', cs + 88), W('/strassenbahn', 2 * cs + 1), T('/strassenbahn'), W('/straß~2', 3)]


def run_scripts(ctx, rng, table):
    for ft in ('fat12', 'fat16', 'fat32'):
        for spc in (1, 2):
            g = fatimg.Geometry(ft, 40, spc=spc, bps=512, nfats=2, root_entries=32, fsinfo=True, type_string=True)
            for label, ops in scripts(g):
                p = Pair(ctx, g, rng, False, table)
                p.unguarded = label.startswith('alias-equals')
                try:
                    for op in ops:
                        if not p.step(op, 'fs.vol/script:' + label, op.get('_expect')):
                            break
                    else:
                        if not p.unguarded:
                            probe_resolution(p, 'fs.vol/script:' + label, 14)
                finally:
                    p.close()
                    ctx.case((ft, spc, label), True, 'vol-script-' + label)


def run(ctx):
    rng = ctx.rng
    table = upper_table()
    run_scripts(ctx, rng, table)
    n = 30 if ctx.thorough else 8
    for i in range(n):
        run_history(ctx, rng, table, 80 if ctx.thorough else 45, populated=(i % 2 == 1), roomy=(i % 3 == 0))
