"""C11 correspondence: the Coq model coq/FatNames/Model.v against the REAL nobodd code, without
images: fat.lfn_valid, FatDirectory._get_names / _get_unique_sfn / _prefix_entries (on an in-memory
FatDirectory subclass), FatPath's ValueError, re.IGNORECASE on alias characters; plus the property's
own statements about the stored form evaluated directly on the implementation's records."""
import errno, re, struct, sys, time, warnings
import lib

SPEC_THEOREMS = {
    'lfn_valid_spec': 'full: lfn_valid = the VFAT rule (non-empty, no leading space, no trailing space/dot, '
                      'no control character, none of "*/:<>?\\|); breaks if the Gen deny-list / guards change',
    'invalid_rejected': 'full: not "."/".." and not VFAT-valid => create_records = Err ValueError (nothing produced); '
                        'too_long_rejected / too_long_nothing_produced: more than 255 UTF-16 units (no lone surrogate) '
                        '=> get_names / prefix_entries / create_records = Err ValueError',
    'checksum_standard': 'full: lfn_checksum(sfn, ext) = Fat.Spec.checksum (sfn ++ ext)',
    'alias_standard': 'full (name not "."/".."): sfn8/ext3 have lengths 8/3, every byte is in the SFN_VALID set '
                      '(which contains "_", "~", digits and the space padding); no 0xE5 in sfn8 when U+00E5 is not in up',
    'short_only_shows_name': 'full: a name stored short-only gives exactly one record, attr2 in {0,8,16,24}, and '
                             'Fat.Spec.short_name of it = (the name as Latin-1, SFN[.EXT])',
    'pure_83_no_lfn': 'full: base 1-8 / ext 0-3 ASCII 8.3 characters, each part all-upper or all-lower, up = ASCII upper '
                      '=> zero long-name records, short entry = upper-cased padded parts, attr2 in {0,8,16,24}, '
                      'Fat.Spec.short_name gives back the name',
    'lfn_entries_standard': 'full (name non-empty, real code points, no lone surrogate, <= 255 units, needs long entries): '
                            'k = ceil((u + [u mod 13 <> 0]) / 13) records, 1 <= k <= 20, ordinals k+0x40, k-1..1, '
                            'each 32 bytes, attr 0x0F, first_cluster 0, checksum = Fat.Spec.checksum(sfn8++ext3), units in '
                            'name order = utf16 name ++ [0]? ++ 0xFFFF*',
    'name_roundtrip': 'full through join_surrogates (name_ok: no NUL, no surrogate code point, <= U+10FFFF; U+00E5 not in up; '
                      'entry attr is not 0x0F / volume label): Fat.Spec.decode_dir (records ++ [terminator]) 0 None 0 = '
                      '([entry with d_name = name, d_nlfn = d_off = k, d_raw = the short record], 0 orphans)',
    'exclude_spec': 'full: after the excludes, x is in the ranges iff 1 <= x < MAX_SFN_SUFFIX and x was not read from the '
                    'directory; unique_sfn_least: the alias carries the least free tail; unique_sfn_enospc: an error iff '
                    'every tail is taken, and it is ENOSPC',
    'alias_unique': 'full (anchored patterns, after fix ef6bdbc): the alias[.ext] differs under fold1 case folding from every '
                    'existing long name and 8.3 name; unanchored_reads_wrong_tail: regression Example for the old pattern',
    'lookup_found / lookup_stable / lookup_new': 'full: the name test finds an entry by upper-cased long name or alias; appending '
                                                 'an entry never changes what an existing name resolves to',
    'examples': 'vm_compute: "Shared Prefix name 12.txt" with ten existing tails (alias SHARE~11, 2 records, exact fit, read back), '
                'an astral name, readme.TXT (short only, attr2 8), invalid names, exclude',
}

TRUSTED = [
    'str.upper() / str.lstrip(".") are CPython\'s: the model takes up = name.lstrip(".").upper() (and upper() of '
    'compared strings) as an argument; theorems assume only that U+00E5 does not occur in up (it has an upper case)',
    're.IGNORECASE on alias characters = fold1 of the model (ASCII + Latin-1 simple case folding + the 9 characters '
    'outside Latin-1 that sre treats as equivalent to a Latin-1 letter); checked here against CPython re for every '
    'SFN-legal pattern character x every code point',
    'SFN encoding iso-8859-1 (FatFileSystem default sfn_encoding); str.encode("iso-8859-1","replace") gives one "?" '
    'per unencodable code point; str.encode("utf-16le") refuses lone surrogates',
    'struct.pack of LongFilenameEntry / DirectoryEntry places fields at the Gen offsets (offsets regenerated from '
    'fat.py; packing compared byte for byte here)',
    'the SFN_VALID character set and the 26-byte chunking constants are written in the model, tied to fs.py by '
    'this correspondence only',
]

_COUNT = {}


def _viol(ctx, signature, what, replay):
    """at most three reports per signature, so that one cause does not crowd out the others"""
    k = (id(ctx), signature)
    _COUNT[k] = _COUNT.get(k, 0) + 1
    if _COUNT[k] <= 3:
        ctx.violation(signature, what, replay)


def _impl():
    from nobodd.fs import FatDirectory
    from nobodd.fat import DirectoryEntry, LongFilenameEntry, lfn_valid, lfn_checksum
    from nobodd.locks import RWLock
    from nobodd.path import FatPath

    class MemDir(FatDirectory):
        __slots__ = ('_lock', '_ents')

        def __init__(self):
            self._lock = RWLock()
            self._encoding = 'iso-8859-1'
            self._ents = [DirectoryEntry.eof()]

        def _get_cluster(self):
            return 0

        def _iter_entries(self):
            for i, e in enumerate(self._ents):
                yield i * 32, e

        def _update_entry(self, offset, entry):
            i = offset // 32
            while len(self._ents) <= i:
                self._ents.append(DirectoryEntry.eof())
            self._ents[i] = entry

        def raw_add(self, lfn, sfn8, ext3, attr2=0):
            """place an entry directly (independent packing), before the terminator"""
            ents = self._ents[:-1]
            name11 = sfn8 + ext3
            if lfn is not None:
                u = lfn.encode('utf-16le')
                if len(u) % 26:
                    u += b'\0\0'
                u += b'\xff' * (-len(u) % 26)
                ck = cksum(name11)
                n = len(u) // 26
                for k in range(n, 0, -1):
                    c = u[(k - 1) * 26:k * 26]
                    ents.append(LongFilenameEntry(sequence=k | (0x40 if k == n else 0), name_1=c[:10], attr=0xF,
                                                  checksum=ck, name_2=c[10:22], first_cluster=0, name_3=c[22:]))
            ents.append(ENTRY._replace(filename=sfn8, ext=ext3, attr2=attr2))
            ents.append(DirectoryEntry.eof())
            self._ents = ents

        def listing(self):
            out = []
            with warnings.catch_warnings():
                warnings.simplefilter('ignore')
                for off, ents in self._group_entries():
                    lfn, sfn, e = self._split_entries(ents)
                    out.append((lfn, sfn))
            return out

    ENTRY = DirectoryEntry(filename=b'OLDNAME ', ext=b'OLD', attr=0x20, attr2=0x18, ctime_cs=77, ctime=0x6b21,
                           cdate=0x5b39, adate=0x5b3a, first_cluster_hi=0x12, mtime=0x7c22, mdate=0x5b3b,
                           first_cluster_lo=0x3456, size=0x01020304)
    return MemDir, ENTRY, lfn_valid, FatPath


def cksum(name11):
    s = 0
    for c in name11:
        s = ((s & 1) * 128 + (s >> 1) + c) % 256
    return s


def up_of(name):
    return name.lstrip('.').upper()


def many_tails(ctx):
    """_get_unique_sfn in directories where thousands of numeric tails are taken: the least free tail has five digits;
    with every tail 1..MAX-1 taken the outcome is ENOSPC, never a name that is already in use"""
    MemDir, ENTRY, lfn_valid, FatPath = _impl()
    from nobodd.fat import DirectoryEntry
    R = ctx.runner('FatNames')
    def tail_name(n):
        d = str(n)
        return ('SHARED'[:7 - len(d)] + '~' + d).ljust(8).encode()
    def directory(tails):
        d = MemDir()
        d._ents = [ENTRY._replace(filename=tail_name(n), ext=b'TXT') for n in tails] + [DirectoryEntry.eof()]
        return d
    top = MemDir.MAX_SFN_SUFFIX if hasattr(MemDir, 'MAX_SFN_SUFFIX') else 65535
    scenarios = [('tails 1..10001 taken', list(range(1, 10002))),
                 ('tails 1..9999 and 10001 taken', list(range(1, 10000)) + [10001]),
                 ('tails 1..999 taken, 1000 free, 1001..12000 taken', list(range(1, 1000)) + list(range(1001, 12001)))]
    if ctx.thorough or ctx.widen:
        scenarios.append(('every tail taken', list(range(1, top))))
        scenarios.append(('every tail but the last taken', list(range(1, top - 1))))
    for label, tails in scenarios:
        d = directory(tails)
        ex = [['', tail_name(n).decode().strip() + '.TXT'] for n in tails]
        with lib.time_limit(120, 'unique_sfn over a large directory'):
            i = impl_res(d._get_unique_sfn, 'SHARED', 'TXT')
        m = R.unres(R.call('unique_sfn', ['SHARED', 'TXT', ex]))
        if m[0] == 'ok':
            m = ('ok', lib.as_text(m[1]))
        ctx.case(('many-tails', label), True, 'unique_sfn-many-tails')
        info = dict(kind='many-tails', scenario=label, n_existing=len(tails))
        taken = {e[1] for e in ex}
        if i[0] == 'ok' and i[1] + '.TXT' in taken:
            _viol(ctx, 'fs.names/alias-not-unique', f'{label}: _get_unique_sfn("SHARED", "TXT") returns {i[1]!r}, which an entry of the directory already uses', info)
        elif i != m:
            _viol(ctx, 'fs.names/model-unique_sfn', f'{label}: _get_unique_sfn("SHARED", "TXT") gives {i}, the model {m}', info)
        elif i[0] == 'err' and (i[1] != 'ENOSPC' or len(tails) < top - 1):
            _viol(ctx, 'fs.names/create-failed', f'{label}: _get_unique_sfn raised {i[1]} with {len(tails)} of {top - 1} tails taken', info)


def wire_existing(listing):
    # _get_unique_sfn matches the tail patterns against the 8.3 name and the UPPER-CASED long name of every entry
    return [[l.upper(), s] for l, s in listing]


# ------------------------------------------------------------------ inputs
ASTRAL = '\U0001F600'


def sized(units, ext='.txt', astral=0, base='Shared Prefix name '):
    """a name with exactly [units] UTF-16 units"""
    body = base + ASTRAL * astral
    n = units - len(ext) - 2 * astral - len(base)
    if n < 0:
        s = (body + 'x' * units)
        out, u = '', 0
        for ch in s:
            w = 2 if ord(ch) > 0xFFFF else 1
            if u + w > units - len(ext):
                break
            out += ch; u += w
        out += 'y' * (units - len(ext) - u)
        return out + ext
    return body + ''.join('abcdefghij'[i % 10] for i in range(n)) + ext


def systematic_names():
    N = []
    for u in (1, 2, 3, 7, 8, 9, 11, 12, 13, 14, 20, 25, 26, 27, 38, 39, 40, 51, 52, 53, 64, 65, 66, 77, 78, 79, 100,
              129, 130, 131, 195, 200, 234, 246, 247, 248, 253, 254, 255, 256, 257, 300):
        N.append(sized(u, ext='.txt' if u > 6 else ''))
        if u > 24:
            N.append(sized(u, ext='', astral=1))
            N.append(sized(u, ext='.longext', astral=3))
    for u in (13, 26, 39, 254, 255, 256):
        N.append(sized(u, ext='', astral=u // 2 - 10 if u > 30 else 2, base='Shared Px'))
    N += ['Shared Prefix name 11.txt', 'Shared Prefix name 12.txt', 'shared prefix NAME 12.TXT', 'SharedPrefix.txt',
          'shared.txt', 'SHARED.TXT', 'Shared', 'shared prefix', 'SHARED~1.TXT', 'shared~1.txt', 'SHARE~10.TXT',
          'Shared~3.txt', 'SHARED~4.TXT', 'SHAR~100.TXT', 'SHARED~1', 'shared~2']
    # case: the four lower/upper base x ext combinations, mixed case
    for b in ('README', 'readme', 'ReadMe', 'ABCDEFGH', 'abcdefgh', 'A', 'a', '12345678', 'FOO-BAR', 'foo-bar',
              'A~1', 'a_b', "X!#$%&'@", 'x(){}^`~', 'ABCDEFGHI', 'abcdefghi'):
        for e in ('', '.TXT', '.txt', '.Txt', '.T', '.t', '.123', '.TXTX', '.txtx', '.c_', '.C~1'):
            N.append(b + e)
    # spaces, dots
    N += ['a b.txt', 'A B.TXT', 'my file name.text', 'a  b', 'a b', 'a   b', 'A B', 'a b c d e f g h i', 'a .txt',
          'a. txt', 'a.b.c', 'A.B.C', 'a..b', 'x..y.z', '.bashrc', '.BASHRC', '..hidden', '.a.b', '...a', '.a',
          'archive.tar.gz', 'ARCHIVE.TAR.GZ', 'a.b.c.d.e.f.g.h', 'v1.2.3-rc.1', 'name.with.many.dots.ext',
          '.', '..', 'a+b', 'a,b', 'a;b', 'a=b', 'a[b', 'a]b', 'A_B', 'a+b.c+d', 'foo+bar.txt', 'FOO+BAR.TXT',
          'a' * 8 + '.' + 'b' * 3, 'A' * 8 + '.' + 'B' * 3, 'a' * 9 + '.' + 'b' * 3, 'a' * 8 + '.' + 'b' * 4,
          '~', '~1', '~1.~1', '-', '_', '1', '0.0', "it's.txt", 'a&b.txt', '100%.txt', 'tilde~name.txt', 'x~y~z~1.txt']
    # Latin-1, outside Latin-1, astral
    N += ['café.txt', 'CAFÉ.TXT', 'Café.Txt', 'ÀÉÎ.ÕÜ', 'àéî.õü',
          'straße.txt', 'STRASSE.TXT', 'ÿ.txt', 'µ.txt', 'µ', '×÷.txt', 'Ångström',
          'ååååååååå.txt', 'ÀÉÎÕÜÑÇØÞ.dat',
          'àéîõüñçøþ.dat', ' nbsp.txt', 'a b', '\u0080\u009f.­',
          'Ελληνικά.txt', '日本語.txt', '日本語',
          'ﬁle.txt', 'ıİ.txt', 'ſhort.txt', 'K.txt', 'ǅ.txt', 'ẞ.txt', '€5.txt',
          ASTRAL, ASTRAL + '.txt', 'a' + ASTRAL + 'b.txt', ASTRAL * 5 + '.' + ASTRAL, '\U00010400\U00010428.txt',
          '\U0010FFFF.bin', 'x￿.txt', 'x￾', '퟿.txt', 'snow☃man.txt']
    # not valid names, which _get_names itself does not refuse
    N += ['', '...', ' lead', 'trail ', 'trail.', 'a*b', 'a?b.txt', 'nul\x00x', 'new\nline', 'tab\t.txt', 'a/b', 'a\\b',
          ' ', '. .', '\ud800abc.txt', 'abc\udfff', '😀paired.txt', 'x' * 300]
    return N


def random_names(rng, n):
    pools = ['abcdefghijklmnopqrstuvwxyz', 'ABCDEFGHIJKLMNOPQRSTUVWXYZ', '0123456789', ' ', '.', "!#$%&'()@^_`{}~-",
             '+,;=[]', 'àéîõüñÀÉÎßÿµ×',
             'Ελ日本€☃ıſ', ASTRAL + '\U00010400\U0010FFFF']
    out = []
    for _ in range(n):
        style = rng.randrange(6)
        if style == 0:      # 8.3-like
            b = ''.join(rng.choice(pools[rng.choice((0, 1, 2, 5))]) for _ in range(rng.randint(1, 9)))
            e = ''.join(rng.choice(pools[rng.choice((0, 1, 2))]) for _ in range(rng.randint(0, 4)))
            if rng.random() < .5:
                b = rng.choice((b.upper(), b.lower()))
                e = rng.choice((e.upper(), e.lower()))
            out.append(b + ('.' + e if e else ''))
        elif style == 1:    # shares the alias prefix
            out.append('Shared Prefix ' + ''.join(rng.choice(pools[rng.randrange(3)]) for _ in range(rng.randint(1, 12)))
                       + rng.choice(('', '.txt', '.TXT', '.text', '.t')))
        elif style == 2:    # short prefix without extension
            out.append(rng.choice('aA') + rng.choice((' ', '  ', '+', ',', '_')) * rng.randint(1, 3) + rng.choice('bB')
                       + rng.choice(('', '', ' ' + rng.choice('cd'))))
        else:
            k = rng.choice((rng.randint(1, 20), rng.randint(1, 80), rng.randint(200, 260)))
            w = [rng.randrange(len(pools)) for _ in range(3)]
            out.append(''.join(rng.choice(pools[rng.choice(w)]) for _ in range(k)))
    return out


def build_dirs(MemDir, ENTRY, rng):
    dirs = {}
    dirs['empty'] = MemDir()
    d = MemDir()
    for i in range(1, 11):
        d[f'Shared Prefix name {i}.txt'] = ENTRY
    dirs['ten-tails'] = d
    d = MemDir()
    for i in range(1, 10):
        d.raw_add(f'Shared file {i}.txt', b'SHARED~%d' % i, b'TXT')
    for s8 in (b'SHARE~10', b'SHARE~11', b'SHARE~12', b'SHAR~100', b'SHAR~123', b'SHA~1000', b'SHA~1234', b'SH~10000'):
        d.raw_add('long ' + s8.decode() + '.txt', s8, b'TXT')
    d.raw_add(None, b'SHARE~13', b'TXT')                     # a short-only entry that looks like an alias
    d.raw_add('share~14.txt', b'OTHER~1 ', b'TXT')           # a long name equal to an alias
    d.raw_add('Shared~15.TXTextra', b'OTHER~2 ', b'TXT')     # ... with trailing text
    d.raw_add(None, b'SHARED~1', b'   ')
    d.raw_add('shared~2', b'OTHER~3 ', b'   ')
    d.raw_add(None, b'SHARED  ', b'TXT', attr2=0x18)
    dirs['digits-1-5'] = d
    d = MemDir()
    for i in range(1, 13):
        d['a' + ' ' * i + 'b'] = ENTRY                       # AB~1 .. AB~10 and on
    for nm in ('a+b', 'a,b', 'a;b'):
        d[nm] = ENTRY
    dirs['short-prefix'] = d
    d = MemDir()
    for s8, e3 in ((b'SHARED~1', b'TXT'), (b'SHARED~2', b'TXT'), (b'SHARED~4', b'TXT'), (b'SHARE~01', b'TXT'),
                   (b'SHARED~0', b'TXT'), (b'SH~99999', b'TXT'), (b'SH~65535', b'TXT'), (b'SH~65534', b'TXT'),
                   (b'SHARE~03', b'TXT'), (b'README~1', b'   '), (b'README~2', b'TXT'), (b'ABCDEF~1', b'TXT'),
                   (b'A~1     ', b'   '), (b'A~2     ', b'TXT'), (b'~1      ', b'   '), (b'AB~1    ', b'C~1')):
        d.raw_add('zz ' + s8.decode().strip() + ' long', s8, e3)
    d.raw_add('shared~5.txtx', b'QQ~1    ', b'TXT')
    d.raw_add('SHARED~6.tx', b'QQ~2    ', b'TX ')
    d.raw_add('xshared~7.txt', b'QQ~3    ', b'TXT')
    d.raw_add('A_B~1', b'QQ~4    ', b'   ')
    d.raw_add('a_b~23', b'QQ~5    ', b'   ')
    dirs['odd-tails'] = d
    d = MemDir()
    d.raw_add('ÀÉÎÕÜÑ one.dat', 'ÀÉÎÕÜÑ~1'.encode('latin-1'), b'DAT')
    d.raw_add('àéîõüñ~2.dat', b'QQ~1    ', b'DAT')
    d.raw_add('åÅåÅåÅ~1.txt', b'QQ~2    ', b'TXT')
    d.raw_add('café~1.txt', b'QQ~3    ', b'TXT')
    d.raw_add('CAFÉ~2.TXT', b'QQ~4    ', b'TXT')
    d.raw_add('straße~1.txt', b'QQ~5    ', b'TXT')
    d.raw_add('µ~1.txt', b'QQ~6    ', b'TXT')
    d.raw_add('ÿ~1.txt', b'QQ~7    ', b'TXT')
    d.raw_add('_~1.TXT', b'QQ~8    ', b'TXT')
    d.raw_add('______~1.txt', b'QQ~9    ', b'TXT')
    d.raw_add(ASTRAL + '~1', b'QQ~10   ', b'   ')
    dirs['latin1'] = d
    return dirs


# ------------------------------------------------------------------ implementation side
def impl_res(fn, *a):
    try:
        with warnings.catch_warnings():
            warnings.simplefilter('ignore')
            return ('ok', fn(*a))
    except OSError as e:
        return ('err', 'ENOSPC' if e.errno == errno.ENOSPC else 'OSError')
    except Exception as e:
        return ('err', type(e).__name__)


SFN_LEGAL = set(b"ABCDEFGHIJKLMNOPQRSTUVWXYZ0123456789 !#$%&'()@^_`{}~-") | set(range(0x80, 0x100))


def units_of(name):
    return len(name.encode('utf-16le', 'surrogatepass')) // 2


def oracle(ctx, dname, listing, name, recs, info):
    """the property's statements about the stored form, on the implementation's records only"""
    *lf, short = recs
    sfn8, ext3, attr2 = short[0:8], short[8:11], short[12]
    if short[11:12] + short[13:] != info['entry'][11:12] + info['entry'][13:]:
        _viol(ctx, 'fs.names/entry-fields', f'{name!r}: fields other than filename/ext/attr2 changed', info)
    if name in ('.', '..'):
        return
    if not (set(sfn8) | set(ext3)) <= SFN_LEGAL or sfn8[0] in (0x20, 0xE5, 0) and name not in ('',):
        _viol(ctx, 'fs.names/alias-illegal', f'{name!r}: alias {sfn8 + ext3!r} has bytes outside the 8.3 set', info)
    alias = sfn8.rstrip(b' ').decode('latin-1') + ('.' + ext3.rstrip(b' ').decode('latin-1') if ext3.strip() else '')
    if lf and any(s == alias for _, s in listing):
        _viol(ctx, 'fs.names/alias-duplicate', f'{name!r} in directory {dname}: new alias {alias!r} already '
                      f'belongs to another entry', info)
    if lf and any(l.upper() == alias.upper() for l, _ in listing):
        _viol(ctx, 'fs.names/alias-shadows-lfn', f'{name!r} in directory {dname}: new alias {alias!r} equals an '
                      f'existing long name', info)
    # pure 8.3 names need no long entries
    base, dot, ext = name.rpartition('.') if '.' in name[1:] else (name, '', '')
    pure = (1 <= len(base) <= 8 and len(ext) <= 3 and (not dot or ext) and
            all(ord(c) < 128 and ord(c.upper()) in SFN_LEGAL and c != ' ' for c in base + ext) and
            base in (base.upper(), base.lower()) and ext in (ext.upper(), ext.lower()))
    if pure:
        want = (8 if base != base.upper() else 0) | (16 if ext != ext.upper() else 0)
        if lf or attr2 != want or alias != name.upper():
            _viol(ctx, 'fs.names/pure-8.3-uses-lfn', f'{name!r} is pure 8.3: {len(lf)} long records, attr2 '
                          f'{attr2:#x} (want {want:#x}), alias {alias!r}', info)
        return
    if not lf:
        # short only: the displayed name must be the name
        nm = sfn8.rstrip(b' ').decode('latin-1'); ex = ext3.rstrip(b' ').decode('latin-1')
        shown = (nm.lower() if attr2 & 8 else nm) + ('.' + (ex.lower() if attr2 & 16 else ex) if ex else '')
        if shown != name and all(ord(c) < 256 for c in name) and name:
            _viol(ctx, 'fs.names/short-only-differs', f'{name!r} stored short-only shows as {shown!r}', info)
        return
    u = units_of(name)
    k = (u + (1 if u % 13 else 0) + 12) // 13
    ck = cksum(sfn8 + ext3)
    err = None
    if len(lf) != k:
        err = f'{len(lf)} records, expected {k}'
    else:
        for j, r in enumerate(lf):
            want = (k - j) | (0x40 if j == 0 else 0)
            if r[0] != want: err = f'ordinal {r[0]:#x} at {j}, expected {want:#x}'
            elif r[11] != 0x0F or r[12] != 0: err = f'attr/reserved {r[11]:#x}/{r[12]:#x}'
            elif r[13] != ck: err = f'checksum {r[13]:#x}, expected {ck:#x}'
            elif r[26:28] != b'\0\0': err = 'first_cluster not 0'
            if err: break
    if not err:
        raw = b''.join(r[1:11] + r[14:26] + r[28:32] for r in reversed(lf))
        want = name.encode('utf-16le', 'surrogatepass')
        if u % 13:
            want += b'\0\0'
        want += b'\xff' * (26 * k - len(want))
        if raw != want:
            err = 'name units / terminator / padding differ'
    if err:
        _viol(ctx, 'fs.names/lfn-form', f'long-name records of {name!r} are not standard: {err}', info)


def fold_check(ctx, R):
    """re.IGNORECASE on every SFN-legal pattern character against every code point"""
    everything = ''.join(chr(c) for c in range(0x110000))
    lim = 0x2500
    ts = ''.join(chr(c) for c in range(lim))
    pats = sorted(SFN_LEGAL)
    replies = R.batch('fold_class', [[p, ts] for p in pats], chunk=8)
    for p, got in zip(pats, replies):
        cls = sorted(ord(ch) for ch in re.findall(re.escape(chr(p)), everything, re.IGNORECASE))
        ctx.case(('fold', p), len(cls) > 1, 'ignorecase-class')
        got = sorted(got)
        if cls != got or cls[-1] >= lim:
            _viol(ctx, 'fs.names/model-ignorecase', f're.IGNORECASE class of {chr(p)!r} is {cls}, model says {got}',
                          dict(kind='fold', p=p))


def run(ctx):
    t0 = time.time()
    MemDir, ENTRY, lfn_valid, FatPath = _impl()
    R = ctx.runner('FatNames')
    rng = ctx.rng
    entry_bytes = bytes(ENTRY)

    # ---- 1. lfn_valid and the ValueError of FatPath
    class FakeFs:
        pass
    fake = FakeFs()
    vnames = [chr(c) for c in range(0x300)] + ['a' + chr(c) + 'b' for c in range(0x300)] + \
             [chr(c) + 'a' for c in range(0x80)] + ['a' + chr(c) for c in range(0x80)]
    vnames += ['', ' ', '.', '..', '...', 'a.', 'a ', ' a', 'a. ', '.a', 'a\n', 'abc\n', '\n', 'a\nb', 'a\r\n', 'ok name.txt',
               'x' * 255, 'x' * 256, 'x' * 400, ASTRAL, ASTRAL * 128, 'a' + ASTRAL * 127, 'a' + ASTRAL * 128, '\ud800',
               'a\udfff', '　', '　a', 'a　', 'a ', ' a', 'a ', 'a\x7f', '\x7f', 'a\x1f', 'a\x20b']
    vnames += systematic_names()
    got = R.batch('lfn_valid', [[n] for n in vnames], chunk=256)
    for n, g in zip(vnames, got):
        want = bool(lfn_valid(n))
        ctx.case(('valid', n), not want or len(n) > 1, 'lfn_valid')
        if bool(g) != want:
            _viol(ctx, 'fs.names/model-lfn_valid', f'lfn_valid({n!r}) is {want}, the model says {bool(g)}',
                          dict(kind='valid', name=n))
        if '/' not in n and n not in ('', '.', '..'):
            out = impl_res(FatPath, fake, n)
            if (out[0] == 'err') != (not want) or (out[0] == 'err' and out[1] != 'ValueError'):
                _viol(ctx, 'fs.names/invalid-accepted', f'FatPath(fs, {n!r}) gives {out[1] if out[0] == "err" else "a path"}'
                              f' but lfn_valid is {want}', dict(kind='valid', name=n))

    # ---- 2. re.IGNORECASE classes
    fold_check(ctx, R)

    # ---- 3. _get_names / _prefix_entries over names x directories
    with warnings.catch_warnings():
        warnings.simplefilter('ignore')
        dirs = build_dirs(MemDir, ENTRY, rng)
    names = systematic_names() + random_names(rng, 900 if ctx.thorough else 110)
    seen = set()
    names = [n for n in names if not (n in seen or seen.add(n))]
    for dname, d in dirs.items():
        listing = d.listing()
        ex = wire_existing(listing)
        before = list(d._ents)
        use = names if dname in ('empty', 'ten-tails', 'digits-1-5') or ctx.thorough else \
            [n for i, n in enumerate(names) if i % 3 == 0 or n[:1] in 'aAsS~_' or ord(n[:1] or 'x') > 127]
        impl_n = [impl_res(d._get_names, n) for n in use]
        impl_p = [impl_res(d._prefix_entries, n, ENTRY) for n in use]
        if d._ents != before:
            _viol(ctx, 'fs.names/names-wrote', f'_get_names/_prefix_entries changed directory {dname}', dict(dir=dname))
        mod_n = R.batch('get_names', [[n, up_of(n), ex] for n in use], chunk=32)
        mod_p = R.batch('prefix_entries', [[n, up_of(n), ex, entry_bytes] for n in use], chunk=32)
        for n, i_n, i_p, m_n, m_p in zip(use, impl_n, impl_p, mod_n, mod_p):
            m_n, m_p = R.unres(m_n), R.unres(m_p)
            info = dict(kind='names', dir=dname, name=n, up=up_of(n), existing=ex, entry=entry_bytes)
            if i_n[0] == 'ok':
                i_n = ('ok', [bytes(i_n[1][0]), bytes(i_n[1][1]), bytes(i_n[1][2]), i_n[1][3]])
                if m_n[0] == 'ok':
                    m_n = ('ok', [bytes(m_n[1][0]), bytes(m_n[1][1]), bytes(m_n[1][2]), m_n[1][3]])
            if i_p[0] == 'ok':
                i_p = ('ok', [bytes(e) for e in i_p[1]])
                if m_p[0] == 'ok':
                    m_p = ('ok', [bytes(e) for e in m_p[1]])
            u = units_of(n)
            ctx.case(('names', dname, n), True,
                     'err:' + i_n[1] if i_n[0] == 'err' else 'short-only' if not i_n[1][0] else
                     f'lfn-{len(i_n[1][0]) // 26}rec' if u % 13 else 'lfn-exact-fit')
            if i_n != m_n:
                _viol(ctx, 'fs.names/model-get_names', f'_get_names({n!r}) in {dname}: impl {str(i_n)[:160]} model {str(m_n)[:160]}', info)
            elif i_p != m_p:
                _viol(ctx, 'fs.names/model-prefix_entries', f'_prefix_entries({n!r}) in {dname}: impl {str(i_p)[:200]} model {str(m_p)[:200]}', info)
            if i_p[0] == 'ok':
                oracle(ctx, dname, listing, n, i_p[1], info)
            elif i_p[1] != 'ValueError' or (units_of(n) <= 255):
                if not (i_p[1] == 'UnicodeEncodeError' and any(0xD800 <= ord(c) < 0xE000 for c in n)):
                    _viol(ctx, 'fs.names/create-failed', f'_prefix_entries({n!r}) in {dname} raised {i_p[1]}', info)
        ctx.stat('dir:' + dname, len(use))
    ctx.sample(dict(name='Shared Prefix name 12.txt', dir='ten-tails',
                    impl=[bytes(e).hex() for e in impl_res(dirs['ten-tails']._prefix_entries, 'Shared Prefix name 12.txt', ENTRY)[1]]))

    # ---- 4. _get_unique_sfn directly: prefixes with "~", digits, short, Latin-1
    cases = []
    for dname in ('digits-1-5', 'short-prefix', 'odd-tails', 'latin1'):
        d = dirs[dname]
        ex = wire_existing(d.listing())
        pre = ['SHARED', 'SHAREDPR', 'SHARE', 'SHAR', 'SHA', 'SH', 'S', '', 'AB', 'A_B', 'A', 'README', 'ABCDEF', '~', '~1', 'A~1',
               'SHARE~1', 'SHARED~1X', 'ÀÉÎÕÜÑÇ', 'àéîõüñ', 'ÅÅÅÅÅÅ', 'CAFÉ', '______', '_', 'QQ', 'OTHER', 'µ', 'ÿ', 'STRASSE']
        pre += [''.join(rng.choice('AB~1_S') for _ in range(rng.randint(0, 9))) for _ in range(12)]
        for p in pre:
            for e in ('', 'TXT', 'DAT', 'T', 'C~1', 'TX'):
                cases.append((dname, d, ex, p, e))
    mod = R.batch('unique_sfn', [[p, e, ex] for _, _, ex, p, e in cases], chunk=32)
    for (dname, d, ex, p, e), m in zip(cases, mod):
        m = R.unres(m)
        if m[0] == 'ok':
            m = ('ok', lib.as_text(m[1]))
        i = impl_res(d._get_unique_sfn, p, e)
        ctx.case(('usfn', dname, p, e), True, 'unique_sfn')
        if i != m:
            _viol(ctx, 'fs.names/model-unique_sfn', f'_get_unique_sfn({p!r}, {e!r}) in {dname}: impl {i} model {m}',
                          dict(kind='usfn', dir=dname, prefix=p, ext=e, existing=ex))

    many_tails(ctx)

    # ---- 5. a growing directory: every creation through __setitem__, aliases stay distinct
    for fam in (lambda i: 'a' + ' ' * i + 'b', lambda i: f'Shared Prefix name {i}.txt', lambda i: 'ab'[i % 2] + ',;+='[i % 4] * (i // 4 + 1) + 'c',
                lambda i: f'x{i}.longext'):
        d = MemDir()
        count = 120 if ctx.thorough else 24
        for i in range(1, count + 1):
            n = fam(i)
            listing = d.listing()
            m = R.unres(R.call('prefix_entries', [n, up_of(n), wire_existing(listing), entry_bytes]))
            i_p = impl_res(d._prefix_entries, n, ENTRY)
            info = dict(kind='names', dir='grown', name=n, up=up_of(n), existing=wire_existing(listing), entry=entry_bytes)
            ctx.case(('grow', n), True, 'growing-directory')
            if i_p[0] != 'ok':
                _viol(ctx, 'fs.names/create-failed', f'_prefix_entries({n!r}) raised {i_p[1]}', info)
                break
            recs = [bytes(e) for e in i_p[1]]
            if m != ('ok', recs) and (m[0] != 'ok' or [bytes(x) for x in m[1]] != recs):
                _viol(ctx, 'fs.names/model-prefix_entries', f'_prefix_entries({n!r}) in a grown directory differs from the model', info)
            oracle(ctx, 'grown', listing, n, recs, info)
            impl_res(d.__setitem__, n, ENTRY)
        sf = [s for _, s in d.listing()]
        if len(set(sf)) != len(sf):
            dup = sorted(s for s in set(sf) if sf.count(s) > 1)
            _viol(ctx, 'fs.names/alias-duplicate', f'after creating {count} names like {fam(1)!r}: aliases {dup[:3]} occur more than once',
                          dict(kind='grow', names=[fam(i) for i in range(1, count + 1)]))
        lf = [l for l, _ in d.listing()]
        if lf != [fam(i) for i in range(1, count + 1)]:
            _viol(ctx, 'fs.names/listing', f'names like {fam(1)!r}: the listing is not the names created', dict(kind='grow'))

    # ---- 6. ENOSPC (thorough): every tail taken
    if ctx.thorough:
        d = MemDir()
        ents = d._ents[:-1]
        for n in range(1, 0xFFFF):
            s = str(n)
            ents.append(ENTRY._replace(filename=('FULLDIR'[:7 - len(s)] + '~' + s).ljust(8).encode(), ext=b'TXT', attr2=0))
        ents.append(d._ents[-1])
        d._ents = ents
        ex = wire_existing(d.listing())
        for n in ('fulldirectory.txt', 'Fulldir.txt', 'fulldirectory.dat'):
            i = impl_res(d._get_names, n)
            m = R.unres(R.call('get_names', [n, up_of(n), ex]))
            ctx.case(('enospc', n), True, 'full-directory')
            if (i[0], i[1] if i[0] == 'err' else None) != (m[0], m[1] if m[0] == 'err' else None):
                _viol(ctx, 'fs.names/model-get_names', f'_get_names({n!r}) in a full directory: impl {str(i)[:80]} model {str(m)[:80]}',
                              dict(kind='enospc', name=n))
    ctx.extra['fat_names_corr_s'] = round(time.time() - t0, 1)
