"""Shared machinery for the nobodd checks: build (translator -> Coq -> extraction
-> runner), model-runner client, evidence writer, violation protocol."""
import os, sys, json, time, subprocess, fcntl, hashlib, random, re, shutil, tempfile, glob

VERIF = os.path.dirname(os.path.dirname(os.path.abspath(__file__)))
COQ = os.path.join(VERIF, 'coq')
RUNNER = os.path.join(VERIF, 'runner')
REPO = os.environ.get('NOBODD_REPO', '/repo')
PY = '/venv/bin/python'
NPROC = os.cpu_count() or 4

sys.path.insert(0, os.path.join(VERIF, 'harness'))
import translate  # noqa: E402

LINT_RE = re.compile(
    r'\b(Admitted|admit|Axiom|Parameter|Conjecture|Admit Obligations|bypass_check)\b'
    r'|Unset Guard|Unset Positivity|Unset Universe|type-in-type|impredicative-set')


class BuildError(Exception):
    pass


class Hang(BaseException):
    """an implementation call did not return within its time limit (a BaseException so that the broad
    `except Exception` handlers of harness code and of the code under test do not swallow the deadline)"""


import contextlib, signal


_limits = []      # stack of (deadline, what): limits nest, the innermost deadline is armed


def _arm():
    if not _limits:
        signal.setitimer(signal.ITIMER_REAL, 0)
        return
    deadline = min(d for d, _ in _limits)
    signal.setitimer(signal.ITIMER_REAL, max(0.001, deadline - time.time()))


def _on_alarm(signum, frame):
    now = time.time()
    due = [w for d, w in _limits if d <= now + 0.01]
    what = due[-1] if due else (_limits[-1][1] if _limits else 'call')
    # fire again shortly in case a broad handler swallows this exception while the limit is still in force
    signal.setitimer(signal.ITIMER_REAL, 1.0)
    raise Hang(f'{what} did not return within its time limit')


@contextlib.contextmanager
def time_limit(seconds, what='call'):
    """raise Hang in the main thread if the block runs longer (pure-Python loops are interruptible)"""
    import threading
    if threading.current_thread() is not threading.main_thread():
        yield
        return
    if not _limits:
        signal.signal(signal.SIGALRM, _on_alarm)
    entry = (time.time() + seconds, what)
    _limits.append(entry)
    _arm()
    try:
        yield
    finally:
        if entry in _limits:
            _limits.remove(entry)
        _arm()


def sh(cmd, cwd=None, timeout=1800, env=None):
    p = subprocess.run(cmd, cwd=cwd, shell=isinstance(cmd, str), timeout=timeout,
                       stdout=subprocess.PIPE, stderr=subprocess.STDOUT, text=True, env=env)
    return p.returncode, p.stdout


def strip_comments(text):
    out, depth, i = [], 0, 0
    while i < len(text):
        if text.startswith('(*', i):
            depth += 1; i += 2
        elif text.startswith('*)', i) and depth:
            depth -= 1; i += 2
        else:
            if not depth:
                out.append(text[i])
            i += 1
    return ''.join(out)




def cone(rel):
    """transitive NV-dependencies of coq/<rel> (by its Require lines), including itself"""
    seen, todo = set(), [rel]
    while todo:
        r = todo.pop()
        if r in seen:
            continue
        path = os.path.join(COQ, r)
        if not os.path.exists(path):
            if r.startswith('Gen' + os.sep):
                seen.add(r)          # generated file not produced yet: still part of the cone
            continue
        seen.add(r)
        with open(path) as f:
            body = strip_comments(f.read())
        for m in re.finditer(r'From\s+NV\s+Require\s+(?:Import\s+|Export\s+)?((?:\w+(?:\.\w+)*\s*)+)\.(?=\s)', body):
            for mod in m.group(1).split():
                todo.append(mod.replace('.', os.sep) + '.v')
    return seen


def gen_needed(rel):
    """names of the Gen/<Name>.v files in the dependency cone of coq/<rel> (only those are
    regenerated, so that concurrent checks against different trees do not disturb each other)"""
    out = set()
    for f in cone(rel):
        d, b = os.path.split(f)
        if d == 'Gen':
            out.add(os.path.splitext(b)[0])
    # Gen files that do not exist yet cannot be found through the cone of their dependants' text only
    return out or None


def lint(files=None):
    """no Admitted/Axiom/... in the given files (default: whole development), outside comments"""
    bad = []
    paths = ([os.path.join(COQ, f) for f in sorted(files)] if files is not None
             else glob.glob(os.path.join(COQ, '**', '*.v'), recursive=True))
    for path in paths:
        if not os.path.exists(path):
            continue
        with open(path) as f:
            body = strip_comments(f.read())
        for ln, line in enumerate(body.splitlines(), 1):
            if LINT_RE.search(line):
                bad.append(f'{os.path.relpath(path, COQ)}:{ln}: {line.strip()[:80]}')
            if re.match(r'\s*(Variable|Hypothesis|Variables|Hypotheses)\b', line):
                # allowed only inside a Section: checked crudely by requiring a Section earlier
                pre = body.splitlines()[:ln]
                opened = sum(1 for l in pre if re.match(r'\s*Section\b', l))
                closed = sum(1 for l in pre if re.match(r'\s*End\b', l))
                if opened <= closed:
                    bad.append(f'{os.path.relpath(path, COQ)}:{ln}: top-level {line.strip()[:60]}')
    return bad


class Lock:
    def __init__(self, name='.build.lock'):
        self.path = os.path.join(VERIF, name)
    def __enter__(self):
        self.f = open(self.path, 'w')
        fcntl.flock(self.f, fcntl.LOCK_EX)
    def __exit__(self, *a):
        fcntl.flock(self.f, fcntl.LOCK_UN)
        self.f.close()


def coq_sources():
    out = []
    for path in sorted(glob.glob(os.path.join(COQ, '**', '*.v'), recursive=True)):
        rel = os.path.relpath(path, COQ)
        if rel.startswith('Extract' + os.sep) or rel.startswith('.'):
            continue
        out.append(rel)
    return out


def gen_makefile():
    proj = ['-Q . NV',
            '-arg -w -arg -notation-overridden,-deprecated-hint-without-locality,'
            '-deprecated-instance-without-locality,-ambiguous-paths'] + coq_sources()
    text = '\n'.join(proj) + '\n'
    path = os.path.join(COQ, '_CoqProject')
    old = open(path).read() if os.path.exists(path) else None
    if old != text or not os.path.exists(os.path.join(COQ, 'Makefile.coq')):
        with open(path, 'w') as f:
            f.write(text)
        rc, out = sh(['coq_makefile', '-f', '_CoqProject', '-o', 'Makefile.coq'], cwd=COQ)
        if rc:
            raise BuildError('coq_makefile failed: ' + out)


def make(targets, keep_going=False, timeout=1500):
    cmd = ['timeout', str(timeout), 'make', '-f', 'Makefile.coq', f'-j{NPROC}'] + \
          (['-k'] if keep_going else []) + list(targets)
    return sh(cmd, cwd=COQ, timeout=timeout + 60)


def build_runner(area):
    """extract <Area>/Run.v dispatch and compile the OCaml runner if stale"""
    lower = area.lower()
    d = os.path.join(RUNNER, lower)
    os.makedirs(d, exist_ok=True)
    vo = os.path.join(COQ, area, 'Run.vo')
    rc, out = make([f'{area}/Run.vo'])
    if rc:
        raise BuildError(f'model {area} does not build:\n{out[-3000:]}')
    exe = os.path.join(d, 'modelrun')
    ml = os.path.join(d, 'model.ml')
    drv = os.path.join(RUNNER, 'driver.ml')
    stale = (not os.path.exists(exe) or not os.path.exists(ml)
             or os.path.getmtime(ml) < os.path.getmtime(vo)
             or os.path.getmtime(exe) < os.path.getmtime(ml)
             or os.path.getmtime(exe) < os.path.getmtime(drv))
    # any dependency newer than model.ml?  (make rebuilt Run.vo if so)
    if stale:
        ext = os.path.join(COQ, 'Extract', area + '.v')
        rc, out = sh(['timeout', '600', 'coqc', '-Q', COQ, 'NV', ext], cwd=d)
        if rc:
            raise BuildError(f'extraction of {area} failed:\n{out[-3000:]}')
        shutil.copy(drv, os.path.join(d, 'driver.ml'))
        rc, out = sh(['timeout', '600', 'ocamlfind', 'ocamlopt', '-O2', '-w', '-a', '-unsafe',
                      'model.mli', 'model.ml', 'driver.ml', '-o', 'modelrun'], cwd=d)
        if rc:
            raise BuildError(f'ocaml build of {area} failed:\n{out[-3000:]}')
    return exe


THEOREM_RE = re.compile(r'^\s*Theorem\s+(\w+)', re.M)


def prop_theorems(prop):
    path = os.path.join(COQ, 'Props', prop + '.v')
    with open(path) as f:
        text = f.read()
    names, lines = [], []
    for m in THEOREM_RE.finditer(text):
        names.append(m.group(1))
        lines.append(text.count('\n', 0, m.start()) + 1)
    return names, lines


def build_props(prop):
    """Build Props/<prop>.vo.  Returns dict(ok, obligations, discharged, failed, log,
    assumptions, translate_errors)."""
    with Lock():
        terr = translate.run(gen_needed(os.path.join('Props', prop + '.v')))
        gen_makefile()
        t0 = time.time()
        rc, out = make([f'Props/{prop}.vo'])
        names, lines = prop_theorems(prop)
        res = dict(ok=(rc == 0), theorem_names=names, obligations=len(names), discharged=len(names) if rc == 0 else 0,
                   failed=None, log=out[-6000:], assumptions={}, translate_errors={k: v for k, v in terr.items() if v},
                   checker_cmd=f'cd /verif/coq && make -f Makefile.coq Props/{prop}.vo  (coqc 8.16.1, full .vo build)',
                   build_s=round(time.time() - t0, 1))
        if rc != 0:
            m = re.search(r'File "\./Props/%s\.v", line (\d+)' % prop, out)
            if m:
                ln = int(m.group(1))
                done = [n for n, l in zip(names, lines) if l <= ln]
                res['failed'] = done[-1] if done else names[0] if names else None
                res['discharged'] = max(0, len(done) - 1)
            else:
                m2 = re.search(r'File "\./([\w/]+\.v)", line (\d+)', out)
                res['failed'] = (m2.group(1) + ':' + m2.group(2)) if m2 else 'build'
        else:
            res['assumptions'] = print_assumptions(prop, names)
        bad = lint(cone(os.path.join('Props', prop + '.v')))
        if bad:
            res['ok'] = False
            res['failed'] = 'lint: ' + '; '.join(bad[:5])
            res['discharged'] = 0
        return res


def print_assumptions(prop, names):
    d = os.path.join(COQ, '.pa')
    os.makedirs(d, exist_ok=True)
    src = os.path.join(d, f'{prop}_pa.v')
    body = f'From NV Require Import Props.{prop}.\n' + ''.join(
        f'Print Assumptions {n}.\n' for n in names)
    with open(src, 'w') as f:
        f.write(body)
    rc, out = sh(['timeout', '300', 'coqc', '-Q', COQ, 'NV', src], cwd=d)
    res = {}
    chunks = re.split(r'(?m)^(?=Closed under the global context|Axioms:)', out)
    chunks = [c.strip() for c in chunks if c.strip()]
    for n, c in zip(names, chunks):
        res[n] = ' '.join(c.split())
    if rc != 0 or len(chunks) != len(names):
        res['_error'] = out[-500:]
    return res


# --------------------------------------------------------------------- runner client
class U(tuple):
    """a string of code points (python str on the wire)"""

class Zint(int):
    """force signed encoding"""


def enc(v):
    if isinstance(v, bool):
        return 'n1' if v else 'n0'
    if isinstance(v, Zint):
        return ('z-%x' % -v) if v < 0 else ('z%x' % v)
    if isinstance(v, int):
        return ('z-%x' % -v) if v < 0 else ('n%x' % v)
    if isinstance(v, (bytes, bytearray, memoryview)):
        return 's' + bytes(v).hex()
    if isinstance(v, str):
        if all(ord(c) < 256 for c in v):
            return 's' + v.encode('latin-1').hex()
        return 'u' + ','.join('%x' % ord(c) for c in v)
    if v is None:
        return '( )'
    if isinstance(v, (list, tuple)):
        return '( ' + ' '.join(enc(x) for x in v) + ' )' if v else '( )'
    raise TypeError(f'cannot encode {type(v)}')


def dec_tokens(toks, i=0):
    t = toks[i]
    if t == '(':
        out = []
        i += 1
        while toks[i] != ')':
            v, i = dec_tokens(toks, i)
            out.append(v)
        return out, i + 1
    if t[0] == 'n':
        return int(t[1:], 16), i + 1
    if t[0] == 'z':
        return (-int(t[2:], 16) if t[1:2] == '-' else int(t[1:], 16)), i + 1
    if t[0] == 's':
        return bytes.fromhex(t[1:]), i + 1
    if t[0] == 'u':
        body = t[1:]
        return U(int(x, 16) for x in body.split(',')) if body else U(), i + 1
    raise ValueError('bad token ' + t)


def corr_run(ctx, mod):
    """run one model-correspondence module under a deadline: an implementation call that does not return is a finding"""
    try:
        with time_limit(1800 if ctx.thorough else 300, mod.__name__):
            mod.run(ctx)
    except Hang as exc:
        ctx.violation(f'{mod.__name__}/did-not-terminate', f'{exc}: an implementation call driven by {mod.__name__} does not return on this tree',
                      dict(note=str(exc), last_samples=ctx.samples[-2:]))
    except BuildError as exc:
        # the model of this layer does not build against the current source (reported by check.py as a broken tie);
        # the rest of the check -- the oracle pass on the implementation -- still runs and looks for a failing input
        ctx.model_unavailable = ctx.model_unavailable or str(exc)[:2000]


def corr_modules(ctx, spec, names):
    """run the named model-correspondence modules and merge their theorem lists / trusted base into the check's SPEC"""
    import importlib
    for name in names:
        mod = importlib.import_module(name)
        corr_run(ctx, mod)
        spec['theorems'].update(getattr(mod, 'SPEC_THEOREMS', {}))
        spec['trusted_base'].extend(x for x in getattr(mod, 'TRUSTED', []) if x not in spec['trusted_base'])


def as_text(v):
    """bytes or U -> python str of code points"""
    if isinstance(v, (bytes, bytearray)):
        return bytes(v).decode('latin-1')
    return ''.join(chr(c) for c in v)


class Runner:
    def __init__(self, area, stale_ok=False):
        self.area = area
        self.stale = None
        with Lock():
            translate.run(gen_needed(os.path.join(area, 'Run.v')))
            gen_makefile()
            try:
                self.exe = build_runner(area)
            except BuildError as exc:
                # A SPECIFICATION-level runner (the FAT reader used as an oracle) that no longer builds against the
                # changed source: keep using the last one that was built -- the specification does not change because
                # the code did.  The broken build is reported separately; this only keeps the search for a failing
                # input alive.
                exe = os.path.join(RUNNER, area.lower(), 'modelrun')
                if not (stale_ok and os.path.exists(exe)):
                    raise
                self.exe = exe
                self.stale = str(exc)[:500]
        self.p = None
        self.calls = 0

    def start(self):
        self.p = subprocess.Popen(['/bin/sh', '-c', f'ulimit -s unlimited 2>/dev/null; exec {self.exe}'],
                                  stdin=subprocess.PIPE, stdout=subprocess.PIPE,
                                  text=True, bufsize=1)

    limit = 45          # seconds per call; raised by checks that hand the list-based reader a deliberately big volume

    def call(self, cmd, arg):
        if self.p is None or self.p.poll() is not None:
            self.start()
        try:
            with time_limit(self.limit, f"model runner {self.area}.{cmd}"):
                self.p.stdin.write(cmd + ' ' + enc(arg) + '\n')
                self.p.stdin.flush()
                line = self.p.stdout.readline()
        except Hang:
            self.p.kill()
            self.p = None
            raise
        if not line:
            raise BuildError(f'model runner {self.area} died on {cmd}')
        self.calls += 1
        v, _ = dec_tokens(line.split())
        return v

    def batch(self, cmd, args, chunk=64):
        """many calls of one command; returns list of decoded replies"""
        out = []
        for i in range(0, len(args), chunk):
            part = args[i:i + chunk]
            if self.p is None or self.p.poll() is not None:
                self.start()
            import threading
            data = ''.join(cmd + ' ' + enc(a) + '\n' for a in part)
            th = threading.Thread(target=lambda: (self.p.stdin.write(data), self.p.stdin.flush()))
            th.start()
            for _ in part:
                line = self.p.stdout.readline()
                if not line:
                    raise BuildError(f'model runner {self.area} died on {cmd}')
                out.append(dec_tokens(line.split())[0])
            th.join()
            self.calls += len(part)
        return out

    @staticmethod
    def unres(v):
        if v and v[0] == 0:
            return ('ok', v[1])
        if v and v[0] == 1:
            return ('err', v[1].decode())
        raise BuildError(f'bad runner reply {v!r}')

    def res(self, cmd, arg):
        """decode a VRes: returns ('ok', payload) or ('err', name)"""
        v = self.call(cmd, arg)
        if v and v[0] == 0:
            return ('ok', v[1])
        if v and v[0] == 1:
            return ('err', v[1].decode())
        if v and v[0] == b'ERR':
            raise BuildError(f'runner error: {v}')
        raise BuildError(f'bad runner reply {v!r}')

    def close(self):
        if self.p:
            try:
                self.p.stdin.close(); self.p.wait(timeout=5)
            except Exception:
                self.p.kill()
            self.p = None


# --------------------------------------------------------------------- check context
def load_known():
    path = os.path.join(VERIF, 'known_findings.json')
    if os.path.exists(path):
        with open(path) as f:
            return json.load(f)
    return {'findings': [], 'fixed': []}


class Ctx:
    def __init__(self, prop, tier, seed):
        self.prop, self.tier, self.seed = prop, tier, seed
        self.rng = random.Random(seed)
        self.t0 = time.time()
        self.evaluations = 0
        self.nontrivial = set()
        self.samples = []
        self.stats = {}
        self.violations = []      # (signature, description, replay object)
        self.known_hits = []
        self.known = [k for k in load_known().get('findings', []) if k.get('property') == prop]
        self.runners = {}
        self.extra = {}
        self.assumptions = []
        self.thorough = (tier == 'thorough')
        self.model_unavailable = None

    def runner(self, area):
        if area not in self.runners:
            # the FAT specification reader is an oracle: a stale build of it is still the specification
            self.runners[area] = Runner(area, stale_ok=(area == 'Fat'))
            if self.runners[area].stale:
                self.model_unavailable = 'Fat (specification reader) rebuilt from the last buildable tree: ' + self.runners[area].stale
        return self.runners[area]

    def try_runner(self, area):
        """the model runner, or None when the model cannot be built (the oracle pass then
        still runs on the implementation alone; the broken model is reported by check.py)"""
        try:
            return self.runner(area)
        except BuildError as exc:
            self.model_unavailable = str(exc)[:2000]
            return None

    def case(self, key=None, nontrivial=True, kind=None):
        self.evaluations += 1
        if nontrivial and key is not None:
            if not isinstance(key, (str, bytes, int)):
                key = json.dumps(key, sort_keys=True, default=repr)
            self.nontrivial.add(hashlib.blake2b(repr(key).encode(), digest_size=8).digest())
        if kind:
            self.stats[kind] = self.stats.get(kind, 0) + 1

    def stat(self, kind, n=1):
        self.stats[kind] = self.stats.get(kind, 0) + n

    def sample(self, obj, limit=6):
        if len(self.samples) < limit:
            self.samples.append(obj)

    def violation(self, signature, what, replay):
        """signature: short stable string identifying the failing call site/input class"""
        for k in self.known:
            if k.get('signature') == signature:
                if signature not in [h[0] for h in self.known_hits]:
                    self.known_hits.append((signature, k.get('what', what)))
                return
        if len(self.violations) < 20:
            self.violations.append((signature, what, replay))

    def close(self):
        for r in self.runners.values():
            r.close()


def jsonable(o):
    if isinstance(o, (bytes, bytearray)):
        return {'hex': bytes(o).hex()}
    if isinstance(o, (set, frozenset)):
        return sorted(jsonable(x) for x in o)
    if isinstance(o, dict):
        return {str(k): jsonable(v) for k, v in o.items()}
    if isinstance(o, (list, tuple)):
        return [jsonable(x) for x in o]
    if isinstance(o, (int, float, str, bool)) or o is None:
        return o
    return repr(o)


def write_evidence(ctx, build, spec):
    cov = {
        'obligations': max(1, build['obligations']),
        'discharged': build['discharged'],
        'checker_cmd': build['checker_cmd'],
        'trusted_base': spec.get('trusted_base', []) + [
            f'{k}: {v}' for k, v in sorted(build.get('assumptions', {}).items())],
        'evaluations': ctx.evaluations,
        'distinct_nontrivial': len(ctx.nontrivial),
        'rule': spec.get('rule', ''),
        'samples': jsonable(ctx.samples) or ['(no correspondence cases ran)'],
        'traces_validated_against_impl': ctx.evaluations,
        'distribution': ctx.stats,
        'theorems': {**{n: ('partial (see level_note)' if 'partial' in n else 'full') for n in build.get('theorem_names', [])},
                     **spec.get('theorems', {})},
        'proof_build_ok': build['ok'],
        'failed_obligation': build.get('failed'),
        'translator_errors': build.get('translate_errors', {}),
        'known_findings_hit': [h[0] for h in ctx.known_hits],
    }
    cov.update(jsonable(ctx.extra))
    ev = {
        'property_id': ctx.prop, 'tier': ctx.tier, 'seed': ctx.seed, 'level': 'proof',
        'coverage': cov,
        'assumptions': spec.get('assumptions', []) + ctx.assumptions,
        'wall_s': round(time.time() - ctx.t0, 2),
        'violations': len(ctx.violations),
    }
    # evidence/ describes /repo itself; a run against another tree (NOBODD_REPO: a scratch worktree with a seeded
    # change applied) must not overwrite it
    edir = 'evidence' if os.path.realpath(os.environ.get('NOBODD_REPO', '/repo')) == '/repo' else 'evidence-scratch'
    os.makedirs(os.path.join(VERIF, edir), exist_ok=True)
    with open(os.path.join(VERIF, edir, ctx.prop + '.json'), 'w') as f:
        json.dump(ev, f, indent=1)


def write_replay(ctx, name, obj):
    d = os.path.join(VERIF, 'replays')
    os.makedirs(d, exist_ok=True)
    h = hashlib.blake2b(json.dumps(jsonable(obj), sort_keys=True).encode(), digest_size=5).hexdigest()
    path = os.path.join(d, f'{ctx.prop}-{name}-{h}.json')
    with open(path, 'w') as f:
        json.dump(jsonable(obj), f, indent=1)
    return path


def repo_env():
    env = dict(os.environ)
    env['PYTHONPATH'] = REPO
    env['PYTHONHASHSEED'] = '0'
    env['NOBODD_VERIF'] = '1'
    env.pop('PYTHONSTARTUP', None)
    return env
