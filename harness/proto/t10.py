import sys, struct, socket, threading, time, tempfile, os, warnings
sys.path.insert(0, '/repo')
from mkfat import mkfat
from nobodd.fs import FatFileSystem
from nobodd.server import BootServer
from nobodd.config import Board
from pathlib import Path
vol = mkfat('fat16', 5000)
fs = FatFileSystem(vol)
(fs.root/'ok.txt').write_bytes(b'hello world')
(fs.root/'z.bin').write_bytes(b'')
fs.fat.mark_end(9)
idx = fs.root._index
idx['z.bin'] = idx['z.bin']._replace(first_cluster_lo=9)
fs.close()
disk = bytearray(512*2048) + vol
p = struct.pack('<B3sB3sII', 0, b'\0\0\0', 0x0e, b'\0\0\0', 2048, len(vol)//512)
disk[446:462] = p; disk[510:512] = b'\x55\xaa'
f = tempfile.NamedTemporaryFile(suffix='.img', delete=False); f.write(disk); f.close()
srv = BootServer(('127.0.0.1', 0), {0x1234abcd: Board(0x1234abcd, Path(f.name), 1, None)})
t = threading.Thread(target=srv.serve_forever, daemon=True); t.start()
def rrq(name):
    s = socket.socket(socket.AF_INET, socket.SOCK_DGRAM); s.settimeout(2)
    s.sendto(b'\0\1' + name + b'\0octet\0', srv.server_address)
    try:
        d, a = s.recvfrom(65536); print(name, '->', d[:30]); 
        if d[:2] == b'\0\3': s.sendto(b'\0\4' + d[2:4], a)
    except Exception as e: print(name, 'no reply', e)
    s.close()
rrq(b'1234abcd/ok.txt'); time.sleep(0.3)
print('reaper alive', srv.subs.is_alive(), 'alive map', len(srv.subs._alive), 'threads', threading.active_count())
rrq(b'1234abcd/z.bin'); time.sleep(0.5)
print('reaper alive', srv.subs.is_alive(), 'alive map', len(srv.subs._alive), 'threads', threading.active_count())
rrq(b'1234abcd/ok.txt'); time.sleep(0.5)
print('reaper alive', srv.subs.is_alive(), 'alive map', len(srv.subs._alive), 'threads', threading.active_count())
srv.shutdown(); 
try: srv.server_close()
except Exception as e: print('server_close RAISED', repr(e))
os.unlink(f.name)
