import sys, struct, tempfile, warnings
sys.path.insert(0, '/repo')
from nobodd.disk import DiskImage
def part(t, first, size): return struct.pack('<B3sB3sII', 0, b'\0\0\0', t, b'\0\0\0', first, size)
def mbr(parts):
    s = bytearray(512)
    for i, p in enumerate(parts): s[446+16*i:462+16*i] = p
    s[510:512] = b'\x55\xaa'
    return s
img = bytearray(512*200)
img[0:512] = mbr([part(0x0c, 10, 20), part(0x05, 50, 100)])
# extended at 50 with zero logicals: EBR with empty entries
img[50*512:51*512] = mbr([])
with tempfile.NamedTemporaryFile() as f:
    f.write(img); f.flush()
    d = DiskImage(f.name)
    print('keys', list(d.partitions))
    p = d.partitions[5]; print('p5', p.type, len(p.data)); p.close()
    d.close()
# EBR with deleted first logical but link to next
img[50*512:51*512] = mbr([part(0,0,0), part(0x05, 20, 30)])
img[70*512:71*512] = mbr([part(0x83, 2, 10)])
with tempfile.NamedTemporaryFile() as f:
    f.write(img); f.flush()
    d = DiskImage(f.name)
    print('keys', list(d.partitions))
    d.close()
