import sys, io, logging
sys.path.insert(0,'/repo')
import nobodd.netascii
from nobodd import tftpd
from nobodd.tftp import *
logging.disable(logging.CRITICAL)
class FakeSock:
    def __init__(s): s.sent=[]
    def sendto(s, b, a): s.sent.append((bytes(b), a)); return len(b)
class P:
    def __init__(s, data): s.data=data
    def open(s, m): return io.BytesIO(s.data)
class SubSrv:
    logger = tftpd.TFTPBaseServer.logger
    server_address=('127.0.0.1', 4000)
    def __init__(s, st): s.client_state=st; s.done=False
def sub(state, pkt, src=('c',1)):
    srv = SubSrv(state) if not hasattr(state,'_srv') else state._srv
    state._srv = srv
    sock = FakeSock()
    h = tftpd.TFTPSubHandler.__new__(tftpd.TFTPSubHandler)
    h.request=(pkt, sock); h.client_address=src; h.server=srv
    h.setup()
    try: h.handle()
    except Exception as e: print('  handler raised', repr(e))
    h.finish()
    return sock.sent, srv.done
B=8
st = tftpd.TFTPClientState(('c',1), P(b'x'*(B*65535)), 'octet'); st.block_size=B
st.blocks_read = 65534; st.source.seek(65534*B)
print(sub(st, bytes(ACKPacket(65534))))
print(sub(st, bytes(ACKPacket(65535))))
print('cache keys', list(st.blocks))
st = tftpd.TFTPClientState(('c',1), P(b'abcdefghij'), 'octet'); st.block_size=B
for pkt in [b'', b'\0', b'\0\4', b'\0\4\0', bytes(ACKPacket(0)), bytes(ACKPacket(0)), bytes(ACKPacket(5)),]:
    st._srv = SubSrv(st) if not hasattr(st, '_srv') else st._srv
    print(pkt, sub(st, pkt))
st = tftpd.TFTPClientState(('c',1), P(b'abcdefghij'), 'octet')
for o in [{'blksize':'0x10'},{'blksize':' 16 '},{'blksize':'1_6'},{'timeout':'inf'},{'timeout':'nan'},{'timeout':'0.5'},{'timeout':'1e2'},{'utimeout':'10000','timeout':'abc'},{'tsize':'0','BLKSIZE':'9'}, {'timeout':'255'}, {'timeout':'256'}, {'utimeout':'9999'}]:
    st = tftpd.TFTPClientState(('c',1), P(b'abcdefghij'), 'octet')
    try: print(o, '->', st.negotiate(o), st.block_size, st.timeout)
    except Exception as e: print(o, 'RAISED', type(e).__name__, e)
e = ERRORPacket(0, 'caf\xe9')
try: bytes(e)
except Exception as ex: print('bytes(ERROR non-ascii) RAISED', type(ex).__name__)
