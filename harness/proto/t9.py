import sys, threading, time
sys.path.insert(0, '/repo')
import nobodd.locks as L
pause = {}   # (thread name, lock idx, op) -> (reached Event, go Event)
count = [0]
RealLock = threading.Lock
class TLock:
    def __init__(self):
        self.l = RealLock(); self.idx = count[0]; count[0] += 1
    def _hook(self, op):
        k = (threading.current_thread().name, self.idx, op)
        if k in pause:
            reached, go = pause[k]; reached.set(); go.wait()
    def acquire(self, blocking=True, timeout=-1):
        self._hook('acq'); return self.l.acquire(blocking, timeout)
    def release(self):
        self.l.release(); self._hook('rel')
    def __enter__(self): self.acquire(); return self
    def __exit__(self, *a): self.release()
class Shim:
    Lock = TLock; local = threading.local
L.threading = Shim
rw = L.RWLock()   # creation order: block_writers=0, block_readers=1, switch mutex=2
reachedB, goB = threading.Event(), threading.Event()
pause[('B', 1, 'rel')] = (reachedB, goB)   # B pauses after releasing turnstile
logA = []
def A():
    rw.read.acquire(); logA.append('A read')
    reachedB.wait()                 # B is past the turnstile
    rw.write.acquire(); logA.append('A upgraded')
    goB.set(); time.sleep(0.3)      # B now enters the light switch and blocks on block_writers holding mutex
    rw.write.release(); logA.append('A downgraded')
    rw.read.release(); logA.append('A done')
def B():
    rw.read.acquire(); rw.read.release()
ta = threading.Thread(target=A, name='A', daemon=True); tb = threading.Thread(target=B, name='B', daemon=True)
ta.start(); time.sleep(0.1); tb.start()
ta.join(3); tb.join(1)
print(logA, 'A alive:', ta.is_alive(), 'B alive:', tb.is_alive())
