"""Gen/Disk.v: struct layouts of mbr.py / gpt.py and every constant, comparison and
arithmetic expression of disk.py's partition-table parsing, as Coq definitions.

Reusable pieces (for other struct tables, e.g. nobodd/fat.py):
  layout_from_desc(text) -> [(kind, n, label)]   kind in 'U','S','P'
  coq_layout(fields)     -> Coq term of type Lib.Struct.layout
  check_struct_class(tree, cls_name, table_name) -> verifies the namedtuple/Struct wiring
  cx(node, env, ty)      -> Coq text of a python arithmetic / boolean expression
Everything fails closed with TranslateError.
"""
import ast, re
from translate import *

NAME = 'Disk'

# ------------------------------------------------------------------ struct tables
INT_SIZES = {'B': 1, 'H': 2, 'I': 4, 'Q': 8}


def layout_from_desc(text):
    """Same line discipline as tools.labels/tools.formats: one `fmt label` entry per
    non-empty line.  Understands B H I Q, <n>s and <n>x only."""
    if not isinstance(text, str):
        raise TranslateError('struct table is not a string')
    fields = []
    for line in text.splitlines():
        if not line:
            continue
        parts = line.split(None, 1)
        if len(parts) != 2:
            raise TranslateError(f'struct table line not understood: {line!r}')
        fmt, label = parts[0], parts[1]
        if label != label.strip() or not label.isidentifier():
            raise TranslateError(f'struct table label not understood: {label!r}')
        m = re.fullmatch(r'(\d*)([A-Za-z?])', fmt)
        if not m:
            raise TranslateError(f'struct format not understood: {fmt!r}')
        cnt, ch = m.group(1), m.group(2)
        if ch in INT_SIZES:
            if cnt not in ('',):
                raise TranslateError(f'repeat count on integer format not supported: {fmt!r}')
            fields.append(('U', INT_SIZES[ch], label))
        elif ch == 's':
            fields.append(('S', int(cnt) if cnt else 1, label))
        elif ch == 'x':
            fields.append(('P', int(cnt) if cnt else 1, label))
        else:
            raise TranslateError(f'struct format character not supported: {fmt!r}')
    names = [f[2] for f in fields if f[0] != 'P']
    if len(set(names)) != len(names):
        raise TranslateError('duplicate field label')
    return fields


def coq_string(s):
    if '"' in s or any(ord(c) > 126 or ord(c) < 32 for c in s):
        raise TranslateError(f'string not representable: {s!r}')
    return '"' + s + '"'


def coq_layout(fields):
    ctor = {'U': 'FU', 'S': 'FS', 'P': 'FPad'}
    return '[' + '; '.join(f'({ctor[k]} {n}, {coq_string(lab)})' for k, n, lab in fields) + ']'


def layout_size(fields):
    return sum(n for _, n, _ in fields)


def strip_doc(fn):
    body = fn.body
    if body and isinstance(body[0], ast.Expr) and isinstance(body[0].value, ast.Constant) \
            and isinstance(body[0].value.value, str):
        body = body[1:]
    return body


def body_text(fn):
    return '\n'.join(ast.unparse(s) for s in strip_doc(fn))


def expect(cond, what):
    if not cond:
        raise TranslateError(what)


def check_tools(tools):
    """tools.labels / tools.formats are the functions this translator mirrors"""
    lab = find_func(tools.body, 'labels')
    fmt = find_func(tools.body, 'formats')
    expect(body_text(lab) == "return tuple((label for line in desc.splitlines() if line for "
           "fmt, label in (line.split(None, 1),) if not fmt.endswith('x')))",
           'tools.labels changed')
    expect(body_text(fmt) == "return prefix + ''.join((fmt for line in desc.splitlines() if line "
           "for fmt, label in (line.split(None, 1),)))", 'tools.formats changed')
    expect(ast.unparse(fmt.args) == "desc, prefix='<'", 'tools.formats: default prefix is not "<" (little-endian)')
    expect(ast.unparse(lab.args) == 'desc', 'tools.labels signature changed')


def check_struct_class(tree, cls_name, table):
    """class X(namedtuple('X', labels(T))) with _FORMAT = struct.Struct(formats(T)) and the
    standard __bytes__/from_bytes/from_buffer"""
    cls = find_class(tree, cls_name)
    expect([ast.unparse(b) for b in cls.bases] == [f"namedtuple('{cls_name}', labels({table}))"],
           f'{cls_name}: base class changed')
    assigns = {ast.unparse(n.targets[0]): ast.unparse(n.value) for n in cls.body if isinstance(n, ast.Assign)}
    expect(assigns.get('_FORMAT') == f'struct.Struct(formats({table}))',
           f'{cls_name}._FORMAT is not struct.Struct(formats({table})) (prefix must stay "<")')
    want = {'__bytes__': ('self', 'return self._FORMAT.pack(*self)'),
            'from_bytes': ('cls, s', 'return cls(*cls._FORMAT.unpack(s))'),
            'from_buffer': ('cls, buf, offset=0', 'return cls(*cls._FORMAT.unpack_from(buf, offset))')}
    for name, (args, text) in want.items():
        fn = find_func(cls.body, name)
        expect(ast.unparse(fn.args) == args and body_text(fn) == text, f'{cls_name}.{name} changed')
    return cls


# ------------------------------------------------------------------ expressions
BYTES_VARS = {'signature', 'type_guid', 'part_guid'}


def _const(node):
    try:
        return const_eval(node, {})
    except TranslateError:
        return None
    except Exception:
        return None


def cx(node, env, ty='N'):
    """python expression -> Coq text.  env: source text of a sub-expression -> Coq variable.
    ty: 'N' or 'Z' for the integer type.  Booleans become Coq bool."""
    S = '%' + ty
    src = ast.unparse(node)
    if src in env:
        return env[src]
    if isinstance(node, ast.Constant):
        v = node.value
        if isinstance(v, bool):
            return coq_bool(v)
        if isinstance(v, int):
            if v < 0 and ty == 'N':
                raise TranslateError('negative constant in N expression')
            return f'{v}{S}' if v >= 0 else f'({v}){S}'
        raise TranslateError(f'constant not supported here: {v!r}')
    if isinstance(node, ast.BinOp):
        a, b = cx(node.left, env, ty), cx(node.right, env, ty)
        op = {ast.Add: '+', ast.Sub: '-', ast.Mult: '*', ast.FloorDiv: '/'}.get(type(node.op))
        if op is None:
            raise TranslateError(f'operator not supported: {src}')
        return f'({a} {op} {b}){S}'
    if isinstance(node, ast.UnaryOp) and isinstance(node.op, ast.Not):
        return f'(negb {cx(node.operand, env, ty)})'
    if isinstance(node, ast.BoolOp):
        op = ' && ' if isinstance(node.op, ast.And) else ' || '
        return '(' + op.join(cx(v, env, ty) for v in node.values) + ')'
    if isinstance(node, ast.Compare):
        terms = [node.left] + list(node.comparators)
        out = []
        for l, o, r in zip(terms, node.ops, terms[1:]):
            out.append(_cmp(l, o, r, env, ty))
        return out[0] if len(out) == 1 else '(' + ' && '.join(out) + ')'
    raise TranslateError(f'expression not understood: {src}')


def _cmp(l, o, r, env, ty):
    S = '%' + ty
    lc, rc = _const(l), _const(r)
    if isinstance(o, (ast.In, ast.NotIn)):
        if not isinstance(rc, tuple) or not all(isinstance(x, int) and not isinstance(x, bool) for x in rc) or not rc:
            raise TranslateError('membership test against a non-constant tuple')
        a = cx(l, env, ty)
        e = '(' + ' || '.join(f'({a} =? {x}{S}){S}' for x in rc) + ')'
        return e if isinstance(o, ast.In) else f'(negb {e})'
    if isinstance(lc, bytes) or isinstance(rc, bytes):
        if isinstance(lc, bytes):
            l, r, lc, rc = r, l, rc, lc
        a = cx(l, env, ty)
        if a not in BYTES_VARS or not isinstance(o, (ast.Eq, ast.NotEq)):
            raise TranslateError('byte-string comparison not understood: ' + ast.unparse(l))
        e = f'(bytes_eqb {a} {coq_bytes(rc)})'
        return e if isinstance(o, ast.Eq) else f'(negb {e})'
    a, b = cx(l, env, ty), cx(r, env, ty)
    if a in BYTES_VARS or b in BYTES_VARS:
        raise TranslateError('byte-string compared with a number')
    t = {ast.Eq: '({a} =? {b}){S}', ast.NotEq: '(negb ({a} =? {b}){S})', ast.Lt: '({a} <? {b}){S}',
         ast.LtE: '({a} <=? {b}){S}', ast.Gt: '({b} <? {a}){S}', ast.GtE: '({b} <=? {a}){S}'}.get(type(o))
    if t is None:
        raise TranslateError('comparison operator not supported')
    return t.format(a=a, b=b, S=S)


def raises(stmt, exc):
    """`raise Exc(lang._(...))` / `raise KeyError(index)`"""
    if not (isinstance(stmt, ast.Raise) and isinstance(stmt.exc, ast.Call) and stmt.cause is None):
        return False
    c = stmt.exc
    if ast.unparse(c.func) != exc or len(c.args) != 1 or c.keywords:
        return False
    a = ast.unparse(c.args[0])
    return a.startswith('lang._(') or (exc == 'KeyError' and a == 'index')


def guard_blocks(stmts, exc):
    """leading run of `if COND: raise exc(...)`; returns (conds, rest)"""
    conds = []
    i = 0
    while i < len(stmts) and isinstance(stmts[i], ast.If) and not stmts[i].orelse \
            and len(stmts[i].body) == 1 and raises(stmts[i].body[0], exc):
        conds.append(stmts[i].test)
        i += 1
    return conds, stmts[i:]


def default_of(fn, name):
    a = fn.args
    names = [x.arg for x in a.args]
    if name not in names:
        raise TranslateError(f'{fn.name}: no parameter {name}')
    k = names.index(name) - (len(names) - len(a.defaults))
    if k < 0:
        raise TranslateError(f'{fn.name}: parameter {name} has no default')
    return const_eval(a.defaults[k], {})


def D(name, params, ty, body):
    return f'Definition {name} {params} : {ty} := {body}.' if params else f'Definition {name} : {ty} := {body}.'


# ------------------------------------------------------------------ emit
def emit():
    mbr = parse('mbr.py'); gpt = parse('gpt.py'); disk = parse('disk.py'); tools = parse('tools.py')
    out = [HEADER.format(src='mbr.py, gpt.py, disk.py, tools.py')]
    out.append('From NV Require Import Lib.Val Lib.Struct.\nLocal Open Scope N_scope.\nLocal Open Scope string_scope.\n')
    check_tools(tools)

    # ---- layouts
    tables = {}
    for tree, env_name, cls in ((mbr, 'MBR_HEADER', 'MBRHeader'), (mbr, 'MBR_PARTITION', 'MBRPartition'),
                                (gpt, 'GPT_HEADER', 'GPTHeader'), (gpt, 'GPT_PARTITION', 'GPTPartition')):
        env = module_consts(tree)
        if env_name not in env:
            raise TranslateError(f'{env_name} not found')
        fields = layout_from_desc(env[env_name])
        check_struct_class(tree, cls, env_name)
        tables[env_name] = fields
        out.append(f'Definition {env_name} : layout := {coq_layout(fields)}.')
    for imp in ('from .mbr import MBRHeader, MBRPartition', 'from .gpt import GPTHeader, GPTPartition',
                'from binascii import crc32'):
        expect(any(ast.unparse(n) == imp for n in disk.body), f'disk.py: `{imp}` missing')
    out.append('Definition struct_prefix_le : bool := true.')
    props = find_func(find_class(mbr, 'MBRHeader').body, 'partitions')
    ret = strip_doc(props)
    expect(len(ret) == 1 and isinstance(ret[0], ast.Return) and isinstance(ret[0].value, ast.Tuple),
           'MBRHeader.partitions changed')
    labs = []
    for e in ret[0].value.elts:
        expect(isinstance(e, ast.Attribute) and ast.unparse(e.value) == 'self', 'MBRHeader.partitions changed')
        labs.append(e.attr)
    out.append(f'Definition mbr_partitions_labels : list string := [{"; ".join(coq_string(l) for l in labs)}].')

    # ---- DiskImage
    di = find_class(disk, 'DiskImage')
    init = find_func(di.body, '__init__')
    out.append(D('default_sector_size', '', 'N', coq_N(default_of(init, 'sector_size'))))
    expect('self._ss = sector_size' in body_text(init) and 'self._mem = memoryview(self._map)' in body_text(init),
           'DiskImage.__init__ changed')
    pf = find_func(di.body, 'partitions')
    body = strip_doc(pf)
    expect(len(body) == 2 and ast.unparse(body[1]) == 'return self._partitions' and isinstance(body[0], ast.If)
           and ast.unparse(body[0].test) == 'self._partitions is None' and not body[0].orelse
           and len(body[0].body) == 1 and isinstance(body[0].body[0], ast.For), 'DiskImage.partitions changed')
    loop = body[0].body[0]
    expect(ast.unparse(loop.target) == 'cls' and isinstance(loop.iter, ast.Tuple), 'DiskImage.partitions loop changed')
    classes = []
    for e in loop.iter.elts:
        n = ast.unparse(e)
        expect(n in ('DiskPartitionsGPT', 'DiskPartitionsMBR'), f'unknown partition class {n}')
        classes.append('ClsGPT' if n.endswith('GPT') else 'ClsMBR')
    expect(len(loop.body) == 1 and ast.unparse(loop.body[0]) ==
           'try:\n    self._partitions = cls(self._mem, self._ss)\nexcept ValueError:\n    pass\nelse:\n    break',
           'DiskImage.partitions: try/except ValueError/else break changed')
    expect(len(loop.orelse) == 1 and raises(loop.orelse[0], 'ValueError'), 'DiskImage.partitions: final raise changed')
    out.append('Inductive pclass := ClsGPT | ClsMBR.')
    out.append(D('partition_classes', '', 'list pclass', '[' + '; '.join(classes) + ']'))

    # ---- DiskPartitionsGPT
    g = find_class(disk, 'DiskPartitionsGPT')
    init = find_func(g.body, '__init__')
    expect(ast.unparse(init.args).startswith('self, mem, sector_size='), 'GPT __init__ signature changed')
    out.append(D('gpt_default_sector_size', '', 'N', coq_N(default_of(init, 'sector_size'))))
    body = strip_doc(init)
    st = body[0]
    expect(isinstance(st, ast.Assign) and ast.unparse(st.targets[0]) == 'header' and isinstance(st.value, ast.Call)
           and ast.unparse(st.value.func) == 'GPTHeader.from_buffer' and len(st.value.args) == 2
           and ast.unparse(st.value.args[0]) == 'mem' and not st.value.keywords, 'GPT header read changed')
    out.append(D('gpt_header_offset', '(sector_size : N)', 'N', cx(st.value.args[1], {'sector_size': 'sector_size'})))
    conds, rest = guard_blocks(body[1:], 'ValueError')
    expect('\n'.join(ast.unparse(s) for s in rest) == 'self._mem = mem\nself._header = header\nself._ss = sector_size',
           'GPT __init__ tail changed')
    genv = {'header.signature': 'signature', 'header.revision': 'revision', 'header.header_size': 'header_size',
            'header.header_crc32': 'header_crc32', 'GPTHeader._FORMAT.size': 'fmt_size',
            'crc32(bytes(header._replace(header_crc32=0)))': 'crc'}
    params = 'signature revision header_size header_crc32 fmt_size crc'
    checks = [f'(fun (signature : list N) (revision header_size header_crc32 fmt_size crc : N) => {cx(c, genv)})'
              for c in conds]
    out.append(D('gpt_init_checks', '', 'list (list N -> N -> N -> N -> N -> N -> bool)',
                 '[' + ';\n   '.join(checks) + ']'))
    out.append(D('gpt_crc_replaced_field', '', 'string', coq_string('header_crc32')))

    gt = find_func(g.body, '_get_table')
    b = strip_doc(gt)
    expect(len(b) == 3 and ast.unparse(b[0]) == 'start = self._header.part_table_lba'
           and isinstance(b[1], ast.Assign) and ast.unparse(b[1].targets[0]) == 'table_sectors'
           and isinstance(b[2], ast.Return) and isinstance(b[2].value, ast.Subscript)
           and ast.unparse(b[2].value.value) == 'self._mem' and isinstance(b[2].value.slice, ast.Slice)
           and b[2].value.slice.step is None and b[2].value.slice.lower is not None
           and b[2].value.slice.upper is not None, '_get_table changed')
    tenv = {'self._header.part_table_size': 'part_table_size', 'self._header.part_entry_size': 'part_entry_size',
            'self._ss': 'ss', 'start': 'start', 'table_sectors': 'table_sectors'}
    out.append(D('gpt_table_sectors', '(ss part_table_size part_entry_size : N)', 'N', cx(b[1].value, tenv)))
    out.append(D('gpt_table_start', '(ss start table_sectors : N)', 'N', cx(b[2].value.slice.lower, tenv)))
    out.append(D('gpt_table_stop', '(ss start table_sectors : N)', 'N', cx(b[2].value.slice.upper, tenv)))

    ln = find_func(g.body, '__len__')
    b = strip_doc(ln)
    expect(len(b) == 1 and isinstance(b[0], ast.With) and ast.unparse(b[0].items[0]) == 'self._get_table() as table',
           'GPT __len__ changed')
    w = b[0].body
    expect(len(w) == 3 and ast.unparse(w[0]) == 'count = 0' and ast.unparse(w[2]) == 'return count'
           and isinstance(w[1], ast.For) and ast.unparse(w[1].target) == 'offset' and not w[1].orelse
           and isinstance(w[1].iter, ast.Call) and ast.unparse(w[1].iter.func) == 'range'
           and len(w[1].iter.args) == 3 and ast.unparse(w[1].iter.args[1]) == 'len(table)'
           and ast.unparse(w[1].iter.args[2]) == 'self._header.part_entry_size', 'GPT __len__ loop changed')
    out.append(D('gpt_len_range_start', '', 'N', cx(w[1].iter.args[0], {})))
    lb = w[1].body
    expect(len(lb) == 2 and ast.unparse(lb[0]) == 'entry = GPTPartition.from_buffer(table, offset)'
           and isinstance(lb[1], ast.If) and not lb[1].orelse and ast.unparse(lb[1].body[0]) == 'count += 1'
           and len(lb[1].body) == 1, 'GPT __len__ body changed')
    out.append(D('gpt_len_counts', '(type_guid part_guid : list N)', 'bool',
                 cx(lb[1].test, {'entry.type_guid': 'type_guid', 'entry.part_guid': 'part_guid'})))

    gi = find_func(g.body, '__getitem__')
    b = strip_doc(gi)
    conds, rest = guard_blocks(b, 'KeyError')
    expect(len(conds) == 1 and len(rest) == 1 and isinstance(rest[0], ast.With)
           and ast.unparse(rest[0].items[0]) == 'self._get_table() as table', 'GPT __getitem__ changed')
    out.append(D('gpt_index_bad', '(index part_table_size : Z)', 'bool',
                 cx(conds[0], {'index': 'index', 'self._header.part_table_size': 'part_table_size'}, 'Z')))
    w = rest[0].body
    st = w[0]
    expect(isinstance(st, ast.Assign) and ast.unparse(st.targets[0]) == 'entry' and isinstance(st.value, ast.Call)
           and ast.unparse(st.value.func) == 'GPTPartition.from_buffer' and len(st.value.args) == 2
           and ast.unparse(st.value.args[0]) == 'table', 'GPT __getitem__ entry read changed')
    out.append(D('gpt_getitem_offset', '(part_entry_size index : N)', 'N',
                 cx(st.value.args[1], {'self._header.part_entry_size': 'part_entry_size', 'index': 'index'})))
    conds, rest = guard_blocks(w[1:], 'KeyError')
    expect(len(conds) == 1 and len(rest) == 3, 'GPT __getitem__ body changed')
    eenv = {'entry.type_guid': 'type_guid', 'entry.part_guid': 'part_guid'}
    out.append(D('gpt_entry_unused', '(type_guid part_guid : list N)', 'bool', cx(conds[0], eenv)))
    expect(isinstance(rest[0], ast.Assign) and ast.unparse(rest[0].targets[0]) == 'start'
           and isinstance(rest[1], ast.Assign) and ast.unparse(rest[1].targets[0]) == 'finish', 'GPT window changed')
    penv = {'self._ss': 'ss', 'entry.first_lba': 'first_lba', 'entry.last_lba': 'last_lba'}
    out.append(D('gpt_part_start', '(ss first_lba last_lba : N)', 'N', cx(rest[0].value, penv)))
    out.append(D('gpt_part_finish', '(ss first_lba last_lba : N)', 'N', cx(rest[1].value, penv)))
    expect(ast.unparse(rest[2]) == "return DiskPartition(mem=self._mem[start:finish], "
           "type=uuid.UUID(bytes_le=entry.type_guid), "
           "label=entry.part_label.decode('utf-16-le').rstrip('\\x00'))", 'GPT DiskPartition construction changed')
    out.append(D('gpt_label_strip', '', 'list N', coq_bytes('\x00')))

    it = find_func(g.body, '__iter__')
    b = strip_doc(it)
    expect(len(b) == 1 and isinstance(b[0], ast.With) and ast.unparse(b[0].items[0]) == 'self._get_table() as table'
           and len(b[0].body) == 1 and isinstance(b[0].body[0], ast.For), 'GPT __iter__ changed')
    loop = b[0].body[0]
    expect(ast.unparse(loop.target) == 'index' and ast.unparse(loop.iter) == 'range(self._header.part_table_size)'
           and not loop.orelse and len(loop.body) == 3, 'GPT __iter__ loop changed')
    st = loop.body[0]
    expect(isinstance(st, ast.Assign) and ast.unparse(st.targets[0]) == 'entry' and isinstance(st.value, ast.Call)
           and ast.unparse(st.value.func) == 'GPTPartition.from_buffer' and len(st.value.args) == 2
           and ast.unparse(st.value.args[0]) == 'table', 'GPT __iter__ entry read changed')
    out.append(D('gpt_iter_offset', '(part_entry_size index : N)', 'N',
                 cx(st.value.args[1], {'self._header.part_entry_size': 'part_entry_size', 'index': 'index'})))
    sk = loop.body[1]
    expect(isinstance(sk, ast.If) and not sk.orelse and len(sk.body) == 1 and isinstance(sk.body[0], ast.Continue),
           'GPT __iter__ skip changed')
    out.append(D('gpt_iter_skip', '(type_guid part_guid : list N)', 'bool', cx(sk.test, eenv)))
    y = loop.body[2]
    expect(isinstance(y, ast.Expr) and isinstance(y.value, ast.Yield), 'GPT __iter__ yield changed')
    out.append(D('gpt_iter_key', '(index : N)', 'N', cx(y.value.value, {'index': 'index'})))

    # ---- DiskPartitionsMBR
    m = find_class(disk, 'DiskPartitionsMBR')
    init = find_func(m.body, '__init__')
    expect(ast.unparse(init.args).startswith('self, mem, sector_size='), 'MBR __init__ signature changed')
    out.append(D('mbr_default_sector_size', '', 'N', coq_N(default_of(init, 'sector_size'))))
    body = strip_doc(init)
    st = body[0]
    expect(isinstance(st, ast.Assign) and ast.unparse(st.targets[0]) == 'header' and isinstance(st.value, ast.Call)
           and ast.unparse(st.value.func) == 'MBRHeader.from_buffer' and ast.unparse(st.value.args[0]) == 'mem',
           'MBR header read changed')
    if len(st.value.args) == 2 and not st.value.keywords:
        off = st.value.args[1]
    elif len(st.value.args) == 1 and len(st.value.keywords) == 1 and st.value.keywords[0].arg == 'offset':
        off = st.value.keywords[0].value
    else:
        raise TranslateError('MBR header read changed')
    out.append(D('mbr_header_offset', '(sector_size : N)', 'N', cx(off, {'sector_size': 'sector_size'})))
    conds, rest = guard_blocks(body[1:], 'ValueError')
    expect('\n'.join(ast.unparse(s) for s in rest[:3]) == 'self._mem = mem\nself._header = header\nself._ss = sector_size',
           'MBR __init__ tail changed')
    menv = {'header.boot_sig': 'boot_sig', 'header.zero': 'zero'}
    out.append(D('mbr_init_checks', '', 'list (N -> N -> bool)',
                 '[' + ';\n   '.join(f'(fun (boot_sig zero : N) => {cx(c, menv)})' for c in conds) + ']'))
    tail, none = guard_blocks(rest[3:], 'ValueError')
    expect(not none and len(tail) <= 1, 'MBR __init__: statements after the protective-MBR check')
    penv = {'len(self)': 'len', '1 in self': 'has1', 'self[1].type': 'type1'}
    if tail:
        t = tail[0]
        conj = t.values if isinstance(t, ast.BoolOp) and isinstance(t.op, ast.And) else [t]
        need = []
        for c in conj:
            if 'self[1]' in ast.unparse(c):
                break
            need.append(c)
        else:
            raise TranslateError('protective-MBR check does not look at self[1]')
        for c in conj:
            for sub in ast.walk(c):
                if isinstance(sub, ast.Subscript) and ast.unparse(sub) != 'self[1]':
                    raise TranslateError('protective-MBR check not understood')
        prot = cx(t, penv)
        needs = '(' + ' && '.join(cx(c, penv) for c in need) + ')' if need else 'true'
    else:
        prot, needs = 'false', 'false'
    out.append(D('mbr_protective_needs_item1', '(len : N) (has1 : bool)', 'bool', needs))
    out.append(D('mbr_protective', '(len : N) (has1 : bool) (type1 : N)', 'bool', prot))

    gl = find_func(m.body, '_get_logical')
    expect(ast.unparse(gl.args) == 'self, ext_offset', '_get_logical signature changed')
    b = strip_doc(gl)
    expect(len(b) == 2 and ast.unparse(b[0]) == 'logical_offset = ext_offset' and isinstance(b[1], ast.While)
           and ast.unparse(b[1].test) == 'True' and not b[1].orelse, '_get_logical loop changed')
    w = list(b[1].body)
    st = w.pop(0)
    expect(isinstance(st, ast.Assign) and ast.unparse(st.targets[0]) == 'ebr' and isinstance(st.value, ast.Call)
           and ast.unparse(st.value.func) == 'MBRHeader.from_buffer' and len(st.value.args) == 2
           and ast.unparse(st.value.args[0]) == 'self._mem' and not st.value.keywords, 'EBR read changed')
    lenv = {'logical_offset': 'logical_offset', 'self._ss': 'ss', 'ext_offset': 'ext_offset',
            'part.first_lba': 'first_lba', 'part.part_type': 'part_type', 'part.part_size': 'part_size',
            'ebr.boot_sig': 'boot_sig'}
    out.append(D('ebr_offset', '(logical_offset ss : N)', 'N', cx(st.value.args[1], lenv)))
    conds, w = guard_blocks(w, 'ValueError')
    expect(len(conds) == 1, 'EBR signature check changed')
    out.append(D('ebr_sig_bad', '(boot_sig : N)', 'bool', cx(conds[0], lenv)))
    expect(ast.unparse(w[0]) == 'part = MBRPartition.from_bytes(ebr.partition_1)', 'EBR first slot read changed')
    w = w[1:]
    if isinstance(w[0], ast.If):
        guard = cx(w[0].test, lenv)
        expect(not w[0].orelse, 'EBR first slot guard has an else branch')
        inner = w[0].body
        w = w[1:]
    else:
        guard = 'true'
        inner = w[:2]
        w = w[2:]
    expect(len(inner) == 2 and isinstance(inner[0], ast.Assign) and ast.unparse(inner[0].targets[0]) == 'part'
           and isinstance(inner[0].value, ast.Call) and ast.unparse(inner[0].value.func) == 'part._replace'
           and not inner[0].value.args and len(inner[0].value.keywords) == 1
           and inner[0].value.keywords[0].arg == 'first_lba' and ast.unparse(inner[1]) == 'yield part',
           'EBR first slot yield changed')
    out.append(D('ebr_first_yielded', '(part_type first_lba part_size : N)', 'bool', guard))
    out.append(D('logical_first_lba', '(first_lba logical_offset ext_offset : N)', 'N',
                 cx(inner[0].value.keywords[0].value, lenv)))
    expect(len(w) == 3 and ast.unparse(w[0]) == 'part = MBRPartition.from_bytes(ebr.partition_2)'
           and isinstance(w[1], ast.If) and len(w[1].body) == 1 and isinstance(w[1].body[0], ast.Break)
           and len(w[1].orelse) == 1 and isinstance(w[1].orelse[0], ast.If) and not w[1].orelse[0].orelse
           and len(w[1].orelse[0].body) == 1 and raises(w[1].orelse[0].body[0], 'ValueError')
           and isinstance(w[2], ast.Assign) and ast.unparse(w[2].targets[0]) == 'logical_offset',
           'EBR second slot handling changed')
    out.append(D('ebr_terminal', '(part_type first_lba part_size : N)', 'bool', cx(w[1].test, lenv)))
    out.append(D('ebr_link_bad', '(part_type first_lba part_size : N)', 'bool', cx(w[1].orelse[0].test, lenv)))
    out.append(D('next_logical_offset', '(first_lba logical_offset ext_offset : N)', 'N', cx(w[2].value, lenv)))

    gp = find_func(m.body, '_get_primary')
    b = strip_doc(gp)
    expect(len(b) == 3 and ast.unparse(b[0]) == 'mbr = self._header' and ast.unparse(b[1]) == 'extended = False'
           and isinstance(b[2], ast.For) and ast.unparse(b[2].target) == '(num, buf)' and not b[2].orelse
           and isinstance(b[2].iter, ast.Call) and ast.unparse(b[2].iter.func) == 'enumerate'
           and len(b[2].iter.args) == 1 and ast.unparse(b[2].iter.args[0]) == 'mbr.partitions'
           and len(b[2].iter.keywords) == 1 and b[2].iter.keywords[0].arg == 'start', '_get_primary changed')
    out.append(D('primary_start', '', 'N', coq_N(const_eval(b[2].iter.keywords[0].value, {}))))
    lb = b[2].body
    expect(len(lb) == 2 and ast.unparse(lb[0]) == 'part = MBRPartition.from_bytes(buf)' and isinstance(lb[1], ast.If)
           and len(lb[1].orelse) == 1 and isinstance(lb[1].orelse[0], ast.If) and not lb[1].orelse[0].orelse
           and ast.unparse(lb[1].orelse[0].body[0]) == 'yield (num, part)' and len(lb[1].orelse[0].body) == 1,
           '_get_primary body changed')
    out.append(D('is_extended', '(part_type : N)', 'bool', cx(lb[1].test, lenv)))
    out.append(D('primary_defined', '(part_type : N)', 'bool', cx(lb[1].orelse[0].test, lenv)))
    eb = lb[1].body
    expect(len(eb) == 3 and ast.unparse(eb[0]).startswith('if extended:\n    warnings.warn(')
           and ast.unparse(eb[1]) == 'extended = True' and isinstance(eb[2], ast.Expr)
           and isinstance(eb[2].value, ast.YieldFrom) and isinstance(eb[2].value.value, ast.Call)
           and ast.unparse(eb[2].value.value.func) == 'enumerate' and len(eb[2].value.value.args) == 1
           and len(eb[2].value.value.keywords) == 1 and eb[2].value.value.keywords[0].arg == 'start',
           '_get_primary extended branch changed')
    call = eb[2].value.value.args[0]
    expect(isinstance(call, ast.Call) and ast.unparse(call.func) == 'self._get_logical' and len(call.args) == 1
           and not call.keywords, '_get_logical call changed')
    out.append(D('logical_ext_offset', '(first_lba : N)', 'N', cx(call.args[0], lenv)))
    out.append(D('logical_start', '', 'N', coq_N(const_eval(eb[2].value.value.keywords[0].value, {}))))

    expect(body_text(find_func(m.body, '__len__')) == 'return sum((1 for num, part in self._get_primary()))',
           'MBR __len__ changed')
    expect(body_text(find_func(m.body, '__iter__')) == 'for num, part in self._get_primary():\n    yield num',
           'MBR __iter__ changed')
    gi = find_func(m.body, '__getitem__')
    b = strip_doc(gi)
    expect(len(b) == 2 and raises(b[1], 'KeyError') and isinstance(b[0], ast.For) and not b[0].orelse
           and ast.unparse(b[0].target) == '(num, part)' and ast.unparse(b[0].iter) == 'self._get_primary()'
           and len(b[0].body) == 1 and isinstance(b[0].body[0], ast.If) and not b[0].body[0].orelse
           and ast.unparse(b[0].body[0].test) == 'num == index' and len(b[0].body[0].body) == 2,
           'MBR __getitem__ changed')
    a, r = b[0].body[0].body
    expect(isinstance(a, ast.Assign) and ast.unparse(a.targets[0]) == 'last_lba' and isinstance(r, ast.Return)
           and isinstance(r.value, ast.Call) and ast.unparse(r.value.func) == 'DiskPartition' and not r.value.args,
           'MBR window changed')
    kw = {k.arg: k.value for k in r.value.keywords}
    expect(set(kw) == {'mem', 'type', 'label'} and ast.unparse(kw['type']) == 'part.part_type'
           and isinstance(kw['mem'], ast.Subscript) and ast.unparse(kw['mem'].value) == 'self._mem'
           and isinstance(kw['mem'].slice, ast.Slice) and kw['mem'].slice.step is None
           and kw['mem'].slice.lower is not None and kw['mem'].slice.upper is not None, 'MBR DiskPartition changed')
    wenv = {'self._ss': 'ss', 'part.first_lba': 'first_lba', 'part.part_size': 'part_size', 'last_lba': 'last_lba'}
    out.append(D('mbr_last_lba', '(first_lba part_size : N)', 'N', cx(a.value, wenv)))
    out.append(D('mbr_part_start', '(ss first_lba last_lba : N)', 'N', cx(kw['mem'].slice.lower, wenv)))
    out.append(D('mbr_part_stop', '(ss first_lba last_lba : N)', 'N', cx(kw['mem'].slice.upper, wenv)))
    lab = kw['label']
    expect(isinstance(lab, ast.JoinedStr) and len(lab.values) == 2 and isinstance(lab.values[0], ast.Constant)
           and isinstance(lab.values[1], ast.FormattedValue) and ast.unparse(lab.values[1].value) == 'num'
           and lab.values[1].conversion == -1 and lab.values[1].format_spec is None, 'MBR label changed')
    out.append(D('mbr_label_prefix', '', 'list N', coq_bytes(lab.values[0].value)))
    return '\n'.join(out) + '\n'
