"""Real-UDP (loopback) tier: runs a scenario script in a fresh interpreter against a real
threaded nobodd server and returns what it observed as JSON."""
import json, subprocess, os, tempfile
import lib

PRELUDE = r'''
import sys, os, socket, struct, threading, time, json, tempfile, logging, hashlib
logging.disable(logging.CRITICAL)
from nobodd.tftpd import SimpleTFTPServer

def fds():
    return len(os.listdir('/proc/self/fd'))

class Client:
    def __init__(self, server_address, timeout=2.0):
        self.s = socket.socket(socket.AF_INET, socket.SOCK_DGRAM); self.s.settimeout(timeout)
        self.server = server_address; self.peer = None; self.B = 512; self.buf = b''; self.expect = 1
        self.finished = False; self.error = None; self.oack = None
    def rrq(self, name, mode=b'octet', opts=()):
        b = b'\0\1' + name + b'\0' + mode + b'\0'
        for k, v in opts: b += k + b'\0' + v + b'\0'
        self.s.sendto(b, self.server)
    def recv(self):
        try:
            d, peer = self.s.recvfrom(70000)
        except socket.timeout:
            return None
        if self.peer is None and d[:2] != b'\0\5': self.peer = peer
        return d, peer
    def step(self):
        """receive one datagram and answer it per RFC 1350; returns the datagram or None"""
        r = self.recv()
        if r is None: return None
        d, peer = r
        if d[:2] == b'\0\6':
            parts = d[2:].split(b'\0'); self.oack = dict(zip(parts[0:-1:2], parts[1:-1:2]))
            if b'blksize' in self.oack: self.B = int(self.oack[b'blksize'])
            self.s.sendto(b'\0\4\0\0', peer)
        elif d[:2] == b'\0\3':
            k = d[2]*256 + d[3]
            if k == self.expect:
                self.buf += d[4:]; self.expect += 1
                if len(d) - 4 < self.B: self.finished = True
            self.s.sendto(struct.pack('!HH', 4, k), peer)
        elif d[:2] == b'\0\5':
            self.error = d
        return d
    def run(self, maxsteps=100000):
        for _ in range(maxsteps):
            if self.finished or self.error: break
            if self.step() is None: break
        return self
    def close(self): self.s.close()

def start(base):
    srv = SimpleTFTPServer(('127.0.0.1', 0), base)
    th = threading.Thread(target=srv.serve_forever, kwargs={'poll_interval': 0.01}, daemon=True)
    th.start()
    return srv, th

def wait_until(pred, timeout=5.0):
    t0 = time.time()
    while time.time() - t0 < timeout:
        if pred(): return True
        time.sleep(0.01)
    return pred()
'''


def run_script(body, timeout=120):
    """body: python source using the PRELUDE helpers; must print one JSON line last."""
    code = PRELUDE + '\n' + body
    p = subprocess.run([lib.PY, '-c', code], env=lib.repo_env(), capture_output=True, text=True, timeout=timeout)
    if p.returncode != 0:
        return {'crash': True, 'stderr': p.stderr[-1500:], 'stdout': p.stdout[-500:]}
    try:
        return json.loads(p.stdout.strip().splitlines()[-1])
    except Exception:
        return {'crash': True, 'stderr': p.stderr[-1500:], 'stdout': p.stdout[-500:]}
