"""Gen/Prep.v: constants and shapes of nobodd/prep.py (rewrite_cmdline, remove_items,
main), config.py (serial, Board.__str__/from_section, config-parser construction),
server.py (board sections) and tools.py (open_file).

Every statement of the translated functions is matched against the one shape the Coq
model (coq/Prep/Model.v) interprets; anything else raises TranslateError (fail closed).

Template encoding (fixed Coq type `list (N * list N)`), one pair per f-string part:
  (0, text)  literal text
  (1, [])    conf.nbd_host          (2, [])   conf.nbd_name
  (3, spec)  conf.root_partition    (4, spec) self.serial
  (5, [])    self.image             (6, spec) self.partition
`spec` is the format-spec text ('' , 'd', 'x', ...) which the model interprets.
"""
import ast, re, builtins
from translate import *

NAME = 'Prep'


def U(node):
    return ast.unparse(node)


def _body(fn):
    """statements of a function without docstring and without logger calls"""
    out = []
    for i, st in enumerate(fn.body):
        if i == 0 and isinstance(st, ast.Expr) and isinstance(st.value, ast.Constant) \
                and isinstance(st.value.value, str):
            continue
        if isinstance(st, ast.Expr) and isinstance(st.value, ast.Call) and \
                U(st.value.func).startswith('conf.logger.'):
            continue
        out.append(st)
    return out


def _str_const(node, what):
    if not (isinstance(node, ast.Constant) and isinstance(node.value, str)):
        raise TranslateError(f'{what}: expected a string literal, got {U(node)}')
    return node.value


def _int_const(node, what):
    try:
        v = const_eval(node, {})
    except TranslateError:
        raise TranslateError(f'{what}: expected an integer literal, got {U(node)}')
    if not isinstance(v, int) or isinstance(v, bool):
        raise TranslateError(f'{what}: expected an integer literal, got {U(node)}')
    return v


def _template(node, fields, what):
    """Constant str or JoinedStr -> list of (tag, text)"""
    if isinstance(node, ast.Constant) and isinstance(node.value, str):
        return [(0, node.value)]
    if not isinstance(node, ast.JoinedStr):
        raise TranslateError(f'{what}: not a string template: {U(node)}')
    parts = []
    for v in node.values:
        if isinstance(v, ast.Constant) and isinstance(v.value, str):
            parts.append((0, v.value))
        elif isinstance(v, ast.FormattedValue):
            src = U(v.value)
            if src not in fields:
                raise TranslateError(f'{what}: unknown field {{{src}}}')
            if v.conversion != -1:
                raise TranslateError(f'{what}: conversion on {{{src}}} not modelled')
            tag, spec_ok = fields[src]
            spec = ''
            if v.format_spec is not None:
                fs = v.format_spec
                if not (isinstance(fs, ast.JoinedStr) and len(fs.values) == 1 and
                        isinstance(fs.values[0], ast.Constant)):
                    raise TranslateError(f'{what}: computed format spec on {{{src}}}')
                spec = fs.values[0].value
            if spec and not spec_ok:
                raise TranslateError(f'{what}: format spec {spec!r} on text field {{{src}}}')
            parts.append((tag, spec))
        else:
            raise TranslateError(f'{what}: unexpected template part')
    return parts


def coq_template(parts):
    return '[' + '; '.join(f'({tag}%N, {coq_bytes(text)})' for tag, text in parts) + ']'


def coq_templates(ts):
    return '[' + ';\n   '.join(coq_template(t) for t in ts) + ']'


# ------------------------------------------------------------------ prep.rewrite_cmdline
def rewrite_cmdline_facts(prep):
    fn = find_func(prep.body, 'rewrite_cmdline')
    if [a.arg for a in fn.args.args] != ['fs', 'conf']:
        raise TranslateError('rewrite_cmdline: signature changed')
    st = _body(fn)
    if len(st) != 6:
        raise TranslateError(f'rewrite_cmdline: expected 6 statements, found {len(st)}')
    if U(st[0]) != 'cmdline = fs.root / conf.cmdline':
        raise TranslateError('rewrite_cmdline: ' + U(st[0]))
    if U(st[1]) != 'params = cmdline.read_text()':
        raise TranslateError('rewrite_cmdline: ' + U(st[1]))
    # try: params = params[:params.index('\n')]  except ValueError: pass
    t = st[2]
    ok = (isinstance(t, ast.Try) and len(t.body) == 1 and not t.orelse and not t.finalbody
          and len(t.handlers) == 1 and U(t.handlers[0].type) == 'ValueError'
          and len(t.handlers[0].body) == 1 and isinstance(t.handlers[0].body[0], ast.Pass))
    if not ok:
        raise TranslateError('rewrite_cmdline: first-line cut has an unknown shape')
    a = t.body[0]
    ok = (isinstance(a, ast.Assign) and U(a.targets[0]) == 'params'
          and isinstance(a.value, ast.Subscript) and U(a.value.value) == 'params'
          and isinstance(a.value.slice, ast.Slice) and a.value.slice.lower is None
          and a.value.slice.step is None and isinstance(a.value.slice.upper, ast.Call))
    if not ok:
        raise TranslateError('rewrite_cmdline: ' + U(a))
    call = a.value.slice.upper
    if not (isinstance(call.func, ast.Attribute) and U(call.func.value) == 'params'
            and len(call.args) == 1 and not call.keywords):
        raise TranslateError('rewrite_cmdline: ' + U(call))
    if call.func.attr == 'index':
        cut_first = True
    elif call.func.attr == 'rindex':
        cut_first = False
    else:
        raise TranslateError('rewrite_cmdline: cut uses ' + call.func.attr)
    cut = _str_const(call.args[0], 'rewrite_cmdline cut')
    if len(cut) != 1:
        raise TranslateError('rewrite_cmdline: cut string is not one character')
    # params = [param for param in params.split() if not param.startswith('root=')]
    a = st[3]
    ok = (isinstance(a, ast.Assign) and U(a.targets[0]) == 'params'
          and isinstance(a.value, ast.ListComp) and U(a.value.elt) == 'param'
          and len(a.value.generators) == 1)
    if not ok:
        raise TranslateError('rewrite_cmdline: ' + U(a))
    g = a.value.generators[0]
    if U(g.target) != 'param' or U(g.iter) != 'params.split()' or g.is_async or len(g.ifs) != 1:
        raise TranslateError('rewrite_cmdline: comprehension ' + U(a.value))
    test = g.ifs[0]
    negated = False
    if isinstance(test, ast.UnaryOp) and isinstance(test.op, ast.Not):
        negated, test = True, test.operand
    ok = (isinstance(test, ast.Call) and U(test.func) == 'param.startswith'
          and len(test.args) == 1 and not test.keywords)
    if not ok:
        raise TranslateError('rewrite_cmdline: filter ' + U(g.ifs[0]))
    fprefix = _str_const(test.args[0], 'rewrite_cmdline filter')
    # params[:0] = [...]
    a = st[4]
    if not (isinstance(a, ast.Assign) and U(a.targets[0]) == 'params[:0]'
            and isinstance(a.value, ast.List)):
        raise TranslateError('rewrite_cmdline: ' + U(a))
    fields = {'conf.nbd_host': (1, False), 'conf.nbd_name': (2, False),
              'conf.root_partition': (3, True)}
    prepend = [_template(e, fields, 'rewrite_cmdline parameter') for e in a.value.elts]
    # cmdline.write_text(' '.join(params))
    e = st[5]
    ok = (isinstance(e, ast.Expr) and isinstance(e.value, ast.Call)
          and U(e.value.func) == 'cmdline.write_text' and len(e.value.args) == 1
          and not e.value.keywords and isinstance(e.value.args[0], ast.Call)
          and isinstance(e.value.args[0].func, ast.Attribute)
          and e.value.args[0].func.attr == 'join'
          and [U(x) for x in e.value.args[0].args] == ['params'])
    if not ok:
        raise TranslateError('rewrite_cmdline: ' + U(e))
    sep = _str_const(e.value.args[0].func.value, 'rewrite_cmdline join')
    return [
        f'Definition cmd_cut_char : N := {coq_N(ord(cut))}.',
        f'Definition cmd_cut_first : bool := {coq_bool(cut_first)}.',
        f'Definition cmd_filter_prefix : list N := {coq_bytes(fprefix)}.',
        f'Definition cmd_filter_negated : bool := {coq_bool(negated)}.',
        f'Definition cmd_prepend : list (list (N * list N)) :=\n  {coq_templates(prepend)}.',
        f'Definition cmd_join_sep : list N := {coq_bytes(sep)}.',
    ]


# ------------------------------------------------------------------ prep.remove_items
def remove_items_facts(prep):
    fn = find_func(prep.body, 'remove_items')
    loops = [n for n in ast.walk(fn) if isinstance(n, ast.For)
             and len(n.body) == 1 and U(n.body[0]) == f'{U(n.target)}.rmdir()']
    if len(loops) != 1:
        raise TranslateError('remove_items: expected exactly one loop removing collected directories')
    loop = loops[0]
    it = U(loop.iter)
    # the collection: dirs = [] ... for subitem in item.rglob('*'): if subitem.is_dir(): dirs.append(subitem)
    collectors = [n for n in ast.walk(fn) if isinstance(n, ast.For) and U(n.iter) == "item.rglob('*')"]
    if len(collectors) != 1:
        raise TranslateError('remove_items: expected one rglob walk')
    c = collectors[0]
    var = U(c.target)
    ok = (len(c.body) == 1 and isinstance(c.body[0], ast.If)
          and U(c.body[0].test) == f'{var}.is_dir()'
          and [U(x) for x in c.body[0].body] == [f'dirs.append({var})']
          and [U(x) for x in c.body[0].orelse] == [f'{var}.unlink()'])
    if not ok:
        raise TranslateError('remove_items: rglob walk has an unknown shape')
    if it == 'dirs':
        order = 0          # in rglob order: parents before their children
    elif it in ('reversed(dirs)', 'dirs[::-1]'):
        order = 1          # reverse rglob order: children before their parents
    else:
        raise TranslateError(f'remove_items: directories removed in unknown order: {it}')
    # the walk, the removal loop and the final item.rmdir() follow each other
    parent = [n for n in ast.walk(fn) if isinstance(n, ast.If) and U(n.test) == 'item.is_dir()']
    if len(parent) != 1:
        raise TranslateError('remove_items: is_dir branch not found')
    seq = [U(x) for x in parent[0].body]
    if not (len(seq) == 4 and seq[0] == 'dirs = []' and parent[0].body[1] is c
            and parent[0].body[2] is loop and seq[3] == 'item.rmdir()'
            and [U(x) for x in parent[0].orelse] == ['item.unlink()']):
        raise TranslateError('remove_items: directory branch has an unknown shape')
    return [
        '(* 0 = order of collection (rglob: a directory before its content), 1 = reversed *)',
        f'Definition remove_dirs_order : N := {coq_N(order)}.',
        f'Definition remove_dirs_children_first : bool := {coq_bool(order == 1)}.',
    ]


# ------------------------------------------------------------------ prep.main
def main_facts(prep):
    fn = find_func(prep.body, 'main')
    calls = [n for n in ast.walk(fn) if isinstance(n, ast.Call) and U(n.func) == 'Board']
    if len(calls) != 1:
        raise TranslateError('main: expected one Board(...) construction')
    args = [U(a) for a in calls[0].args]
    std = (args == ['conf.serial', 'conf.image', 'conf.boot_partition', 'None'] and not calls[0].keywords)
    writes = [n for n in ast.walk(fn) if isinstance(n, ast.Call) and U(n.func) == 'tftpd_conf.write']
    if len(writes) != 2 or U(writes[0].args[0]) != 'str(board)':
        raise TranslateError('main: tftpd_conf writes have an unknown shape')
    trailer = _str_const(writes[1].args[0], 'main trailer')
    resolved = any(U(n) == 'conf.image = conf.image.resolve()' for n in ast.walk(fn) if isinstance(n, ast.Assign))
    return [
        f'Definition board_args_standard : bool := {coq_bool(std)}.',
        f'Definition board_trailer : list N := {coq_bytes(trailer)}.',
        f'Definition image_path_resolved : bool := {coq_bool(resolved)}.',
    ]


# ------------------------------------------------------------------ config.serial
def serial_facts(config):
    fn = find_func(config.body, 'serial')
    if [a.arg for a in fn.args.args] != ['s']:
        raise TranslateError('serial: signature changed')
    st = _body(fn)
    if len(st) != 5:
        raise TranslateError(f'serial: expected 5 statements, found {len(st)}')
    if U(st[0]) != 's = s.strip()':
        raise TranslateError('serial: ' + U(st[0]))
    i = st[1]
    ok = (isinstance(i, ast.If) and not i.orelse and len(i.body) == 1
          and isinstance(i.test, ast.BoolOp) and isinstance(i.test.op, ast.And)
          and len(i.test.values) == 2)
    if not ok:
        raise TranslateError('serial: prefix rule has an unknown shape')
    lencmp, alts = i.test.values
    ok = (isinstance(lencmp, ast.Compare) and U(lencmp.left) == 'len(s)' and len(lencmp.ops) == 1
          and isinstance(lencmp.ops[0], ast.GtE))
    if not ok:
        raise TranslateError('serial: length test ' + U(lencmp))
    min_len = _int_const(lencmp.comparators[0], 'serial length')
    if isinstance(alts, ast.BoolOp) and isinstance(alts.op, ast.Or):
        alts = alts.values
    else:
        alts = [alts]
    prefixes = []
    for a in alts:
        if not (isinstance(a, ast.Call) and U(a.func) == 's.startswith' and len(a.args) == 1 and not a.keywords):
            raise TranslateError('serial: prefix test ' + U(a))
        prefixes.append(_str_const(a.args[0], 'serial prefix'))
    b = i.body[0]
    ok = (isinstance(b, ast.Assign) and U(b.targets[0]) == 's' and isinstance(b.value, ast.Subscript)
          and U(b.value.value) == 's' and isinstance(b.value.slice, ast.Slice)
          and b.value.slice.upper is None and b.value.slice.step is None and b.value.slice.lower is not None)
    if not ok:
        raise TranslateError('serial: ' + U(b))
    drop = _int_const(b.value.slice.lower, 'serial slice')
    if drop < 0:
        raise TranslateError('serial: negative slice start')
    v = st[2]
    ok = (isinstance(v, ast.Assign) and U(v.targets[0]) == 'value' and isinstance(v.value, ast.Call)
          and U(v.value.func) == 'int' and U(v.value.args[0]) == 's')
    if not ok:
        raise TranslateError('serial: ' + U(v))
    if len(v.value.args) == 2 and not v.value.keywords:
        base = _int_const(v.value.args[1], 'serial base')
    elif len(v.value.args) == 1 and [k.arg for k in v.value.keywords] == ['base']:
        base = _int_const(v.value.keywords[0].value, 'serial base')
    else:
        raise TranslateError('serial: ' + U(v))
    r = st[3]
    ok = (isinstance(r, ast.If) and not r.orelse and isinstance(r.test, ast.UnaryOp)
          and isinstance(r.test.op, ast.Not) and isinstance(r.test.operand, ast.Compare)
          and len(r.test.operand.ops) == 2 and all(isinstance(o, ast.LtE) for o in r.test.operand.ops)
          and U(r.test.operand.comparators[0]) == 'value'
          and len(r.body) == 1 and isinstance(r.body[0], ast.Raise)
          and U(r.body[0].exc.func) == 'ValueError')
    if not ok:
        raise TranslateError('serial: range check has an unknown shape')
    lo = _int_const(r.test.operand.left, 'serial low bound')
    hi = _int_const(r.test.operand.comparators[1], 'serial high bound')
    if U(st[4]) != 'return value':
        raise TranslateError('serial: ' + U(st[4]))
    return [
        f'Definition ser_min_len : N := {coq_N(min_len)}.',
        'Definition ser_prefixes : list (list N) := [' + '; '.join(coq_bytes(p) for p in prefixes) + '].',
        f'Definition ser_drop : N := {coq_N(drop)}.',
        f'Definition ser_base : N := {coq_N(base)}.',
        f'Definition ser_lo : Z := {coq_Z(lo)}.',
        f'Definition ser_hi : Z := {coq_Z(hi)}.',
    ]


# ------------------------------------------------------------------ config.Board
def board_facts(config, server):
    cls = find_class(config, 'Board')
    fn = find_func(cls.body, '__str__')
    st = _body(fn)
    if len(st) != 1 or not isinstance(st[0], ast.Return):
        raise TranslateError('Board.__str__: expected a single return')
    c = st[0].value
    ok = (isinstance(c, ast.Call) and isinstance(c.func, ast.Attribute) and c.func.attr == 'join'
          and len(c.args) == 1 and not c.keywords and isinstance(c.args[0], ast.BinOp)
          and isinstance(c.args[0].op, ast.Add) and isinstance(c.args[0].left, ast.Tuple)
          and isinstance(c.args[0].right, ast.IfExp))
    if not ok:
        raise TranslateError('Board.__str__: unknown shape')
    join = _str_const(c.func.value, 'Board.__str__ join')
    ife = c.args[0].right
    if not (U(ife.test) == 'self.ip is not None' and U(ife.orelse) == '()'):
        raise TranslateError('Board.__str__: optional ip part has an unknown shape')
    fields = {'self.serial': (4, True), 'self.image': (5, False), 'self.partition': (6, True)}
    lines = [_template(e, fields, 'Board.__str__ line') for e in c.args[0].left.elts]
    # from_section
    fs = find_func(cls.body, 'from_section')
    src = U(fs)
    starts = [n for n in ast.walk(fs) if isinstance(n, ast.Call) and U(n.func) == 'section.startswith']
    if len(starts) != 1:
        raise TranslateError('Board.from_section: section prefix test not found')
    prefix = _str_const(starts[0].args[0], 'from_section prefix')
    if f'sernum = serial(section[len({prefix!r}):])' not in src:
        raise TranslateError('Board.from_section: serial is not taken from the section name after the prefix')
    if 'values = config[section]' not in src or "return cls(sernum, Path(image), part, ip)" not in src:
        raise TranslateError('Board.from_section: unknown shape')
    img = [n for n in ast.walk(fs) if isinstance(n, ast.Assign) and U(n.targets[0]) == 'image']
    part = [n for n in ast.walk(fs) if isinstance(n, ast.Assign) and U(n.targets[0]) == 'part']
    if len(img) != 1 or len(part) != 1:
        raise TranslateError('Board.from_section: image/part assignments')
    iv = img[0].value
    if not (isinstance(iv, ast.Subscript) and U(iv.value) == 'values'):
        raise TranslateError('Board.from_section: ' + U(img[0]))
    image_key = _str_const(iv.slice, 'from_section image key')
    pv = part[0].value
    ok = (isinstance(pv, ast.Call) and U(pv.func) == 'int' and len(pv.args) == 1 and not pv.keywords
          and isinstance(pv.args[0], ast.Call) and U(pv.args[0].func) == 'values.get'
          and len(pv.args[0].args) == 2)
    if not ok:
        raise TranslateError('Board.from_section: ' + U(part[0]))
    part_key = _str_const(pv.args[0].args[0], 'from_section partition key')
    part_default = _int_const(pv.args[0].args[1], 'from_section partition default')
    # the config parser construction
    cap = find_class(config, 'ConfigArgumentParser')
    gp = find_func(cap.body, '_get_config_parser')
    calls = [n for n in ast.walk(gp) if isinstance(n, ast.Call) and U(n.func) == 'ConfigParser']
    if len(calls) != 1 or calls[0].args:
        raise TranslateError('_get_config_parser: expected one ConfigParser(...) call')
    kw = call_kwargs(calls[0])
    if set(kw) != {'delimiters', 'empty_lines_in_values', 'interpolation', 'strict'}:
        raise TranslateError(f'_get_config_parser: options changed: {sorted(kw)}')
    delims = kw['delimiters']
    if not (isinstance(delims, tuple) and all(isinstance(d, str) and len(d) == 1 for d in delims)):
        raise TranslateError('_get_config_parser: delimiters')
    std = (kw['empty_lines_in_values'] is False and kw['interpolation'] is None and kw['strict'] is False)
    # server.get_parser collects the board sections
    sp = find_func(server.body, 'get_parser')
    ssrc = U(sp)
    m = [n for n in ast.walk(sp) if isinstance(n, ast.ListComp) and U(n.elt) == 'Board.from_section(defaults, section)']
    if len(m) != 1 or len(m[0].generators) != 1 or U(m[0].generators[0].iter) != 'defaults' \
            or len(m[0].generators[0].ifs) != 1:
        raise TranslateError('server.get_parser: board sections are collected in an unknown way')
    t = m[0].generators[0].ifs[0]
    if not (isinstance(t, ast.Call) and U(t.func) == 'section.startswith' and len(t.args) == 1):
        raise TranslateError('server.get_parser: ' + U(t))
    sprefix = _str_const(t.args[0], 'server section prefix')
    return [
        f'Definition board_lines : list (list (N * list N)) :=\n  {coq_templates(lines)}.',
        f'Definition board_join : list N := {coq_bytes(join)}.',
        f'Definition sect_prefix : list N := {coq_bytes(prefix)}.',
        f'Definition server_sect_prefix : list N := {coq_bytes(sprefix)}.',
        f'Definition sect_image_key : list N := {coq_bytes(image_key)}.',
        f'Definition sect_partition_key : list N := {coq_bytes(part_key)}.',
        f'Definition sect_partition_default : Z := {coq_Z(part_default)}.',
        'Definition cfg_delims : list N := [' + '; '.join(coq_N(ord(d)) for d in delims) + '].',
        f'Definition cfg_options_standard : bool := {coq_bool(std)}.',
    ]


# ------------------------------------------------------------------ tools.open_file
def open_file_facts(tools):
    fn = find_func(tools.body, 'open_file')
    bound = set(dir(builtins))
    for node in tools.body:
        if isinstance(node, ast.Import):
            bound |= {(a.asname or a.name).split('.')[0] for a in node.names}
        elif isinstance(node, ast.ImportFrom):
            bound |= {a.asname or a.name for a in node.names}
        elif isinstance(node, (ast.FunctionDef, ast.ClassDef)):
            bound.add(node.name)
        elif isinstance(node, ast.Assign):
            for t in node.targets:
                for n in ast.walk(t):
                    if isinstance(n, ast.Name):
                        bound.add(n.id)
    local = {a.arg for a in fn.args.args + fn.args.kwonlyargs}
    local |= {n.id for n in ast.walk(fn) if isinstance(n, ast.Name) and isinstance(n.ctx, ast.Store)}
    free = sorted({n.id for n in ast.walk(fn) if isinstance(n, ast.Name) and isinstance(n.ctx, ast.Load)}
                  - local - bound)
    std = "file = sys.stdin if set(mode) & set('r+') == {'r'} else sys.stdout" in U(fn) and \
          "elif arg == '-':" in U(fn)
    return [
        f'(* names used by open_file that nothing in tools.py binds: {free} *)',
        f'Definition open_file_names_bound : bool := {coq_bool(not free)}.',
        f'Definition open_file_dash_is_std_stream : bool := {coq_bool(std)}.',
    ]


def detect_facts(prep):
    """detect_partitions: the loop over sh.fat_types that Prep/Detect.v follows"""
    f = find_func(prep.body, 'detect_partitions')
    loop = None
    for n in ast.walk(f):
        if isinstance(n, ast.For) and ast.unparse(n.iter) == 'fat_types(img)':
            loop = n
    if loop is None:
        raise TranslateError('detect_partitions: no loop over fat_types(img)')
    class NoLog(ast.NodeTransformer):
        def visit_Expr(self, node):
            return None if isinstance(node.value, ast.Call) and 'logger.' in ast.unparse(node.value.func) else node
    body = '\n'.join(ast.unparse(NoLog().visit(x)) for x in loop.body)
    want = ("if fat_type.startswith('fat') and conf.boot_partition is None:\n    conf.boot_partition = num\n"
            "elif fat_type == 'notfat' and conf.root_partition is None:\n    conf.root_partition = num\n"
            "if conf.boot_partition is not None:\n    if conf.root_partition is not None:\n        break")
    tail = ast.unparse(f)
    errs = ("if conf.boot_partition is None:\n        raise ValueError" in tail and "if conf.root_partition is None:\n        raise ValueError" in tail) or \
           ("if conf.boot_partition is None:\n    raise ValueError" in tail and "if conf.root_partition is None:\n    raise ValueError" in tail)
    sh = parse('sh.py')
    ft = ast.unparse(find_func(sh.body, 'fat_types'))
    kinds = ("yield (num, fs.fat_type)" in ft and "yield (num, 'maybefat' if part.type in fat_types else 'notfat')" in ft
             and "for num, part in disk.partitions.items()" in ft)
    return [f'Definition detect_loop_standard : bool := {coq_bool(body == want and ast.unparse(loop.target) == "(num, fat_type)")}.',
            f'Definition detect_errors_standard : bool := {coq_bool(errs)}.',
            f'Definition fat_types_kinds_standard : bool := {coq_bool(kinds)}.']


def resize_facts(prep, config):
    f = find_func(prep.body, 'prepare_image')
    first = None
    for n in f.body:
        if isinstance(n, ast.With):
            first = n
            break
    class NoLog(ast.NodeTransformer):
        def visit_Expr(self, node):
            return ast.Pass() if isinstance(node.value, ast.Call) and 'logger.' in ast.unparse(node.value.func) else node
    txt = ast.unparse(NoLog().visit(first)) if first is not None else ''
    want = ("with conf.image.open('ab') as f:\n    size = f.seek(0, os.SEEK_END)\n    if size < conf.size:\n        pass\n"
            "        f.seek(conf.size)\n        f.truncate()\n    else:\n        pass")
    sz = ast.unparse(find_func(config.body, 'size'))
    size_ok = all(x in sz for x in ("enumerate(['KB', 'MB', 'GB', 'TB'], start=1)", "n = Decimal(s[:-len(suffix)])", "result = int(n * 2 ** (10 * power))",
                                    "if s.endswith('B'):", "result = int(s[:-1])", "result = int(s)"))
    m = re.search(r"'--size', type=size, default='(\d+)([KMGT]?B?)'", ast.unparse(find_func(prep.body, 'get_parser')))
    if not m:
        raise TranslateError('--size default not found')
    second = [n for n in f.body if isinstance(n, ast.With)][1:2]
    order = bool(second) and [ast.unparse(x) for x in second[0].body] == ['remove_items(fs, conf)', 'copy_items(fs, conf)', 'rewrite_cmdline(fs, conf)']
    return [f'Definition prepare_order_standard : bool := {coq_bool(order)}.',
            f'Definition resize_block_standard : bool := {coq_bool(txt == want)}.',
            f'Definition size_parser_standard : bool := {coq_bool(size_ok)}.',
            f'Definition size_default_mantissa : N := {coq_N(int(m.group(1)))}.',
            f'Definition size_default_suffix : list N := {coq_bytes(m.group(2))}.']


def emit():
    prep = parse('prep.py')
    config = parse('config.py')
    server = parse('server.py')
    tools = parse('tools.py')
    lines = [HEADER.format(src='prep.py, config.py, server.py, tools.py'), 'Open Scope N_scope.', '']
    lines += rewrite_cmdline_facts(prep)
    lines += remove_items_facts(prep)
    lines += main_facts(prep)
    lines += serial_facts(config)
    lines += board_facts(config, server)
    lines += open_file_facts(tools)
    lines += detect_facts(prep)
    lines += resize_facts(prep, config)
    return '\n'.join(lines) + '\n'
