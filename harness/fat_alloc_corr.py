"""Allocation core of C04 / C10: the extracted Coq model coq/FatAlloc (abstract FAT = list of
entry values, FSInfo bookkeeping, FatFile.truncate / write / close, FatPath.unlink) stepped
side by side with the REAL nobodd.fs code on small synthesised FAT12/16/32 volumes, plus the
properties themselves evaluated on the implementation (oracles):
  * one complete free() scan yields no duplicate and only free clusters of the data area,
  * after every operation every open file's chain is intact, files share no cluster, every
    in-use FAT entry has an owner (no leak) and foreign entries are untouched,
  * ENOSPC is raised only when the data area really has too few free clusters, and a failed
    truncate changes nothing.
All randomness comes from ctx.rng.  `run(ctx)` is the entry point; `replay(obj)` re-executes
a recorded scenario on the implementation alone and returns the oracle's complaints."""
import errno, struct, warnings
import fatimg

SPEC_THEOREMS = {
    'FA_free_in_data_area': 'every cluster of one free() scan: min_valid < c < limit, c < len(fat), entry 0; any hint',
    'FA_free_nodup': 'one free() scan yields no cluster twice, for every FSInfo hint',
    'FA_free_complete': 'every free cluster of the data area (<= max_valid) is yielded: ENOSPC only when none is left',
    'FA_truncate_wf': 'truncate keeps the file well-formed, size = new size, exact frame (grow / shrink / same)',
    'FA_truncate_enospc': 'truncate raises exactly ENOSPC, exactly when one scan yields fewer clusters than needed; nothing changed',
    'FA_truncate_enospc_genuine': '... and then no set of distinct free data-area clusters is large enough',
    'FA_alloc_one_wf': 'one allocation step of write(): chain stays well-formed, cluster came from the scan',
    'FA_write_wf': 'write(): well-formed afterwards also when ENOSPC interrupts it; size = prefix mapped',
    'FA_close_wf': 'close of a size-0 file releases its only cluster; the assert in close() cannot fail',
    'FA_unlink_frees_all': 'unlink zeroes exactly the entries of the chain',
    'FA_two_files_frame': 'operations on one file keep any other disjoint file well-formed and disjoint',
    'FA_history': 'any operation sequence on any family of files: all stay well-formed, pairwise disjoint, foreign entries untouched',
    'FA_chain_of_wf': 'chain(first cluster) re-reads exactly the map of a well-formed file',
}
TRUSTED = [
    'Coq 8.16.1 kernel; vm_compute only in the Examples of FatAlloc/ProofsEx.v and in params_ok_bits',
    'extraction (ExtrOcamlBasic), runner/driver.ml, OCaml',
    'abstraction: FAT entries as values (byte level is Fat/Spec + C03), cluster DATA ignored, directory entry '
    'reduced to size and first cluster, dirty bit of entry 1 restored on exit, locks ignored',
    'write() loop abstracted to "allocate until ceil((pos+n)/cs) clusters" (checked by this correspondence)',
    'side conditions of the theorems: cs > 0, limit <= max_valid + 1, reserved high nibble of FAT32 entries zero',
    'harness/fatimg.py image synthesis',
]

ENOSPC = 'ENOSPC'


def exc_name(e):
    if isinstance(e, OSError) and e.errno == errno.ENOSPC:
        return ENOSPC
    return type(e).__name__


class Vol:
    """one synthesised volume with k empty files created through nobodd, opened raw"""
    NAMES = ['f', 'g']

    def __init__(self, scn, repo_mod=None):
        from nobodd.fs import FatFileSystem
        self.scn = scn
        g = fatimg.Geometry(scn['fat_type'], scn['n_clusters'], spc=scn.get('spc', 1),
                            extra_fat_entries=scn['extra'], fsinfo=scn.get('fsinfo', True))
        self.g = g
        b = fatimg.Builder(g)
        self.buf = b.img
        if g.fat_type == 'fat32' and g.fsinfo and scn.get('info') is not None:
            la, fc = scn['info']
            o = g.info_sector * g.bps
            struct.pack_into('<II', self.buf, o + 488, fc, la)
        with warnings.catch_warnings():
            warnings.simplefilter('ignore')
            self.fs = FatFileSystem(memoryview(self.buf))
        fs = self.fs
        self.bits = g.bits
        self.cs = fs.clusters.size
        self.limit = len(fs.clusters) + 2
        for name in self.NAMES:
            (fs.root / name).touch()
        for c in scn['used']:                     # foreign in-use clusters
            fs.fat[c] = fs.fat.end_mark
        self.files = [(fs.root / n).open('r+b', buffering=0) for n in self.NAMES]
        self.foreign = {c: v for c, v in enumerate(self.table()) if v != 0}

    def table(self):
        return list(self.fs.fat)

    def info(self):
        i = getattr(self.fs.fat, '_info', None)
        return None if i is None else [i.last_alloc, i.free_clusters]

    def free_count(self):
        t = self.table()
        return sum(1 for c in range(3, min(self.limit, len(t))) if t[c] == 0)

    def first_cluster(self, f):
        from nobodd.fat import DirectoryEntry  # noqa: F401
        e = f._entry
        return (e.first_cluster_hi << 16 | e.first_cluster_lo) if self.bits == 32 else e.first_cluster_lo

    def reopen(self, i):
        self.files[i] = (self.fs.root / self.NAMES[i]).open('r+b', buffering=0)

    # ---- one operation on the implementation: returns outcome
    def do(self, op):
        kind, i = op[0], op[1]
        f = self.files[i]
        try:
            if kind == 'truncate':
                f.truncate(op[2]); return 'ok'
            if kind == 'write':
                f.seek(op[2]); n = f.write(b'\xa5' * op[3]); return 'ok' if n == op[3] else 'short:%d' % n
            if kind == 'close':
                f.close(); self.reopen(i); return 'ok'
            if kind == 'unlink':
                f.close()
                (self.fs.root / self.NAMES[i]).unlink()
                return 'ok'
            if kind == 'recreate':
                (self.fs.root / self.NAMES[i]).touch(); self.reopen(i); return 'ok'
        except Exception as e:          # noqa: BLE001
            return exc_name(e)
        raise ValueError(kind)

    # ---- the properties evaluated directly on the implementation
    def oracle_free(self):
        out, t = [], self.table()
        got, exc = [], None
        try:
            for c in self.fs.fat.free():
                got.append(c)
                if len(got) > 2 * len(t) + 4:
                    break
        except Exception as e:          # noqa: BLE001
            exc = exc_name(e)
        if exc != ENOSPC:
            out.append(('fs.alloc/free-end', f'free() ended with {exc} instead of ENOSPC'))
        if len(set(got)) != len(got):
            d = sorted({c for c in got if got.count(c) > 1})
            out.append(('fs.alloc/free-duplicate', f'one free() scan yields clusters {d[:5]} more than once'))
        bad = [c for c in got if not (3 <= c < self.limit and c < len(t))]
        if bad:
            out.append(('fs.alloc/free-outside-data-area',
                        f'free() yields {bad[:5]}: not clusters of the data area [3, {self.limit})'))
        notfree = [c for c in got if c < len(t) and t[c] != 0]
        if notfree:
            out.append(('fs.alloc/free-in-use', f'free() yields in-use clusters {notfree[:5]}'))
        want = [c for c in range(3, min(self.limit, len(t))) if t[c] == 0 and c <= self.fs.fat.max_valid]
        miss = sorted(set(want) - set(got))
        if miss:
            out.append(('fs.alloc/free-incomplete', f'free clusters {miss[:5]} are never yielded'))
        return out

    def oracle_state(self, skip=()):
        out, t = [], self.table()
        owned = {}
        maxv = self.fs.fat.max_valid
        for i, f in enumerate(self.files):
            if i in skip:
                continue
            m, size = list(f._map), f._entry.size
            if len(set(m)) != len(m):
                out.append(('fs.alloc/map-duplicate', f'file {i} maps a cluster twice: {m}'))
            for c in m:
                if not (2 <= c < self.limit and c < len(t)):
                    out.append(('fs.alloc/outside-data-area', f'file {i} owns cluster {c} outside [2,{self.limit})'))
                if c in owned:
                    out.append(('fs.alloc/shared-cluster', f'cluster {c} belongs to files {owned[c]} and {i}'))
                owned[c] = i
            for a, b in zip(m, m[1:]):
                if a < len(t) and t[a] != b:
                    out.append(('fs.alloc/broken-chain', f'file {i}: entry {a} is {t[a]:#x}, next mapped is {b}'))
            if m and m[-1] < len(t) and not t[m[-1]] > maxv:
                out.append(('fs.alloc/no-end-mark', f'file {i}: last cluster {m[-1]} has entry {t[m[-1]]:#x}'))
            need = -(-size // self.cs)
            if not (len(m) == need if size > 0 else len(m) <= 1):
                out.append(('fs.alloc/size-clusters', f'file {i}: size {size} with {len(m)} clusters'))
            fc = self.first_cluster(f)
            if fc != (m[0] if m else 0):
                out.append(('fs.alloc/first-cluster', f'file {i}: entry first cluster {fc}, map {m[:3]}'))
        for c, v in self.foreign.items():
            if c < len(t) and t[c] != v:
                out.append(('fs.alloc/foreign-entry-changed', f'entry {c} ({v:#x}, not ours) became {t[c]:#x}'))
        leak = [c for c in range(2, len(t)) if t[c] != 0 and c not in owned and c not in self.foreign]
        if leak:
            out.append(('fs.alloc/leaked-cluster', f'entries {leak[:6]} are in use but belong to no file'))
        return out


def model_args(v, st, i, arg):
    return [v.bits, v.cs, v.limit, st['info'], st['tbl'], st['files'][i]['map'],
            st['files'][i]['size'], st['files'][i]['pos'], arg]


def model_apply(st, i, payload):
    tbl, m, size, pos, info = payload
    st['tbl'], st['info'] = list(tbl), (list(info) if info else None)
    st['files'][i] = {'map': list(m), 'size': size, 'pos': pos}


def model_step(R, v, st, op):
    """step the extracted model; returns the outcome name"""
    kind, i = op[0], op[1]
    if kind == 'truncate':
        r = R.res('truncate', model_args(v, st, i, op[2]))
        if r[0] == 'err':
            return r[1]
        model_apply(st, i, r[1]); return 'ok'
    if kind == 'write':
        st['files'][i]['pos'] = op[2]
        s, done = R.call('write', model_args(v, st, i, op[3]))
        model_apply(st, i, s); return 'ok' if done else ENOSPC
    if kind == 'close':
        s = R.call('close', model_args(v, st, i, 1))
        model_apply(st, i, s)
        m = st['files'][i]['map']
        st['files'][i]['map'] = list(R.call('chain', [v.bits, st['tbl'], m[0] if m else 0]))
        st['files'][i]['pos'] = 0
        return 'ok'
    if kind == 'unlink':
        s = R.call('close', model_args(v, st, i, 1))
        model_apply(st, i, s)
        m = st['files'][i]['map']
        s = R.call('unlink', model_args(v, st, i, m[0] if m else 0))
        model_apply(st, i, s); return 'ok'
    raise ValueError(kind)


def impl_view(v, skip=()):
    return {'tbl': v.table(), 'info': v.info(),
            'files': [None if i in skip else {'map': list(f._map), 'size': f._entry.size, 'pos': f._pos}
                      for i, f in enumerate(v.files)]}


def gen_scenario(rng):
    ft = rng.choice(['fat12', 'fat16', 'fat32', 'fat32'])
    n = rng.randint(5, 26)
    scn = {'fat_type': ft, 'n_clusters': n, 'extra': rng.choice([0, 1, 7, 7, 40]), 'spc': rng.choice([1, 1, 2]),
           'fsinfo': True, 'info': None}
    first = 3 if ft == 'fat32' else 2            # cluster 2 is the FAT32 root directory
    cl = list(range(first, n + 2))
    free_target = rng.choice([0, 1, 2, 3, 5, 8, rng.randint(0, len(cl)), rng.randint(0, len(cl))])
    k = max(0, len(cl) - free_target)
    scn['used'] = sorted(rng.sample(cl, k))
    if ft == 'fat32':
        mode = rng.randrange(6)
        if mode == 0:
            scn['fsinfo'] = False
        elif mode == 1:
            scn['info'] = [rng.randint(0, n + 12), 0xFFFFFFFF]          # free count unknown
        elif mode == 2:
            scn['info'] = [rng.randint(2, n + 1), rng.randint(0, 3)]    # count too small: reaches 0
        else:
            scn['info'] = [rng.randint(2, n + 1), n - 1]
    return scn


def gen_op(rng, v, st):
    i = rng.randrange(len(v.files))
    fst = st['files'][i]
    cs = v.cs
    avail = v.free_count() + len(fst['map'])
    r = rng.random()
    if r < 0.42:
        t = rng.randint(0, avail + 2)
        n = 0 if t == 0 else rng.randint((t - 1) * cs + 1, t * cs)
        if rng.random() < 0.1:
            n = fst['size']
        return ('truncate', i, n)
    if r < 0.84:
        p = rng.choice([0, fst['size'], rng.randint(0, fst['size'] + 2 * cs), rng.randint(0, max(0, fst['size']))])
        room = max(0, (avail + 1) * cs - p)
        k = rng.choice([0, 1, cs, rng.randint(0, room + cs), rng.randint(0, 3 * cs)])
        return ('write', i, p, k)
    if r < 0.93:
        return ('close', i)
    return ('unlink', i)


def run_scenario(ctx, R, scn, nsteps, counters):
    v = Vol(scn)
    st = impl_view(v)
    ops = []
    replay = {'scenario': scn, 'ops': ops}
    for sig, what in v.oracle_free():
        ctx.violation(sig, what, dict(replay, ops=list(ops)))
    m = list(R.call('free_scan', [v.bits, st['tbl'], v.limit, st['info'][:1] if st['info'] else None]))
    got = []
    try:
        for c in v.fs.fat.free():
            got.append(c)
            if len(got) > 2 * len(st['tbl']):
                break
    except OSError:
        pass
    ctx.case(('free', repr(scn)), bool(m), 'free_scan')
    if got != m:
        ctx.violation('fs.alloc/free-scan-differs', f'free() yields {got[:8]}..., model {m[:8]}...', dict(replay))
    for _ in range(nsteps):
        op = gen_op(ctx.rng, v, st)
        ops.append(list(op))
        before = impl_view(v)
        free_before = v.free_count()
        got = v.do(op)
        want = model_step(R, v, st, op)
        counters['steps'] += 1
        skip = (op[1],) if op[0] == 'unlink' else ()
        now = impl_view(v, skip)
        if skip:
            now['files'][op[1]] = {'map': [], 'size': 0, 'pos': 0}
        nontrivial = before['tbl'] != now['tbl'] or got != 'ok'
        ctx.case((repr(scn), len(ops), repr(op)), nontrivial, op[0] + ('' if got == 'ok' else ':' + got))
        rp = {'scenario': scn, 'ops': [list(o) for o in ops]}
        if got != want:
            ctx.violation('fs.alloc/outcome-differs', f'{op}: implementation {got}, model {want}', rp)
        elif now != st:
            diff = [k for k in ('tbl', 'info', 'files') if now[k] != st[k]]
            ctx.violation('fs.alloc/state-differs/' + op[0],
                          f'{op}: {diff} differ; impl files {now["files"]} model {st["files"]}', rp)
        # ---- oracles on the implementation alone
        for sig, what in v.oracle_state(skip):
            ctx.violation(sig, f'after {op}: {what}', rp)
        if got == ENOSPC:
            if op[0] == 'truncate':
                need = max(1, -(-op[2] // v.cs)) - len(before['files'][op[1]]['map'])
                if free_before >= need:
                    ctx.violation('fs.alloc/enospc-with-room',
                                  f'{op}: ENOSPC although {free_before} clusters were free, {need} needed', rp)
                if now != before:
                    ctx.violation('fs.alloc/enospc-not-atomic', f'{op}: failed truncate changed the volume', rp)
            elif op[0] == 'write':
                fb = before['files'][op[1]]
                if now['tbl'] == before['tbl'] and now['files'][op[1]]['map'] == fb['map']:
                    # nothing allocated: the padding truncate failed, or the first allocation did
                    need = (max(1, -(-op[2] // v.cs)) - len(fb['map'])) if op[2] > fb['size'] else 1
                    if free_before >= max(1, need):
                        ctx.violation('fs.alloc/enospc-with-room',
                                      f'{op}: ENOSPC although {free_before} clusters were free, {need} needed', rp)
                elif v.free_count() != 0:
                    ctx.violation('fs.alloc/enospc-with-room',
                                  f'{op}: ENOSPC with {v.free_count()} clusters still free', rp)
        elif got != 'ok':
            ctx.violation('fs.alloc/unexpected-exception', f'{op}: {got}', rp)
        if op[0] == 'unlink':
            ops.append(['recreate', op[1]])
            r = v.do(('recreate', op[1]))
            now = impl_view(v)
            if r != 'ok':
                ctx.violation('fs.alloc/recreate', f'touch after unlink: {r}', rp)
            if now['tbl'] != st['tbl'] or now['info'] != st['info']:   # directory grew: not part of the model
                ctx.stat('resync-after-touch')
                new = [c for c, (a, b) in enumerate(zip(st['tbl'], now['tbl'])) if a != b]
                for c in new:
                    v.foreign[c] = now['tbl'][c]
                st['tbl'], st['info'] = now['tbl'], now['info']
        if counters['steps'] % 7 == 0:
            for sig, what in v.oracle_free():
                ctx.violation(sig, f'after {op}: {what}', rp)
        if ctx.violations and len(ctx.violations) >= 20:
            break
        if got != want or now != st:
            break                      # diverged: a fresh scenario is more useful than noise
    for f in v.files:
        try:
            f.close()
        except Exception:               # noqa: BLE001
            pass
    ctx.sample({'scenario': scn, 'ops': ops[:12]}, limit=3)


def run(ctx, build=None):
    R = ctx.runner('FatAlloc')
    total = 9000 if ctx.thorough else 1600
    if getattr(ctx, 'widen', False):
        total *= 2
    counters = {'steps': 0}
    while counters['steps'] < total and len(ctx.violations) < 20:
        scn = gen_scenario(ctx.rng)
        run_scenario(ctx, R, scn, ctx.rng.randint(10, 40), counters)
    ctx.stat('scenarios', 0)
    return counters['steps']


def replay(obj):
    """re-run a recorded scenario on the implementation; returns the oracle complaints"""
    v = Vol(obj['scenario'])
    out = list(v.oracle_free())
    for op in obj['ops']:
        r = v.do(tuple(op))
        skip = (op[1],) if op[0] == 'unlink' else ()
        out += [(s, f'after {op} -> {r}: {w}') for s, w in v.oracle_state(skip)]
        out += list(v.oracle_free())
    return out
