"""Gen/FatSkel.v: the lock / mutation skeleton of every function of nobodd/fs.py and
nobodd/path.py, extracted from the AST.

For each function: the lexical nesting of `with <lock>` blocks around (a) primitive stores
into the image ("pokes"), (b) calls of other functions of the two modules, (c) guarded
blocks whose condition is one of a few recognised tests.  Control flow is otherwise
discarded: the Coq semantics lets the items of a body run in any order, any number of
times, aborting anywhere (a superset of the real executions), which is sound for the
safety statements proved from it (C14, C15, C06).  Fail closed on anything unexpected
that touches a lock (e.g. a bare .acquire())."""
import ast, re
from translate import *

NAME = 'FatSkel'

CLASS_INIT = {}     # class name -> class whose __init__ it uses (filled by emit)

LOCK_RE = re.compile(r'^(self|fs|self\._get_fs\(\)|target_fs|self_fs)\.(_lock|lock)\.(read|write)$')
DIRTY_RE = re.compile(r'^(self|fs)\.mark_dirty\(\)$')


class Fn:
    def __init__(self, fid, cls, name, node, module):
        self.fid, self.cls, self.name, self.node, self.module = fid, cls, name, node, module
        self.body = None


def collect_functions(tree, module):
    fns = []
    def visit(body, cls, prefix):
        for n in body:
            if isinstance(n, ast.ClassDef):
                visit(n.body, n.name, n.name + '.')
            elif isinstance(n, (ast.FunctionDef, ast.AsyncFunctionDef)):
                name = n.name
                deco = [ast.unparse(d) for d in n.decorator_list]
                if any(d.endswith('.setter') for d in deco):
                    name = name + '.setter'
                fid = prefix + name
                fns.append(Fn(fid, cls, name, n, module))
                # nested functions become functions of their own
                for sub in ast.walk(n):
                    if sub is not n and isinstance(sub, ast.FunctionDef):
                        fns.append(Fn(fid + '.' + sub.name, cls, sub.name, sub, module))
    visit(tree.body, None, '')
    return fns


def receiver_family(text):
    t = text
    if re.search(r'(^|\.)(_?fat)$', t) or t.endswith('.fat') or t in ('self._fat',):
        return 'table'
    if re.search(r'(clusters|_data)$', t):
        return 'clusters'
    if re.search(r'(_index|index|moved|idx)$', t) or t in ('self',):
        return 'dir'
    return None


class Extract:
    def __init__(self, fn, known_names):
        self.fn, self.known = fn, known_names
        self.table_vars = set()

    def fail(self, node, why):
        raise TranslateError(f'{self.fn.fid}: {why}: {ast.unparse(node)[:80]}')

    def stmts(self, body):
        out = []
        for n in body:
            out.extend(self.stmt(n))
        return out

    def exprs(self, node):
        """pokes / calls / yields inside an expression or simple statement, nested defs excluded"""
        out = []
        for sub in ast.walk(node):
            if isinstance(sub, (ast.FunctionDef, ast.Lambda)) and sub is not node:
                continue
            if isinstance(sub, ast.Call):
                f = sub.func
                txt = ast.unparse(f)
                if txt in ('struct.pack_into',):
                    out.append(('poke', 'pack_into'))
                elif isinstance(f, ast.Attribute) and f.attr == 'to_buffer':
                    out.append(('poke', 'to_buffer'))
                elif isinstance(f, ast.Attribute) and f.attr in ('acquire', 'release') and \
                        re.search(r'(lock|read|write|_mutex)', ast.unparse(f.value)):
                    self.fail(sub, 'bare lock acquire/release (not a with statement)')
                elif isinstance(f, ast.Attribute) and f.attr in self.known:
                    out.append(('call', f.attr))
                elif isinstance(f, ast.Name) and f.id in self.known:
                    out.append(('call', f.id))
                elif isinstance(f, ast.Name) and (f.id in CLASS_INIT or (f.id == 'cls' and self.fn.cls in CLASS_INIT)):
                    out.append(('call', '__init__@' + (self.fn.cls if f.id == 'cls' else f.id)))
            elif isinstance(sub, (ast.Yield, ast.YieldFrom)):
                out.append(('yield',))
        return out

    def store_target(self, tgt):
        """classification of an assignment / deletion target"""
        out = []
        if isinstance(tgt, (ast.Tuple, ast.List)):
            for e in tgt.elts:
                out.extend(self.store_target(e))
            return out
        if isinstance(tgt, ast.Subscript):
            base = tgt.value
            btxt = ast.unparse(base)
            if isinstance(base, ast.Subscript):
                inner = ast.unparse(base.value)
                if receiver_family(inner) == 'clusters' or inner == 'self._mem':
                    return [('poke', 'cluster_slice')]
                return []
            if btxt == 'self._mem':
                return [('poke', 'mem_slice')]
            if btxt in self.table_vars or btxt == 'table':
                return [('poke', 'table_item')]
            fam = receiver_family(btxt)
            if fam == 'table':
                return [('call', '__setitem__@table')]
            if fam == 'clusters':
                return [('call', '__setitem__@clusters')]
            if fam == 'dir' and btxt != 'self':
                return [('call', '__setitem__@dir')]
            return []
        if isinstance(tgt, ast.Attribute) and tgt.attr in ('dirty', 'damaged'):
            return [('call', tgt.attr + '.setter')]
        return []

    def guard_of(self, test):
        t = ast.unparse(test)
        if t == 'fs.atime and (not fs.readonly)':
            return 'atime_and_writable'
        if 'self.writable()' in t and 'self._entry.size == 0' in t:
            return 'close_release_when_writable'
        if t == 'self._entry is None' and self.fn.fid == 'FatPath.open':
            return 'open_creates'
        if self.fn.fid == 'FatFile.__init__' and t in ("'w' in mode", "'a' in mode"):
            return 'file_mode_w' if "'w'" in t else 'file_mode_a'
        return None

    def stmt(self, n):
        if isinstance(n, (ast.FunctionDef, ast.AsyncFunctionDef, ast.ClassDef)):
            return []
        if isinstance(n, ast.With):
            inner = self.stmts(n.body)
            pre = []
            kinds = []
            for item in n.items:
                txt = ast.unparse(item.context_expr)
                m = LOCK_RE.match(txt)
                if m:
                    kinds.append('R' if m.group(3) == 'read' else 'W')
                elif DIRTY_RE.match(txt):
                    kinds.append('D')
                elif txt == 'lock' and self.fn.fid == 'FatPath.open':
                    kinds.append('OPENLOCK')
                elif re.search(r'\b(lock|mark_dirty)\b', txt) and 'self._read_switch' not in txt:
                    self.fail(n, 'unrecognised lock-like context manager')
                else:
                    pre.extend(self.exprs(item.context_expr))
            body = inner
            for k in reversed(kinds):
                if k == 'OPENLOCK':
                    # modes without a/w/x contain 'r', and then `self._must_exist()` runs first, so the
                    # creation block (`if self._entry is None:`) is dead in those two variants
                    src = ast.unparse(n)
                    want = ("lock = fs.lock.read if set(mode) & set('r+') == {'r'} else fs.mark_dirty() "
                            "if set(mode) & set('awx') else fs.lock.write")
                    assigns = [ast.unparse(a) for a in ast.walk(self.fn.node) if isinstance(a, (ast.Assign, ast.AugAssign, ast.AnnAssign))
                               and 'lock' in {t.id for t in ast.walk(a) if isinstance(t, ast.Name) and isinstance(t.ctx, ast.Store)}]
                    if assigns != [want]:
                        self.fail(n, f"open(): the choice of lock is not the expected `{want}` (every creating mode a/w/x must mark the volume dirty): {assigns}")
                    if "if 'r' in mode:\n        self._must_exist()" not in src:
                        self.fail(n, "open(): expected `if 'r' in mode: self._must_exist()` at the top of the locked block")
                    def strip(items):
                        return [(it[0], it[1], strip(it[2])) if it[0] in ('with', 'guard') and it[1] != 'open_creates' else it
                                for it in items if not (it[0] == 'guard' and it[1] == 'open_creates')]
                    body = [('alt', [('guard', 'open_mode_read', [('with', 'R', strip(body))]),
                                     ('guard', 'open_mode_creates', [('with', 'D', body)]),
                                     ('guard', 'open_mode_update', [('with', 'W', strip(body))])])]
                else:
                    body = [('with', k, body)]
            return pre + body
        if isinstance(n, ast.If):
            g = self.guard_of(n.test)
            head = self.exprs(n.test)
            body = self.stmts(n.body)
            orelse = self.stmts(n.orelse)
            if g:
                return head + [('guard', g, body)] + orelse
            return head + body + orelse
        if isinstance(n, (ast.For, ast.While)):
            head = self.exprs(n.iter if isinstance(n, ast.For) else n.test)
            if isinstance(n, ast.For) and ast.unparse(n.iter) == 'self._tables' and isinstance(n.target, ast.Name):
                self.table_vars.add(n.target.id)
            return head + self.stmts(n.body) + self.stmts(n.orelse)
        if isinstance(n, ast.Try):
            out = self.stmts(n.body)
            for h in n.handlers:
                out += self.stmts(h.body)
            return out + self.stmts(n.orelse) + self.stmts(n.finalbody)
        if isinstance(n, (ast.Assign, ast.AugAssign, ast.AnnAssign)):
            out = self.exprs(n.value) if n.value is not None else []
            targets = n.targets if isinstance(n, ast.Assign) else [n.target]
            for t in targets:
                out += self.store_target(t)
                out += [e for e in self.exprs(t) if e[0] == 'call']
            return out
        if isinstance(n, ast.Delete):
            out = []
            for t in n.targets:
                if isinstance(t, ast.Subscript) and receiver_family(ast.unparse(t.value)) == 'dir':
                    out.append(('call', '__delitem__@dir'))
            return out
        if isinstance(n, ast.Match):
            self.fail(n, 'match statement not supported')
        return self.exprs(n)


def emit():
    mods = {'fs': parse('fs.py'), 'path': parse('path.py')}
    fns = []
    for m, t in mods.items():
        fns += collect_functions(t, m)
    names = {}
    for f in fns:
        names.setdefault(f.name, []).append(f)
    # which __init__ a class instantiation runs (single inheritance, classes of the two modules)
    bases, has_init = {}, set()
    for m, t in mods.items():
        for c in t.body:
            if isinstance(c, ast.ClassDef):
                bases[c.name] = [ast.unparse(b) for b in c.bases]
                if any(isinstance(x, ast.FunctionDef) and x.name == '__init__' for x in c.body):
                    has_init.add(c.name)
    CLASS_INIT.clear()
    for c in bases:
        k = c
        while k is not None and k not in has_init:
            k = next((b for b in bases.get(k, []) if b in bases), None)
        if k:
            CLASS_INIT[c] = k
    # mark_dirty() only builds the context manager; its body runs on `with` (modelled as LD)
    known = set(names) - {'__init__', '__repr__', '__enter__', '__exit__', 'mark_dirty'}
    # families for subscript stores
    fam_classes = {'table': ('FatTable', 'Fat12Table', 'Fat16Table', 'Fat32Table'), 'clusters': ('FatClusters',),
                   'dir': ('FatDirectory', 'FatRoot', 'FatSubDirectory', 'Fat12Root', 'Fat16Root', 'Fat32Root')}
    for f in fns:
        f.body = Extract(f, known).stmts(f.node.body)
    index = {f.fid: i for i, f in enumerate(fns)}
    if len(index) != len(fns):
        raise TranslateError('duplicate function identifiers')
    # A call of a generator function runs NOTHING of its body: the body runs where the generator is consumed.  The
    # skeleton treats a call as running the callee in place, which is right only when the generator is consumed where
    # it is created (yield from / for / list(...) ...).  A generator object that is returned, stored or passed on would
    # run later, possibly after the lock section that surrounds the call has ended: refuse to translate that.
    def own_nodes(fn_node):
        stack = list(ast.iter_child_nodes(fn_node))
        while stack:
            nd = stack.pop()
            if isinstance(nd, (ast.FunctionDef, ast.AsyncFunctionDef, ast.Lambda, ast.ClassDef)):
                continue
            yield nd
            stack.extend(ast.iter_child_nodes(nd))
    gen_names = {f.name for f in fns if any(isinstance(nd, (ast.Yield, ast.YieldFrom)) for nd in own_nodes(f.node))} - {'mark_dirty'}   # a context manager, modelled as the lock kind LD
    CONSUMERS = {'list', 'tuple', 'sorted', 'next', 'set', 'any', 'all', 'sum', 'max', 'min', 'dict', 'frozenset'}
    WRAPPERS = {'islice', 'enumerate', 'zip', 'map', 'filter', 'reversed'}
    for m, t in mods.items():
        parents = {}
        for nd in ast.walk(t):
            for c in ast.iter_child_nodes(nd):
                parents[c] = nd
        def consumed(nd):
            p = parents.get(nd)
            if isinstance(p, ast.YieldFrom) or isinstance(p, ast.withitem):
                return True
            if isinstance(p, (ast.For, ast.comprehension)) and p.iter is nd:
                return True
            if isinstance(p, ast.Call) and isinstance(p.func, ast.Name) and nd in p.args:
                if p.func.id in CONSUMERS:
                    return True
                if p.func.id in WRAPPERS:
                    return consumed(p)
            return False
        for nd in ast.walk(t):
            if isinstance(nd, ast.Call):
                fn_ = nd.func
                nm = fn_.attr if isinstance(fn_, ast.Attribute) else (fn_.id if isinstance(fn_, ast.Name) else None)
                if nm in gen_names and not consumed(nd):
                    raise TranslateError(f'{m}.py:{nd.lineno}: the generator created by `{ast.unparse(nd)[:60]}` is not consumed where it is '
                                         f'created (returned / stored / passed on): its body would run outside the lock section around the call')

    def resolve(callee):
        if callee.startswith('__init__@'):
            c = CLASS_INIT.get(callee.split('@')[1])
            return [index[c + '.__init__']] if c and c + '.__init__' in index else []
        if '@' in callee:
            nm, fam = callee.split('@')
            return [index[f.fid] for f in names.get(nm, []) if f.cls in fam_classes[fam]]
        return [index[f.fid] for f in names.get(callee, [])]

    GUARDS = ['atime_and_writable', 'close_release_when_writable', 'open_creates', 'open_mode_read', 'open_mode_creates', 'open_mode_update', 'file_mode_w', 'file_mode_a']
    POKES = ['pack_into', 'to_buffer', 'table_item', 'mem_slice', 'cluster_slice']

    def item_strs(items):
        out = []
        for it in items:
            if it[0] == 'poke':
                out.append(f'SPoke {POKES.index(it[1])}')
            elif it[0] == 'call':
                tg = resolve(it[1])
                if tg:
                    out.append('SCall [' + '; '.join(str(x) for x in tg) + ']')
            elif it[0] == 'yield':
                out.append('SYield')
            elif it[0] == 'with':
                out.append(f'SWith L{it[1]} ' + coq_items(it[2]))
            elif it[0] == 'guard':
                out.append(f'SGuard {GUARDS.index(it[1])} ' + coq_items(it[2]))
            elif it[0] == 'alt':
                out.extend(item_strs(it[1]))
        return out

    def coq_items(items):
        return '[' + '; '.join(item_strs(items)) + ']'

    L = ['(* GENERATED by harness/gen_fatskel.py from nobodd/fs.py and nobodd/path.py -- do not edit. *)',
         'From Coq Require Import List NArith String.', 'From NV Require Import Fat.SkelDefs.', 'Import ListNotations.',
         'Open Scope nat_scope.', '']
    L.append('Definition fn_names : list string := [' + '; '.join(f'"{f.fid}"%string' for f in fns) + '].')
    L.append('Definition skeleton : list (list stmt) := [')
    L.append(';\n'.join('  (* %3d %s *) %s' % (i, f.fid, coq_items(f.body)) for i, f in enumerate(fns)))
    L.append('].')
    # entry points: public API of paths, files and the file-system object (for C15) / of everything (C14)
    def public(f):
        return not f.name.startswith('_') or f.name in ('__setitem__', '__delitem__', '__getitem__', '__contains__', '__iter__', '__len__')
    api_cls = ('FatPath', 'FatFile', 'FatFileSystem')
    all_public = [index[f.fid] for f in fns if public(f) and f.fid.count('.') <= 1]
    api_public = [index[f.fid] for f in fns if public(f) and f.cls in api_cls and f.fid.count('.') <= 1
                  and f.name not in ('dirty.setter', 'damaged.setter', 'mark_dirty')]
    L.append('Definition entries_all : list nat := [' + '; '.join(map(str, all_public)) + '].')
    L.append('Definition entries_api : list nat := [' + '; '.join(map(str, api_public)) + '].')
    flag = [index[f.fid] for f in fns if f.fid in ('FatFileSystem.dirty.setter', 'FatFileSystem.damaged.setter', 'FatFileSystem.mark_dirty')]
    L.append('Definition flag_functions : list nat := [' + '; '.join(map(str, flag)) + '].')
    serve = [index[fid] for fid in ('FatPath.open', 'FatFile.readinto', 'FatFile.readall', 'FatFile.seek', 'FatFile.close',
                                   'FatFile.readable', 'FatFile.seekable', 'FatFile.writable', 'FatPath.exists', 'FatPath.is_dir',
                                   'FatPath.is_file', 'FatPath.stat', 'FatPath.iterdir', 'FatPath.joinpath', 'FatFileSystem.open_dir',
                                   'FatFileSystem.open_entry', 'FatFileSystem.close') if fid in index]
    L.append('Definition entries_serve : list nat := [' + '; '.join(map(str, serve)) + '].')
    # least fixpoints computed here, re-checked (as inductive summaries) inside Coq
    n = len(fns)
    def fixpoint(protects, skip_guard=None, allow_edges=()):
        need = [False] * n
        changed = True
        def scan(items, prot, fi):
            r = False
            for it in items:
                if it[0] == 'poke':
                    r |= not prot
                elif it[0] == 'call':
                    for tg in resolve(it[1]):
                        if (fi, tg) in allow_edges:
                            continue
                        r |= (need[tg] and not prot)
                elif it[0] == 'with':
                    r |= scan(it[2], prot or it[1] in protects, fi)
                elif it[0] == 'guard':
                    if skip_guard and it[1] in skip_guard:
                        continue
                    r |= scan(it[2], prot, fi)
                elif it[0] == 'alt':
                    for x in it[1]:
                        r |= scan([x], prot, fi)
            return r
        while changed:
            changed = False
            for i, f in enumerate(fns):
                if not need[i] and scan(f.body, False, i):
                    need[i] = True
                    changed = True
        return need
    need_w = fixpoint(('W', 'D'))
    L.append('Definition needs_w : list bool := [' + '; '.join(coq_bool(b) for b in need_w) + '].')
    atime_edge = [(index['FatFile.readinto'], index['FatFile._set_atime'])] if 'FatFile._set_atime' in index else []
    need_d = fixpoint(('D',), allow_edges=set(atime_edge))
    L.append('Definition needs_d : list bool := [' + '; '.join(coq_bool(b) for b in need_d) + '].')
    L.append('Definition atime_edges : list (nat * nat) := [' + '; '.join(f'({a}, {b})' for a, b in atime_edge) + '].')
    serve_guards = ('atime_and_writable', 'close_release_when_writable', 'open_creates', 'open_mode_creates', 'open_mode_update', 'file_mode_w', 'file_mode_a')
    may_poke = fixpoint((), skip_guard=serve_guards)   # with nothing "protecting": can a poke be reached at all?
    L.append('Definition may_poke_serving : list bool := [' + '; '.join(coq_bool(b) for b in may_poke) + '].')
    L.append('Definition serve_false_guards : list nat := [' + '; '.join(str(GUARDS.index(g)) for g in serve_guards) + '].')
    # ---- atomicity: composite operations are ONE outermost lock section -------------------------
    # greatest fixpoint: a function is quiet when no store and no lock acquisition is reachable from it
    quiet = [True] * n
    def loud(it):
        if it[0] in ('poke', 'with'):
            return True
        if it[0] == 'call':
            return any(not quiet[t] for t in resolve(it[1]))
        if it[0] == 'guard':
            return any(loud(x) for x in it[2])
        if it[0] == 'alt':
            return any(loud(x) for x in it[1])
        return False
    changed = True
    while changed:
        changed = False
        for i, f in enumerate(fns):
            if quiet[i] and any(loud(it) for it in f.body):
                quiet[i] = False
                changed = True
    L.append('Definition quiet_fns : list bool := [' + '; '.join(coq_bool(b) for b in quiet) + '].')
    # greatest fixpoint: the function never takes the write side -- under the guards of a reading configuration
    # (access times off, files opened for reading, nothing created): the same guards as for the serving check
    nowr = [True] * n
    def takes_write(it):
        if it[0] == 'with':
            return it[1] in ('W', 'D') or any(takes_write(x) for x in it[2])
        if it[0] == 'call':
            return any(not nowr[t] for t in resolve(it[1]))
        if it[0] == 'guard':
            return it[1] not in serve_guards and any(takes_write(x) for x in it[2])
        if it[0] == 'alt':
            return any(takes_write(x) for x in it[1])
        return False
    changed = True
    while changed:
        changed = False
        for i, f in enumerate(fns):
            if nowr[i] and any(takes_write(it) for it in f.body):
                nowr[i] = False
                changed = True
    L.append('Definition nowrite_fns : list bool := [' + '; '.join(coq_bool(b) for b in nowr) + '].')
    ATOMIC_W = ['FatPath.unlink', 'FatPath.rename', 'FatPath.mkdir', 'FatPath.rmdir', 'FatPath.touch', 'FatPath.write_bytes',
                'FatPath.write_text', 'FatFile.write', 'FatFile.truncate']
    ATOMIC_R = ['FatPath.read_bytes', 'FatPath.read_text', 'FatPath.iterdir', 'FatPath.glob', 'FatPath.rglob', 'FatFile.readall']
    ATOMIC = ATOMIC_W + ATOMIC_R
    # the reading operations are judged under the reading guards: their own open() calls must be for reading
    for fid in ('FatPath.read_bytes', 'FatPath.read_text'):
        if fid in index:
            opens = [c for c in ast.walk(fns[index[fid]].node) if isinstance(c, ast.Call) and ast.unparse(c.func) == 'self.open']
            def reading(c):
                modes = [a for a in c.args[:1]] + [k.value for k in c.keywords if k.arg == 'mode']
                return all(isinstance(m, ast.Constant) and m.value in ('r', 'rb') for m in modes)     # default mode is 'r'
            if not opens or not all(reading(c) for c in opens):
                raise TranslateError(f'{fid}: expected self.open() in a reading mode only, found {[ast.unparse(c) for c in opens]}')
    for fid in ATOMIC:
        if fid not in index:
            raise TranslateError(f'{fid}: operation expected to be one exclusive section is missing')
        # the sequential reading of the top level (Fat/SkelDefs.v exec_seq) needs: no lock section, and no call of a
        # function that takes a lock or stores, inside a loop that is itself outside every lock section
        fn = fns[index[fid]]
        def walk(nodes, in_loop, in_lock):
            for nd in nodes:
                if isinstance(nd, (ast.FunctionDef, ast.AsyncFunctionDef, ast.ClassDef, ast.Lambda)):
                    continue
                if isinstance(nd, ast.With) and any(LOCK_RE.match(ast.unparse(i.context_expr)) or DIRTY_RE.match(ast.unparse(i.context_expr))
                                                     for i in nd.items):
                    if in_loop and not in_lock:
                        raise TranslateError(f'{fid}: a lock section inside a loop: the operation is not one exclusive section')
                    walk(nd.body, in_loop, True)
                    continue
                if isinstance(nd, (ast.For, ast.While, ast.ListComp, ast.SetComp, ast.DictComp, ast.GeneratorExp)) and not in_lock:
                    sub = Extract(fn, known)
                    items = sub.stmts([nd]) if isinstance(nd, ast.stmt) else sub.exprs(nd)
                    if any(loud(it) for it in items):
                        raise TranslateError(f'{fid}: a loop outside every lock section reaches a lock or a store: not one exclusive section')
                    continue
                walk(list(ast.iter_child_nodes(nd)), in_loop, in_lock)
        walk(fn.node.body, False, False)
    L.append('Definition atomic_entries : list nat := [' + '; '.join(str(index[fid]) for fid in ATOMIC_W) + '].')
    L.append('Definition atomic_read_entries : list nat := [' + '; '.join(str(index[fid]) for fid in ATOMIC_R) + '].')
    return '\n'.join(L) + '\n'
