#!/usr/bin/env python3
"""Writes /verif/MANIFEST.json from the table below (kept in one place so that it stays valid)."""
import json, os
VERIF = os.path.dirname(os.path.dirname(os.path.abspath(__file__)))

CLAIMED = {
 'C16': dict(
   technique='Coq proof (list induction) over an executable netascii/transcoder model + exhaustive differential correspondence',
   text='Twelve Coq theorems over a hand-written executable model of netascii.encode/decode, the incremental and '
        'stream interfaces and BufferedTranscoder (unbounded: all strings, all chunkings, all read-size sequences); '
        'the model is tied to the code by an exhaustive differential check (all strings over {CR,LF,NUL,a,non-ASCII} '
        'to length 5/7, all chunkings, 4 error modes) against the extracted model, by translator-regenerated facts '
        '(import graph, codec wiring, transcoder constants) and by a fresh-interpreter real-UDP netascii transfer.',
   note='Trusted: Coq kernel, translator, ExtrOcamlBasic extraction + driver, CPython codecs base classes; '
        'all theorems closed under the global context. StreamReader end-of-stream CR is outside the statement.',
   design='§7 C16'),
}
COMMON_NOTE = ('Trusted: Coq 8.16.1 kernel (no native_compute), translator gen_tftp.py (constants, decision expressions, canonical '
               'hashes of hand-modelled methods), ExtrOcamlBasic extraction + runner/driver.ml, harness fake sockets / virtual clock, CPython. '
               'All property theorems closed under the global context. ')
CLAIMED.update({
 'C20': dict(
   technique='Coq proof of parse(serialize p)=p, case folding and wire format over an executable packet model + differential correspondence',
   text='Eight theorems over a hand-written model of all six packet classes (serialiser, parser with the two regexes as explicit scanners, '
        'UTF-8 / ASCII decoding, dict semantics): round trip for every packet value in normal form, case folding for any letter case, wire '
        'format; tied to tftp.py by regenerated constants/regex text and by differential testing of Packet.from_bytes / bytes(packet) '
        'on thousands of structured and hostile datagrams, plus an independent wire decoder.',
   note=COMMON_NOTE + 'Both directions of the round trip are theorems (the second for every datagram whose packet is serialisable).',
   design='§7 C20'),
 'C01': dict(
   technique='Coq inductive invariant over all schedules (data_sound) + RFC client refinement + differential correspondence under an adversarial network',
   text='Theorems: for every file, block size >= 1 and EVERY event list (datagrams from any endpoint, ticks) every DATA k ever emitted carries '
        'bytes [(k-1)B,kB) with 1<=k<=65535; only the last block is short; an RFC 1350 client fed any selection/reordering/duplication of '
        'such packets plus arbitrary foreign ones reconstructs exactly the file; COMPLETION in the closed loop server + RFC client + network (loss-free: exactly blocks 1..|F|/B+1, client ends with F; lossy: any schedule of deliver/duplicate/lose/reorder/timer events in which the server does not reach its give-up test and enough effective deliveries occur ends with the client holding F; every schedule is safe); a file needing more than 65535 blocks is never reported '
        'complete and ACK 65535 is answered by ERROR. Model tied to tftpd.py by regenerated comparisons and by replaying seeded adversarial '
        'sessions (incl. the 65535-block boundary) on the real handler classes and the extracted model, comparing every datagram and state.',
   note=COMMON_NOTE + 'Completion is proved under the explicit hypothesis that the give-up test of service_actions is never reached (sufficient clock condition proved); a lost OACK is never retransmitted by the server (theorem lost_oack_blocks) and is recovered by the client re-sending its request. Modelled not verified: UDP, socketserver, buffered read returning full blocks.',
   design='§7 C01'),
 'C05': dict(
   technique='Coq case analysis over the handler ladders (total functions) + differential fuzzing of the real handlers',
   text='Theorems: every reply on a transfer port (any state, datagram, source) and every retransmission is a DATA with legal block or an ERROR '
        'with known code and ASCII text (serialisable); whatever the listening port sends is an ERROR; non-RRQ datagrams start nothing; WRQ '
        'refused; foreign endpoints change nothing; malformed datagrams change only the clocks. Tie: canonical hashes of the modelled ladders, '
        'thousands of hostile datagrams into the real handlers vs the extracted model, independent reply grammar, control transfer afterwards.',
   note=COMMON_NOTE + 'Totality in the model is Gallina termination; real thread liveness and socketserver.handle_error are runtime residue.',
   design='§7 C05'),
 'C07': dict(
   technique='Coq frame/projection theorems over the transfer registry + Coq small-step interleaving model of the registry as a concurrent object (listener, reaper, N sub-server threads: lock discipline, no deadlock, listener progress) + in-process interleavings + scheduler-shim differential check + real threaded UDP tier',
   text='Theorems (bookkeeping logic, any number of transfers, every interleaving): events for transfer a leave b untouched; the projection of a '
        'global run on a equals a solo run, so C01 applies to each; accepting a request never alters a running transfer; the registry as a CONCURRENT object (every interleaving of the listener in add, the reaper in run and any number of sub-server threads, at the granularity of one lock / dictionary / flag operation): the table is touched and iterated only by the lock holder, no reachable state is a deadlock, the listener is blocked only for the rest of the holder s section (add completes after boundedly many fair rounds), add never leaves two live transfers for one TID; the sub-server binds an ephemeral port WITHOUT address / port reuse (fact regenerated from tftpd.py -- with SO_REUSEADDR Linux hands the UDP port of a live transfer to a new one; found, fixed). Tie: digests and lock-placement facts of TFTPSubServers regenerated from the source; the real TFTPSubServers under a deterministic scheduler shim vs the extracted model; 2-6 real '
        'in-process transfers under seeded interleavings vs the extracted model; runtime tier with real threads and loopback UDP '
        '(stalling / vanishing / erroring clients, latency of a fresh request); an own-port tier (1500 / 3000 simultaneously live sub-servers on real sockets: pairwise different ports) and '
        'two handler objects alive at once in every interleaving of their setup / handle / finish phases (each client gets ITS block). The file-system lock the transfers share: exclusion / no-deadlock / source-match theorems of C13 restated here, reduced lock exploration in the check.',
   note=COMMON_NOTE + 'PARTIAL: progress statements assume weak fairness and that thread.join does not time out; pre-emption INSIDE a handler (below one primitive operation), the GIL and OS port allocation are not modelled and only observed by the real-UDP tier.',
   design='§7 C07'),
 'C08': dict(
   technique='Coq proof over a staged model of negotiate (names, values, ranges) + exhaustive subsets/orders differential check',
   text='Theorems: acknowledged names are an order-preserving selection of the supported names sent; negotiate changes only block size and '
        'timeout; blksize = min(65464, requested) >= 8 and is acknowledged as used; timeout within [10ms,255s]; tsize exact; no surviving option '
        '=> DATA 1 with 512-byte blocks; failures refuse. Tie: every subset and order of the four options, listed boundary values, random '
        'mixtures, both modes, through the real handlers vs the extracted model and vs an independent statement-level oracle incl. '
        'retransmission timing on a virtual clock.',
   note=COMMON_NOTE + 'float(str) is not modelled: the model takes int(float(v)*1e9) as an input and the theorems quantify over it.',
   design='§7 C08'),
 'C09': dict(
   technique='Coq proof over the timeout state machine and registry + Coq small-step interleaving model of the registry (a finished transfer is reaped, close drains) + virtual-clock and scheduler-shim differential checks + real-server resource accounting',
   text='Theorems: after more than six timeouts of silence the next tick marks the transfer done (any timeout, any silence point); nothing is '
        're-sent before one timeout has passed since the last send and last datagram, and the unacknowledged block is re-sent at the first tick '
        'after; client ERROR / completion / server error end the transfer; the reaper removes exactly finished transfers; closing empties the '
        'registry; refusals register nothing; in the CONCURRENT registry model (listener, reaper, N sub-server threads, every interleaving) a transfer whose done flag is set is removed within a number of fair rounds given by an explicit measure, after which its thread has returned, its source is closed and its TID is gone for good; after close() the table is empty and every sub-server thread has returned and is closed; no deadlock. Tie: silence/ERROR/garbage scenarios on a virtual clock vs the extracted model; real threaded '
        'server: threads, descriptors and registry back to baseline after completed, abandoned, errored and refused requests and after close.',
   note=COMMON_NOTE + 'PARTIAL: progress assumes weak fairness and that thread.join(timeout=10) does not expire (if it did, _remove raises and the reaper thread dies: an observation, see DESIGN §10); OS-level release of sockets / descriptors and finalisation of refused requests are runtime residue observed by the real-UDP tier (simple server and BootServer over FAT images).',
   design='§7 C09'),
})

FAT_NOTE = ('Trusted: Coq 8.16.1 kernel (vm_compute only on closed terms / generated skeleton checks), translators gen_fat.py / gen_fatskel.py / '
            'gen_boot.py, ExtrOcamlBasic extraction + runner/driver.ml, harness/fatimg.py (independent image writer), CPython. '
            'All property theorems closed under the global context. ')
CLAIMED.update({
 'C02': dict(
   technique='Coq proof over a model of BootHandler.resolve_path (hex serial, board table, address check) + differential correspondence + partition-content oracle',
   text='Theorems for every request string, client address and board table: whatever is served comes from the image and partition configured for the '
        'board whose serial the first component spells in hexadecimal, from the configured address when ip= is set (exactly that address served, every '
        'other refused); unknown / non-hex serials and empty paths are not found. Tie: statement structure of resolve_path regenerated from server.py; '
        'int(s,16) and the resolution model compared with the real handler; end-to-end oracle: thousands of adversarial names from IPv4 / IPv6 / mapped '
        'addresses against disk images with two FAT partitions, reply content compared with the extracted Coq reader of the configured partition. '
        'INSIDE the volume (FatVol.ProofsDots): FatPath does not normalise -- "." and ".." are looked up as the dot entries stored in every sub-directory -- and on a '
        'consistent volume that walk over the on-disk records equals the stack walk over the volume\'s own tree (".." pops, "." stays, at the root neither exists), so '
        'whatever the request spells reaches a node of THAT volume\'s tree or nothing (C02_volume_closed); tied to FatPath._resolve by dotted-path probes over grown volumes. '
        'A reload scenario runs nobodd.server.main with a recording request loop: after the configuration is rewritten and a reload requested the table is the new one. The per-serial cache of opened volumes is transparent over any request history (Boot/Cache.v); what a dotted path reaches is what its dot-free normal form reaches.',
   note=FAT_NOTE + 'The byte-level reading of the volume is covered by C03 (reader) and the end-to-end oracle; pathlib parsing of the request and ipaddress are CPython. '
        'Found and fixed: str-vs-ipaddress comparison refused every ip= board.',
   design='§7 C02'),
 'C03': dict(
   technique='Coq proofs that the code\'s FAT-entry decoding, geometry and read arithmetic equal the bit-level / in-memory specification + three-way differential check',
   text='Theorems: the FAT entry read by Fat12/16/32Table equals the bit-level entry for every table and index; geometry (offsets, sizes, cluster count, type '
        'incl. the 4085/65525 boundaries) as computed by FatFileSystem.__init__ equals the specification reader; cluster n is bytes [data+(n-2)cs, +cs); ANY '
        'sequence of seek/read/readinto/readall equals the same sequence on the in-memory content; timestamps are the specified bit fields; the directory decoder of the code (grouping, long-name joining incl. its restart rules) equals the specification decoder on every region whose runs are valid or absent; path resolution of ANY component list, "." and ".." included (looked up as the stored dot entries), on a volume in VolInv is the stack walk over the plain tree the volume holds, reaches only nodes of that tree, and obeys the laws of lexical normalisation below the root. Tie: volumes '
        'written by an independent writer over random legal geometries with fragmentation, long/short names (characters outside the BMP whose surrogate pair straddles two long-name records included), NT flags, deleted entries, labels, orphan runs (among them the safe-save layout: live run + deleted entry + live entry of the same 8.3 name): '
        'tree read through nobodd == extracted Coq spec reader == what was written; models vs real classes; seek/read scripts; image unchanged.',
   note=FAT_NOTE + 'On regions with damaged runs the code and the specification reader legitimately differ in documented corners (a long-name record starting with 0, a deleted record inside a run); there the correspondence check ties the model to the code bug-for-bug; '
        'struct, memoryview, datetime and the code page are CPython. Found and fixed: lfn_valid rejected VFAT-legal names (listing raised).',
   design='§7 C03'),
 'C04': dict(
   technique='Coq invariant and refinement proofs (byte-level FAT set/get frame; chain-level truncate/write/close/unlink well-formedness over any history; byte-level refinement of one open file to a byte array; directory-entry update/delete) + oracle by the extracted Coq structural check after every operation',
   text='Theorems: stage T on bytes (a stored entry reads back, every other entry incl. the FAT12 nibble neighbour and FAT32 top bits untouched, all copies '
        'identical); stage F on chains (truncate shrink/grow/zero, write, close, unlink keep every file well-formed: chain in range, linked, terminated, '
        'duplicate-free, ceil(size/cs) long; other files and foreign entries untouched; ANY operation sequence on any family of files); stage D on bytes (ANY history of seek / write / truncate / read on one handle, failed steps included, refines a plain byte array; holes read as zeros whatever the clusters held; clusters outside the chain untouched); stage E on directory records (update in place rewrites one record, delete removes exactly one group, others byte-identical); stage P on the whole volume at record level (FAT values + every directory s decoded entries, dead slots, dot entries): every path operation -- open(w/x/a/r+)+action+close, touch, unlink, mkdir, rmdir, rename in all branches -- with every outcome preserves VolInv (all chains well-formed and pairwise disjoint, no lost cluster, sizes match chains, empty files own no cluster, dot entries right, names and aliases unique, directory graph a tree) and, unless it runs out of space, has the outcome and tree of the plain in-memory model; ANY history. The layers are tied to each other and to the code by correspondence, and after EVERY operation of seeded histories (all ten operations, all FAT types, '
        'empty/populated/fragmented volumes) the extracted Coq reader must report a clean complete structural check and the same tree as a plain in-memory '
        'model, through the same instance, a fresh instance and the spec reader, with bytes outside the partition unchanged.',
   note=FAT_NOTE + 'history_refines is proved per layer (FAT bytes, chains, file bytes, directory records) and at record level for the path operations over the whole volume; what remains PARTIAL is that the record-level state is linked to the image bytes by the layer theorems plus correspondence (every FAT value, directory slot and cluster number compared after every operation), not by one end-to-end theorem; guards of stage P: path components free of ~, the created name and alias collide with nothing (FatNames alias_unique is the lower-layer theorem). '
        'Found and fixed: truncate shrink slice, growth from empty map, chain leak in unlink/rmdir/rename, mkdir not zeroing, rename onto itself, rename of directories, lost case flags, a directory renamed into itself through its alias / a name equal after upper-casing, an alias equal to the upper-cased long name of another entry.',
   design='§7 C04'),
 'C06': dict(
   technique='Coq proof over the AST-regenerated mutation skeleton (no store reachable from serving entry points) + regenerated read-only defaults + image hashes under a real server',
   text='Theorems: with the serving configuration (DiskImage mapped ACCESS_READ by default, FatFileSystem atime off, file opened rb -- all three regenerated from '
        'the source) NO execution of the entry points used while serving (open, readinto/readall, seek, close, resolution, listing; statements in any order, '
        'any repetition, aborted anywhere) stores into the image; a WRQ is refused with ERROR. Tie: skeleton regenerated from fs.py/path.py on every run and '
        'checked by vm_compute; in-process BootHandler and a real BootServer over UDP on images incl. dirty-flagged volumes and zero-length files owning a '
        'cluster: SHA-256 before/after, reaper alive, WRQ refused.',
   note=FAT_NOTE + 'The skeleton abstracts control flow (superset of executions) and resolves calls by method name; OS enforcement of the read-only mapping is runtime residue. '
        'Found and fixed: close() released clusters in read mode (TypeError killing the reaper).',
   design='§7 C06'),
 'C10': dict(
   technique='Coq proofs about the allocator scan and all-or-nothing growth (in data area, no duplicates, complete; ENOSPC iff genuinely short) + fault enumeration over free-cluster counts',
   text='Theorems: every cluster the scan yields is free and inside the data area; one scan never yields a cluster twice (FAT32 hint wrap included) and finds '
        'every free cluster; growing truncate fails exactly when too few clusters are free, with ENOSPC and the state unchanged; a write that runs out leaves '
        'the file well-formed holding a strict prefix of the buffer (byte level); a fixed root directory gives ENOSPC exactly when the records plus the end record do not fit even after compaction, and then lists and resolves as before; compaction preserves listing and look-ups. Tie: models vs real FatFile/FatTable/FatRoot on random sequences; fault enumeration: every allocating operation x every '
        'free-cluster / free-root-slot count from 0 to need, FAT12/16/32, with/without FSInfo, FATs larger than the data area: outcome ok or ENOSPC only, '
        'extracted structural check clean, bystanders intact, prefix / all-or-nothing, usable again after freeing.',
   note=FAT_NOTE + 'Sub-directory growth through FatFile.write is oracle-level. Observation: cluster 2 is never allocated on FAT12/16; a full root directory needs one spare slot for the terminator. '
        'Found and fixed: allocation beyond the data area, duplicate clusters from Fat32Table.free, mkdir leaking its cluster when the entry cannot be stored.',
   design='§7 C10'),
 'C11': dict(
   technique='Coq proofs over a model of _get_names/_get_unique_sfn/_prefix_entries incl. round trip through the independent spec decoder + differential check + on-disk oracle',
   text='Theorems: valid names = the VFAT rule; invalid / over-long names give ValueError with nothing produced, and so do "." and ".." (references, never names: the guard of the FatPath mutators is a fact regenerated from path.py; found, fixed); the records written decode (by the independent '
        'specification reader, through surrogate joining) to exactly the name; ordinals, terminator, 0xFFFF padding, checksum, <= 20 records; pure 8.3 names '
        '(optionally lower base/extension) need no long records; alias bytes legal; alias differs from every existing alias and long name; numeric tail is the '
        'least free one; after creating a new name every case variant resolves to the new entry, every key that resolved before still resolves to the same entry and the listing grows by exactly that name. Tie: model vs real FatDirectory on thousands of names x pre-seeded '
        'directories; on-disk oracle with the extracted reader and a raw decoder (listing, case variants, alias lookup, no shadowing, structural check).',
   note=FAT_NOTE + 'Unicode upper-casing and re.IGNORECASE folding are CPython\'s (explicit model inputs, validated over all code points). '
        'Found and fixed: unanchored tail patterns produced duplicate aliases; lfn_valid accepted a trailing newline; case flags decided with ASCII-only lower-casing (\'\u00c0b.txt\' listed as \'\u00e0b.txt\').',
   design='§7 C11'),
 'C12': dict(
   technique='Coq proof of a build/parse round trip (induction over EBR chains and GPT entry arrays, generic struct lemmas) over an AST-regenerated model + extracted-generator differential check',
   text='Ten theorems over an executable model of DiskImage.partitions / DiskPartitionsGPT / DiskPartitionsMBR for all well-formed layouts (any EBR-chain length, any GPT entry '
        'count and size 128*2^k, any sector size 512k): parse(build layout) lists exactly the defined numbers with exact windows, types and labels, KeyError otherwise; protective '
        'MBR defers to GPT; bad signature / revision / header size / CRC / boot signature give ValueError. Tie: struct tables, constants and arithmetic regenerated from '
        'disk.py/mbr.py/gpt.py; images from the extracted build, every single-field header corruption, truncations, CRC-32 vs binascii.',
   note='Trusted: Coq kernel (vm_compute on closed terms), gen_disk.py, extraction + driver, CPython struct/mmap/uuid. Detection of a corrupted CRC-covered field is _partial (assumes CRC separation). '
        'Found and fixed: phantom partition from an empty first EBR slot; KeyError for a lone partition not in slot 1.',
   design='§7 C12'),
 'C13': dict(
   technique='Coq inductive-invariant proof (ghost accounting per program point + wait-for argument) over an executable interleaving model + deterministic-scheduler differential check on real threads',
   text='Eight unbounded theorems over a small-step model of locks.py at primitive-lock granularity (any number of threads, any well-nested programs, blocking / non-blocking / timed): '
        'mutual exclusion with shared readers, counter consistency, failed attempts are no-ops, quiescent implies free, no assertion/RuntimeError, deadlock freedom, decreasing progress measure. '
        'Tie: digests and decision constants of every method regenerated from the source; real RWLock under a scheduler shim vs the extracted model on random programs and schedules, property evaluated on the runs.',
   note='Trusted: Coq kernel, gen_locks.py, extraction + driver, the scheduling shim; threading.Lock and OS fairness are assumed (termination = no_deadlock + measure + fairness). '
        'Found and fixed: deadlock of the downgrade path (model schedule replayed on the real class).',
   design='§7 C13'),
 'C14': dict(
   technique='Coq soundness proof of a lock/mutation skeleton check + vm_compute of the check on the skeleton regenerated from the AST + line-level runtime tracing',
   text='Theorems: for every public function of fs.py/path.py and EVERY execution of its body (statements in any order, repeated, interrupted anywhere by return or exception, calls to '
        'any depth) each store into the image happens while the thread holds the write side, and at the end the thread holds neither side; the composite operations (unlink, rename, mkdir, rmdir, touch, write_bytes/text, read_bytes/text, iterdir/glob/rglob, FatFile.write/truncate/readall) are ONE outermost lock section (all lock events and stores inside a single with-block); plus the generic soundness theorems of both checks. '
        'Tie: the skeleton (with-lock nesting, store sites, call sites) is regenerated from the source on every run (fail closed on bare acquire/release); runtime: RWLock wrapped by a recorder, '
        'image diffed at every executed line over seeded histories incl. reads, listings, exhausted / closed / dropped generators, atime reads; 2-4 real threads on one volume vs serial result. The lock itself: exclusion, no-deadlock and source-match theorems of C13 restated here (Locks/Export.v) and a reduced lock exploration in the check; probes for readers interleaved on multi-cluster directories and for two volumes with independent locks.',
   note=FAT_NOTE + 'The skeleton is an over-approximation resolved by method name (trusted translator; it refuses lock sections inside loops for the single-section theorem); serial equivalence then follows from the exclusion theorems of C13, informally composed; real pre-emption is observed only by the thread tier (PARTIAL). Found and fixed: FatFile.write padded past EOF in a separate exclusive section.',
   design='§7 C14'),
 'C15': dict(
   technique='Coq proof of the dirty-bracket discipline over the regenerated skeleton + Coq proof that bystanders are intact at EVERY prefix of the stores of every path operation (micro-step decomposition of the record-level volume model) + every intermediate image of the implementation checked by the extracted Coq structural reader',
   text='Theorems: every store made by an API operation lies inside a mark_dirty bracket (flag set before, restored after, also on exceptions) except the access-time update and the '
        'stores of the flag itself; appending a directory entry stores its records from the highest index down, so at every crash point the records before the old end and the decoded bystander entries are unchanged; every path operation (unlink, rmdir, mkdir, rename, file operations incl. truncate / write / close, directory growth and compaction) is decomposed into its elementary stores in the order the code performs them (proved to compose to the operation of the volume model), and AT EVERY PREFIX every entry that is not a target of the operation is found by long name and by alias as the identical entry with the same chain, none of whose clusters was re-linked, freed or zeroed; what is in flux belongs to the target (free clusters, the target s chain, the receiving directory s last cluster); during in-place compaction every entry of that directory stays listed with alias, size and first cluster (possibly twice or under its 8.3 name only). Oracle on EVERY intermediate image (image diffed at each executed line, C04 histories incl. handle sessions, C10 out-of-space cases, creation in a full root that is compacted in place, by every creating mode): inconsistent => dirty flag set (FAT16/32); '
        'flag restored and volume consistent at the end; every bystander file found with unchanged content at every crash point on all FAT types.',
   note=FAT_NOTE + 'PARTIAL: the bystander theorems are at record level (FAT values, decoded directory entries); cluster DATA is covered by the frame theorems of the byte-level layers and the link between record-level states and image bytes is the correspondence (traced intermediate images read back through the specification reader must be a sub-sequence of the model s micro-step states). Two known findings are recorded (known_findings.json): flag restored in the primary FAT copy first; '
        'open empty file keeps its cluster until close by design. Torn stores within one source line are treated as atomic.',
   design='§7 C15'),
 'C17': dict(
   technique='Coq proof (list induction, relational tokenisation spec, digit-string round trips) over an executable model + translator-regenerated facts + end-to-end oracle on synthesised disk images',
   text='Nineteen theorems over a model of prep.rewrite_cmdline (first line, str.split over the full CPython white-space set, root= filter, three prepended parameters), config.serial and '
        'Board.__str__ with a reader specification of the [board:HEX] section: the command line equals an independent relational tokenisation for all texts/hosts/shares/partitions; serial '
        'spellings incl. both prefixes; board text reads back to the same serial, path and partition. Tie: templates, constants, removal order regenerated from the AST; white-space set over all '
        'code points; rewrite_cmdline on real volumes; oracle over nobodd.prep.main on MBR/GPT x FAT12/16/32 images (removed, copied, untouched files, other partitions, size, emitted board). Also: detect_partitions (boot = the given or the FIRST partition holding a FAT file system, root = the first neither FAT nor FAT-typed one, the early break harmless, a FAT-typed partition without a file system never chosen; loop regenerated; every report of up to 4 partitions compared with the real function) and the resize block (image grown to max(len, size) with zeros, never shrunk, content in place; config.size with fractions rounded down).',
   note='Trusted: Coq kernel, gen_prep.py, extraction + driver, CPython text layer / configparser / argparse. The file-tree part is oracle-level (rests on C04). The rewrite is proved NOT idempotent (not required). '
        'Found and fixed: nested directory removal order, missing sys import for "-".',
   design='§7 C17'),
 'C18': dict(
   technique='Coq proof (fuel induction with a link-free-path invariant) over an executable path-resolution model + differential check on materialised trees + kernel-level oracle',
   text='Six theorems over a model of pathlib joining, CPython realpath (non-strict give-up on loops, strict mode), the kernel path walk and SimpleTFTPHandler.resolve_path + open + the error ladder, for all '
        'trees, bases and names: whatever is served is a regular file reached through directories only, strictly below base, with its exact bytes; names resolving inside are served; anything resolving outside '
        'is PermissionError => ERROR 2. Tie: AST-regenerated facts; random materialised trees with inside / outside / dangling / looping links and planted secrets, /proc/self/fd oracle, in-process do_RRQ, real UDP.',
   note='Trusted: Coq kernel, translator, extraction + driver, the model\'s specification of Path.resolve() (compared with the real one on every run); no races between resolve and open. '
        'Found and fixed: escape via symlink loop + outside link.',
   design='§7 C18'),
 'C19': dict(
   technique='Coq proof (fuel induction over an abstract short-reading reader) of copy_bytes exactness and termination + Coq proofs over a tree model of the shell commands (exactness, round trip, frame) + AST expression translation + differential check against the real tool + end-to-end shell oracle with shrinking',
   text='Theorems: for every content, position, range, reader (short reads allowed) and loop variant copy_bytes returns within |content|+2 iterations having written exactly content[start:min(stop,|content|)]; '
        'the single-read fast path yields a non-empty prefix on a short-reading raw source; step != 1 rejected. Tree half (Shell/Model.v: host and partition trees, names folded on partitions, every branch of do_cp/do_mv/do_rm/do_rmdir/do_mkdir/do_touch/do_cat incl. where a multi-source command stops): cp copies exactly the bytes / the merged tree, cp -r in then out returns the original tree, mv moves (same fs = rename, across = copy and remove), rm/rmdir remove exactly what was named, EVERY command whatever its outcome changes only paths at or below those it names, cat = concatenation; tied to sh.py by replaying seeded and adversarial command streams through the real nobodd.sh.main and the extracted model (status class, cat output, all three trees after every command). Shell commands (cp/-r, mv, rm/-r/-f, rmdir, mkdir/-p, touch, cat over host, img:N/ and img:/ paths, '
        'FAT12/16/32, two partitions, sizes around 64 KiB, ENOSPC) are checked end to end by an oracle: expected in-memory trees vs fresh read-back after every command, exit status, extracted Coq structural check (sampled). Also: a scanner for sh._image_re (which words name something inside an image) with soundness / completeness / host-word theorems, compared exhaustively with the real regular expression; and C19_any_command_keeps_the_volume_consistent: sh.py uses the public path API only (regenerated fact), and any history of path operations, whatever each outcome, keeps the volume invariant (FV_history_inv); a failing mv whose target cannot be created is part of the image-level oracle. The pure path algebra of FatPath (get_parts, str, name, parent, joinpath, with_name, relative_to) is modelled with canonical-form, stability, printing, child and relative_to theorems and compared with the real class.',
   note='Proof level for byte copying and for the command semantics over trees; that the IMAGE is structurally consistent after a failing command is oracle-level (the tree model has no clusters), and 8.3 aliases, ENOSPC, timestamps and symlinks are not in the tree model (PARTIAL there). Assumes full reads unless at EOF for the fast path (true for buffered readers). '
        'Found and fixed: divergence past end of source, two FatFileSystem instances per partition (mv lost the file), cp onto itself.',
   design='§7 C19'),
})

NOT_YET = {}

def main():
    props = [json.loads(l) for l in open(os.path.join(VERIF, 'properties.jsonl'))]
    checks, na = [], []
    for p in props:
        pid = p['id']
        if pid in CLAIMED:
            c = CLAIMED[pid]
            checks.append({
                'property_id': pid,
                'quick_cmd': f'./check {pid} --tier quick',
                'thorough_cmd': f'./check {pid} --tier thorough',
                'evidence_file': f'/verif/evidence/{pid}.json',
                'replay_cmd_template': f'./check {pid} --replay {{path}}',
                'engine': 'coq+runner+harness',
                'level_claimed': {'category': 'proof', 'text': c['text'], 'design_ref': c['design']},
                'level_note': c['note'],
                'technique': c['technique'],
            })
        else:
            na.append({'property_id': pid, 'reason': NOT_YET.get(pid, 'check not built yet in this session (planned, see DESIGN.md §9); not claimed until its theorems and correspondence exist')})
    m = {
        'version': 1,
        'setup_cmd': './setup.sh',
        'hooks': {'guard': 'NOBODD_VERIF', 'enable': 'no source hooks were needed: checks monkey-patch module globals from the harness (NOBODD_VERIF=1 is exported but unused by /repo)',
                  'baseline_off_cmd': 'cd /repo && /venv/bin/python -m pytest -ra -q -p no:cacheprovider --timeout=900 --continue-on-collection-errors',
                  'source_commits': [], 'add_only': True},
        'engines': [{'name': 'coq+runner+harness', 'path': '/verif',
                     'serves_properties': [c['property_id'] for c in checks],
                     'kind_free_text': 'Coq 8.16.1 development (coq/), translator-regenerated Gen/ layer, models extracted to OCaml runners (runner/), Python differential harness (harness/)'}],
        'checks': checks,
        'not_applicable': na,
        'notes': 'Every check: regenerate coq/Gen from /repo, rebuild the property cone (full .vo), run correspondence + oracle pass; see DESIGN.md.',
    }
    with open(os.path.join(VERIF, 'MANIFEST.json'), 'w') as f:
        json.dump(m, f, indent=1)

if __name__ == '__main__':
    main()
