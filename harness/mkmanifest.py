#!/usr/bin/env python3
"""Writes /verif/MANIFEST.json from the table below (kept in one place so that it stays valid)."""
import json, os
VERIF = os.path.dirname(os.path.dirname(os.path.abspath(__file__)))

CLAIMED = {
 'C16': dict(
   technique='Coq proof (list induction) over an executable netascii/transcoder model + exhaustive differential correspondence',
   text='Twelve Coq theorems over a hand-written executable model of netascii.encode/decode, the incremental and '
        'stream interfaces and BufferedTranscoder (unbounded: all strings, all chunkings, all read-size sequences); '
        'the model is tied to the code by an exhaustive differential check (all strings over {CR,LF,NUL,a,non-ASCII} '
        'to length 5/7, all chunkings, 4 error modes) against the extracted model, by translator-regenerated facts '
        '(import graph, codec wiring, transcoder constants) and by a fresh-interpreter real-UDP netascii transfer.',
   note='Trusted: Coq kernel, translator, ExtrOcamlBasic extraction + driver, CPython codecs base classes; '
        'all theorems closed under the global context. StreamReader end-of-stream CR is outside the statement.',
   design='§7 C16'),
}
NOT_YET = {}

def main():
    props = [json.loads(l) for l in open(os.path.join(VERIF, 'properties.jsonl'))]
    checks, na = [], []
    for p in props:
        pid = p['id']
        if pid in CLAIMED:
            c = CLAIMED[pid]
            checks.append({
                'property_id': pid,
                'quick_cmd': f'./check {pid} --tier quick',
                'thorough_cmd': f'./check {pid} --tier thorough',
                'evidence_file': f'/verif/evidence/{pid}.json',
                'replay_cmd_template': f'./check {pid} --replay {{path}}',
                'engine': 'coq+runner+harness',
                'level_claimed': {'category': 'proof', 'text': c['text'], 'design_ref': c['design']},
                'level_note': c['note'],
                'technique': c['technique'],
            })
        else:
            na.append({'property_id': pid, 'reason': NOT_YET.get(pid, 'check not built yet in this session (planned, see DESIGN.md §9); not claimed until its theorems and correspondence exist')})
    m = {
        'version': 1,
        'setup_cmd': './setup.sh',
        'hooks': {'guard': 'NOBODD_VERIF', 'enable': 'no source hooks: checks monkey-patch module globals from the harness (NOBODD_VERIF=1 is exported but unused by /repo)',
                  'baseline_off_cmd': 'cd /repo && /venv/bin/python -m pytest -ra -q -p no:cacheprovider --timeout=900 --continue-on-collection-errors',
                  'source_commits': [], 'add_only': True},
        'engines': [{'name': 'coq+runner+harness', 'path': '/verif',
                     'serves_properties': [c['property_id'] for c in checks],
                     'kind_free_text': 'Coq 8.16.1 development (coq/), translator-regenerated Gen/ layer, models extracted to OCaml runners (runner/), Python differential harness (harness/)'}],
        'checks': checks,
        'not_applicable': na,
        'notes': 'Every check: regenerate coq/Gen from /repo, rebuild the property cone (full .vo), run correspondence + oracle pass; see DESIGN.md.',
    }
    with open(os.path.join(VERIF, 'MANIFEST.json'), 'w') as f:
        json.dump(m, f, indent=1)

if __name__ == '__main__':
    main()
