#!/usr/bin/env python3
"""Writes /verif/MANIFEST.json from the table below (kept in one place so that it stays valid)."""
import json, os
VERIF = os.path.dirname(os.path.dirname(os.path.abspath(__file__)))

CLAIMED = {
 'C16': dict(
   technique='Coq proof (list induction) over an executable netascii/transcoder model + exhaustive differential correspondence',
   text='Twelve Coq theorems over a hand-written executable model of netascii.encode/decode, the incremental and '
        'stream interfaces and BufferedTranscoder (unbounded: all strings, all chunkings, all read-size sequences); '
        'the model is tied to the code by an exhaustive differential check (all strings over {CR,LF,NUL,a,non-ASCII} '
        'to length 5/7, all chunkings, 4 error modes) against the extracted model, by translator-regenerated facts '
        '(import graph, codec wiring, transcoder constants) and by a fresh-interpreter real-UDP netascii transfer.',
   note='Trusted: Coq kernel, translator, ExtrOcamlBasic extraction + driver, CPython codecs base classes; '
        'all theorems closed under the global context. StreamReader end-of-stream CR is outside the statement.',
   design='§7 C16'),
}
COMMON_NOTE = ('Trusted: Coq 8.16.1 kernel (no native_compute), translator gen_tftp.py (constants, decision expressions, canonical '
               'hashes of hand-modelled methods), ExtrOcamlBasic extraction + runner/driver.ml, harness fake sockets / virtual clock, CPython. '
               'All property theorems closed under the global context. ')
CLAIMED.update({
 'C20': dict(
   technique='Coq proof of parse(serialize p)=p, case folding and wire format over an executable packet model + differential correspondence',
   text='Six theorems over a hand-written model of all six packet classes (serialiser, parser with the two regexes as explicit scanners, '
        'UTF-8 / ASCII decoding, dict semantics): round trip for every packet value in normal form, case folding for any letter case, wire '
        'format; tied to tftp.py by regenerated constants/regex text and by differential testing of Packet.from_bytes / bytes(packet) '
        'on thousands of structured and hostile datagrams, plus an independent wire decoder.',
   note=COMMON_NOTE + 'Second direction (parse d = p => parse(serialize p) = p for arbitrary datagrams) is checked by correspondence/oracle only.',
   design='§7 C20'),
 'C01': dict(
   technique='Coq inductive invariant over all schedules (data_sound) + RFC client refinement + differential correspondence under an adversarial network',
   text='Theorems: for every file, block size >= 1 and EVERY event list (datagrams from any endpoint, ticks) every DATA k ever emitted carries '
        'bytes [(k-1)B,kB) with 1<=k<=65535; only the last block is short; an RFC 1350 client fed any selection/reordering/duplication of '
        'such packets plus arbitrary foreign ones reconstructs exactly the file; a file needing more than 65535 blocks is never reported '
        'complete and ACK 65535 is answered by ERROR. Model tied to tftpd.py by regenerated comparisons and by replaying seeded adversarial '
        'sessions (incl. the 65535-block boundary) on the real handler classes and the extracted model, comparing every datagram and state.',
   note=COMMON_NOTE + 'Not proved: liveness under loss (server gives up, C09). Modelled not verified: UDP, socketserver, buffered read returning full blocks.',
   design='§7 C01'),
 'C05': dict(
   technique='Coq case analysis over the handler ladders (total functions) + differential fuzzing of the real handlers',
   text='Theorems: every reply on a transfer port (any state, datagram, source) and every retransmission is a DATA with legal block or an ERROR '
        'with known code and ASCII text (serialisable); whatever the listening port sends is an ERROR; non-RRQ datagrams start nothing; WRQ '
        'refused; foreign endpoints change nothing; malformed datagrams change only the clocks. Tie: canonical hashes of the modelled ladders, '
        'thousands of hostile datagrams into the real handlers vs the extracted model, independent reply grammar, control transfer afterwards.',
   note=COMMON_NOTE + 'Totality in the model is Gallina termination; real thread liveness and socketserver.handle_error are runtime residue.',
   design='§7 C05'),
 'C07': dict(
   technique='Coq frame/projection theorems over the transfer registry + in-process interleavings + real threaded UDP tier',
   text='Theorems (bookkeeping logic, any number of transfers, every interleaving): events for transfer a leave b untouched; the projection of a '
        'global run on a equals a solo run, so C01 applies to each; accepting a request never alters a running transfer. Tie: 2-6 real '
        'in-process transfers under seeded interleavings vs the extracted model; runtime tier with real threads and loopback UDP '
        '(stalling / vanishing / erroring clients, latency of a fresh request).',
   note=COMMON_NOTE + 'PARTIAL by nature: pre-emptive interleaving inside handlers, the GIL, lock contention and OS ports are not modelled; only observed by the real-UDP tier.',
   design='§7 C07'),
 'C08': dict(
   technique='Coq proof over a staged model of negotiate (names, values, ranges) + exhaustive subsets/orders differential check',
   text='Theorems: acknowledged names are an order-preserving selection of the supported names sent; negotiate changes only block size and '
        'timeout; blksize = min(65464, requested) >= 8 and is acknowledged as used; timeout within [10ms,255s]; tsize exact; no surviving option '
        '=> DATA 1 with 512-byte blocks; failures refuse. Tie: every subset and order of the four options, listed boundary values, random '
        'mixtures, both modes, through the real handlers vs the extracted model and vs an independent statement-level oracle incl. '
        'retransmission timing on a virtual clock.',
   note=COMMON_NOTE + 'float(str) is not modelled: the model takes int(float(v)*1e9) as an input and the theorems quantify over it.',
   design='§7 C08'),
 'C09': dict(
   technique='Coq proof over the timeout state machine and registry + virtual-clock differential check + real-server resource accounting',
   text='Theorems: after more than six timeouts of silence the next tick marks the transfer done (any timeout, any silence point); nothing is '
        're-sent before one timeout has passed since the last send and last datagram, and the unacknowledged block is re-sent at the first tick '
        'after; client ERROR / completion / server error end the transfer; the reaper removes exactly finished transfers; closing empties the '
        'registry; refusals register nothing. Tie: silence/ERROR/garbage scenarios on a virtual clock vs the extracted model; real threaded '
        'server: threads, descriptors and registry back to baseline after completed, abandoned, errored and refused requests and after close.',
   note=COMMON_NOTE + 'PARTIAL: real thread join, socket close and finalisation of refused requests are runtime residue observed by the real-UDP tier.',
   design='§7 C09'),
})
NOT_YET = {}

def main():
    props = [json.loads(l) for l in open(os.path.join(VERIF, 'properties.jsonl'))]
    checks, na = [], []
    for p in props:
        pid = p['id']
        if pid in CLAIMED:
            c = CLAIMED[pid]
            checks.append({
                'property_id': pid,
                'quick_cmd': f'./check {pid} --tier quick',
                'thorough_cmd': f'./check {pid} --tier thorough',
                'evidence_file': f'/verif/evidence/{pid}.json',
                'replay_cmd_template': f'./check {pid} --replay {{path}}',
                'engine': 'coq+runner+harness',
                'level_claimed': {'category': 'proof', 'text': c['text'], 'design_ref': c['design']},
                'level_note': c['note'],
                'technique': c['technique'],
            })
        else:
            na.append({'property_id': pid, 'reason': NOT_YET.get(pid, 'check not built yet in this session (planned, see DESIGN.md §9); not claimed until its theorems and correspondence exist')})
    m = {
        'version': 1,
        'setup_cmd': './setup.sh',
        'hooks': {'guard': 'NOBODD_VERIF', 'enable': 'no source hooks: checks monkey-patch module globals from the harness (NOBODD_VERIF=1 is exported but unused by /repo)',
                  'baseline_off_cmd': 'cd /repo && /venv/bin/python -m pytest -ra -q -p no:cacheprovider --timeout=900 --continue-on-collection-errors',
                  'source_commits': [], 'add_only': True},
        'engines': [{'name': 'coq+runner+harness', 'path': '/verif',
                     'serves_properties': [c['property_id'] for c in checks],
                     'kind_free_text': 'Coq 8.16.1 development (coq/), translator-regenerated Gen/ layer, models extracted to OCaml runners (runner/), Python differential harness (harness/)'}],
        'checks': checks,
        'not_applicable': na,
        'notes': 'Every check: regenerate coq/Gen from /repo, rebuild the property cone (full .vo), run correspondence + oracle pass; see DESIGN.md.',
    }
    with open(os.path.join(VERIF, 'MANIFEST.json'), 'w') as f:
        json.dump(m, f, indent=1)

if __name__ == '__main__':
    main()
