"""Gen/Boot.v: how nobodd/server.py maps a request to an image, and the read-only defaults."""
import ast, hashlib
from translate import *

NAME = 'Boot'


def emit():
    srv = parse('server.py')
    disk = parse('disk.py')
    L = [HEADER.format(src='server.py, disk.py, config.py')]
    L.append('Open Scope N_scope.')
    # DiskImage default access
    init = find_func(find_class(disk, 'DiskImage').body, '__init__')
    d = {a.arg: ast.unparse(v) for a, v in zip(init.args.args[-len(init.args.defaults):], init.args.defaults)}
    L.append(f'Definition diskimage_default_access_read : bool := {coq_bool(d.get("access") == "mmap.ACCESS_READ")}.')
    body = ast.unparse(init)
    rb = "'r+b' if access == mmap.ACCESS_WRITE else 'rb'" in body
    L.append(f'Definition diskimage_opens_rb_unless_write : bool := {coq_bool(rb)}.')
    L.append(f'Definition diskimage_maps_with_access : bool := {coq_bool("mmap.mmap(self._file.fileno(), 0, access=access)" in body)}.')
    rp = find_func(find_class(srv, 'BootHandler').body, 'resolve_path')
    stmts = [n for n in rp.body if not (isinstance(n, ast.Expr) and isinstance(n.value, ast.Constant))]
    src = [ast.unparse(n) for n in stmts]
    calls = [c for c in ast.walk(rp) if isinstance(c, ast.Call)]
    di = [c for c in calls if ast.unparse(c.func) == 'DiskImage']
    ff = [c for c in calls if ast.unparse(c.func) == 'FatFileSystem']
    ok = (len(di) == 1 and len(ff) == 1 and ast.unparse(di[0]) == 'DiskImage(board.image)'
          and ast.unparse(ff[0]) == 'FatFileSystem(image.partitions[board.partition].data)')
    L.append(f'Definition boot_maps_image_with_defaults : bool := {coq_bool(ok)}.')
    # the shape of resolve_path, statement by statement
    want = {
        'parts': 'p = Path(filename)',
        'empty': "if not p.parts:\n    raise FileNotFoundError()",
        'serial': "try:\n    serial = int(p.parts[0], base=16)\n    board = self.server.boards[serial]\nexcept (ValueError, KeyError):\n    raise FileNotFoundError(filename)",
        'rest': "boot_filename = Path('').joinpath(*p.parts[1:])",
        'result': 'return fs.root / boot_filename',
    }
    for k, w in want.items():
        L.append(f'Definition boot_stmt_{k} : bool := {coq_bool(w in src)}.')
    ipchk = [s for s in src if s.startswith('if board.ip is not None')]
    L.append('Definition boot_ip_check_hash : string := "%s"%%string.' % (hashlib.sha256(ipchk[0].encode()).hexdigest()[:16] if ipchk else 'missing'))
    cache = [s for s in src if s.startswith('try:\n    image, fs = self.server.images[serial]')]
    L.append('Definition boot_image_cache_hash : string := "%s"%%string.' % (hashlib.sha256(cache[0].encode()).hexdigest()[:16] if cache else 'missing'))
    L.append(f'Definition boot_statement_count : N := {coq_N(len(stmts))}.')
    return '\n'.join(L) + '\n'
