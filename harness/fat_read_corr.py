"""C03 (read path): nobodd.fs header/offset arithmetic and raw FatFile seek/read scripts
against the extracted Coq model coq/FatRead (runner area `FatRead`), and three-way
against the specification reader coq/Fat/Spec.v (runner area `Fat`).

run(ctx):
  (i)  headers: legal random geometries written by harness/fatimg.py, cluster counts on
       both sides of the 4085 / 65525 boundaries without a type string, and headers with
       every BPB/EBPB field driven to boundary / illegal values, truncated buffers.
       FatFileSystem(memoryview(img)) [type, table offsets+lengths, data offset+length,
       cluster count+size, root, info sector; or the exception class] vs the model's
       `geometry`; vs Spec.geometry inside the domain of theorem geometry_spec.
  (ii) read scripts: random seek / read(n) / readinto / readall sequences on real FatFile
       objects (buffering=0, also entry-less directory files and entries whose size
       exceeds the chain) vs the model's `reads_many` fed with the file's map, size and the
       data area; and vs the file content the writer put there (the property's statement).
"""
import ctypes, struct, warnings, hashlib
import lib, fatimg

SPEC_THEOREMS = {
    'FatRead.ProofsGeom.geometry_spec':
        'len img >= 90 and the 16/32-bit total in force (q_total_unused): geometry_model img and Fat.Spec.geometry img '
        'both fail with ValueError or both succeed with equal type, FAT offset/size/count, root offset/size, data '
        'offset, cluster size, data-cluster count, info offset, total, root cluster (FAT32)',
    'FatRead.ProofsGeom.geometry_short_spec': 'len img < 90: Spec.geometry rejects',
    'FatRead.ProofsGeom.geometry_short_model': 'the code accepts only from 62 bytes on, 90 when the FAT32 EBPB is used',
    'FatRead.ProofsGeom.open_model_ok': 'open_model img = OOk m <-> geometry_model img = Ok m, no table hazard, no probe hazard',
    'FatRead.ProofsGeom.open_model_exn': 'an exception of open_model that is not a hazard is the one of geometry_model',
    'FatRead.ProofsGeom.cluster_offset_spec':
        'FatClusters[c] over mem[data_offset:end_offset] = Spec.cluster_bytes g img c = image bytes '
        '[data_off+(c-2)*cs, +cs) for 2 <= c < count+2, IndexError otherwise; len(FatClusters) = g_count',
    'FatRead.ProofsRead.read_refines':
        'cs > 0, clusters of the map in range, cs*len(map) >= size: EVERY finite sequence of seek/read/readinto/readall '
        'gives, result by result, what ref_run gives on content = firstn size (concat clusters) with a plain position',
    'FatRead.ProofsRead.raw_read_spec':
        'a raw read returns content[pos:pos+m], m <= n, m = 0 iff n = 0 or pos >= size; position advances by m',
    'FatRead.ProofsRead.read_loop_refines': 'raw reads repeated until n bytes or b"" = content[pos:pos+n]',
    'FatRead.ProofsRead.readall_ok': 'readall = content[pos:], position max(pos, size)',
    'FatRead.ProofsRead.run_preserves_file': 'no operation changes map or size, well-formed or not '
                                             '(read_no_write itself holds by typing: no data area in any result type)',
    'FatRead.ProofsTime.timestamp_spec': 'decode_timestamp fields = bit slices date[15:9]+1980, date[8:5], date[4:0], '
                                         'time[15:11], time[10:5], 2*time[4:0] + cs*10//1000, (cs*10%1000)*1000',
    'FatRead.ProofsTime.get_cluster_spec': 'lo < 65536: get_cluster = lo + 65536*hi on FAT32, lo otherwise',
}
TRUSTED = [
    'coq/FatRead/Model.v is a faithful transcription of fs.fat_type, fat_type_from_count, FatFileSystem.__init__ '
    '(header block), FatClusters.__len__/__getitem__, FatFile.readinto/readall/seek, RawIOBase.read '
    '(checked by this correspondence run, not proved)',
    'struct.unpack_from little-endian decoding, memoryview slicing/cast, io.RawIOBase.read = one readinto',
    'io.BufferedReader (CPython) is not modelled: read_loop_refines states what it must do with the raw file',
    'extraction (ExtrOcamlBasic) + runner/driver.ml; harness/fatimg.py (independent formatter)',
]

EXN = {'error': 'StructError'}            # struct.error


def exn_name(e):
    n = type(e).__name__
    return EXN.get(n, n)


# ------------------------------------------------------------------ python side
def view_off(base_addr, view):
    if view is None or view.nbytes == 0:
        return None
    return ctypes.addressof(ctypes.c_char.from_buffer(view)) - base_addr


def py_open(img):
    """outcome of FatFileSystem(memoryview(img)): ('ok', dict) | ('err', class name)"""
    from nobodd.fs import FatFileSystem
    base = ctypes.addressof(ctypes.c_char.from_buffer(img)) if len(img) else 0
    with warnings.catch_warnings():
        warnings.simplefilter('ignore')
        try:
            fs = FatFileSystem(memoryview(img))
        except Exception as e:
            return ('err', exn_name(e))
        try:
            d = dict(bits={'fat12': 12, 'fat16': 16, 'fat32': 32}[fs.fat_type],
                     tables=[(view_off(base, t), t.nbytes) for t in fs.fat._tables],
                     count=len(fs.clusters), cs=fs.clusters.size,
                     data_len=fs.clusters._mem.nbytes, data_off=view_off(base, fs.clusters._mem))
            if fs.fat_type == 'fat32':
                d['root'] = ('cluster', fs._root)
                im = fs.fat._info_mem
                d['info'] = None if im is None else (view_off(base, im), im.nbytes)
            else:
                d['root'] = ('region', view_off(base, fs._root), fs._root.nbytes)
            return ('ok', d)
        finally:
            fs.close()


def clip(a, b, n):
    return max(0, min(b, n) - a)


def model_view(rep, n):
    """the observable attributes, derived from the model's reply for a buffer of n bytes"""
    (bits, has32, bps, cs, total, fat_off, fat_size, nfats, root_off, root_size, data_off, end_off,
     root_cluster, info, count, data_len, tlens) = rep
    d = dict(bits=bits, count=count, cs=cs, data_len=data_len, data_off=data_off if data_len else None,
             tables=[(fat_off + k * fat_size, l) for k, l in enumerate(tlens)])
    if bits == 32:
        d['root'] = ('cluster', root_cluster)
    else:
        rl = clip(root_off, root_off + root_size, n)
        d['root'] = ('region', root_off if rl else None, rl)
    return d, (info[0] if info else None, bps)


def q_total_inactive(img):
    """hypothesis of geometry_spec: the 8-byte total (file_system bytes read as '<Q' when both
    16- and 32-bit totals are 0 and the boot signature is 0x29) is not in force at either EBPB"""
    if len(img) < 90:
        return False
    t16, = struct.unpack_from('<H', img, 19)
    t32, = struct.unpack_from('<I', img, 32)
    if t16 or t32:
        return True
    return all(img[e + 2] != 0x29 or bytes(img[e + 18:e + 26]) == bytes(8) for e in (36, 64))


# ------------------------------------------------------------------ header cases
FIELDS = {'bps': ('<H', 11), 'spc': ('<B', 13), 'reserved': ('<H', 14), 'nfats': ('<B', 16), 'rootent': ('<H', 17),
          'tot16': ('<H', 19), 'spf16': ('<H', 22), 'tot32': ('<I', 32), 'spf32': ('<I', 36), 'root32': ('<I', 44),
          'info32': ('<H', 48), 'sig1': ('<B', 38), 'sig2': ('<B', 66)}
STRINGS = [b'FAT12   ', b'FAT16   ', b'FAT32   ', b'FAT     ', b'        ', b'fat16   ', b'FAT12\0\0\0', b'\0' * 8]
VALUES = {
    'bps': [0, 1, 16, 31, 32, 33, 48, 64, 128, 256, 512, 1024, 4096, 8192, 32768, 65535],
    'spc': [0, 1, 2, 3, 6, 64, 128, 129, 255],
    'reserved': [0, 1, 2, 32, 65535],
    'nfats': [0, 1, 2, 3, 255],
    'rootent': [0, 1, 2, 15, 16, 17, 31, 32, 512, 513, 65535],
    'tot16': [0, 1, 100, 65535], 'tot32': [0, 1, 100, 0x10000, 0xFFFFFFFF],
    'spf16': [0, 1, 2, 65535], 'spf32': [0, 1, 3, 0x10000],
    'root32': [0, 2, 5, 0x0FFFFFFF], 'info32': [0, 0xFFFF, 1, 2, 6, 0xFFFE],
    'sig1': [0, 0x28, 0x29, 0x2A, 0x80], 'sig2': [0, 0x28, 0x29, 0x2A, 0x80],
}


def setf(img, name, v):
    fmt, off = FIELDS[name]
    if off + struct.calcsize(fmt) <= len(img):
        struct.pack_into(fmt, img, off, v)


def sets(img, which, s):
    off = (36 if which == 1 else 64) + 18
    if off + 8 <= len(img):
        img[off:off + 8] = s


def base_geometries(rng):
    out = []
    for ft, n in (('fat12', 40), ('fat16', 60), ('fat32', 50), ('fat12', 9), ('fat32', 12)):
        bps = rng.choice([128, 512, 512, 1024])
        out.append(fatimg.Geometry(ft, n, spc=rng.choice([1, 2, 4]), bps=bps, nfats=rng.choice([1, 2]),
                                   root_entries=16 * max(1, bps // 512), fsinfo=(bps >= 512), info_sector=1,
                                   type_string=rng.random() < 0.6, total32=rng.random() < 0.4))
    return out


def legal_geometry(rng, big_ok):
    ft = rng.choice(['fat12', 'fat12', 'fat16', 'fat32'])
    bps = rng.choice([32, 64, 128, 256, 512, 512, 1024, 2048, 4096])
    spc = rng.choice([1, 1, 2, 4, 8, 16, 32, 64, 128])
    while bps * spc > 32768:
        spc //= 2
    ts = rng.random() < 0.55
    if ts:
        n = rng.randint(1, 60) if bps * spc > 4096 else rng.randint(1, 300)
    else:
        # type from the cluster count alone: the count must be in the type's own range
        bps, spc = rng.choice([32, 64, 128]), rng.choice([1, 1, 2])
        if ft == 'fat12':
            n = rng.choice([1, 50, 4000, 4083, 4084])
        elif ft == 'fat16':
            n = rng.choice([4085, 4086, 5000]) if not big_ok else rng.choice([4085, 4086, 30000, 65524])
        else:
            if not big_ok:
                ft, n = 'fat12', 4084
            else:
                n = rng.choice([65525, 65526, 70000])
                bps, spc = 32, 1
    per = max(1, bps // 32)
    # (the formatter puts 55 AA at byte 510: keep that inside the reserved area)
    res = (rng.choice([None, 1, 2, 7]) if ft != 'fat32' else rng.choice([None, 33, 64])) if bps >= 512 else \
        512 // bps + rng.choice([0, 1, 9])
    return fatimg.Geometry(ft, n, spc=spc, bps=bps, nfats=rng.choice([1, 2, 2, 3, 4]), reserved=res,
                           root_entries=per * rng.choice([1, 2, 3, 16]), extra_fat_entries=rng.choice([0, 0, 5, 200]),
                           fsinfo=(bps >= 512 and rng.random() < 0.7), info_sector=rng.choice([1, 2, 6]) if bps >= 512 else 1,
                           type_string=ts, total32=rng.random() < 0.3)


def header_cases(rng, thorough, widen):
    """yields (label, img bytearray, geometry or None when the header was tampered with)"""
    # A: legal volumes
    for i in range(260 * (2 if thorough or widen else 1)):
        g = legal_geometry(rng, big_ok=(i % 12 == 0))
        yield ('legal', fatimg.mkfat(g), g)
    # B: the two type boundaries, no type string
    for n, ft in ((4084, 'fat12'), (4085, 'fat16'), (65524, 'fat16'), (65525, 'fat32')):
        for bps, spc in ((32, 1), (64, 2)) + (((512, 1),) if n < 5000 else ()):
            if n > 60000 and bps != 32:
                continue
            g = fatimg.Geometry(ft, n, spc=spc, bps=bps, nfats=rng.choice([1, 2]), root_entries=max(1, bps // 32) * 2,
                                fsinfo=False, type_string=False, reserved=40)
            yield ('boundary', fatimg.mkfat(g), g)
    # C: one field at a time, all listed values, on several base volumes
    for g in base_geometries(rng):
        base = fatimg.mkfat(g)
        for name, vals in VALUES.items():
            for v in vals:
                img = bytearray(base)
                setf(img, name, v)
                yield ('field:' + name, img, None)
        for which in (1, 2):
            for s in STRINGS:
                for sig in (0x29, 0x28, 0):
                    img = bytearray(base)
                    sets(img, which, s)
                    setf(img, 'sig%d' % which, sig)
                    yield ('string', img, None)
        # total 0 in both fields: the 8-byte total in the file-system field
        for which in (1, 2):
            for sig in (0x29, 0x28):
                for q in (0, g.total, g.total + 7, 1, 2 ** 33):
                    img = bytearray(base)
                    setf(img, 'tot16', 0); setf(img, 'tot32', 0)
                    sets(img, which, struct.pack('<Q', q))
                    setf(img, 'sig%d' % which, sig)
                    if which == 2:
                        sets(img, 1, b'\0' * 8); setf(img, 'sig1', 0)
                    yield ('qtotal', img, None)
        # truncated buffers
        cuts = [0, 1, 35, 36, 61, 62, 63, 64, 89, 90, 91, 511, g.fat_off, g.fat_off + 1, g.fat_off + 2, g.fat_off + 3,
                g.fat_off + 4, g.fat_off + 7, g.fat_off + 8, g.fat_off + g.fat_sectors * g.bps + 1,
                g.fat_off + g.fat_sectors * g.bps + 2, g.root_off, g.root_off + 5, g.data_off - 1, g.data_off,
                g.data_off + g.cs - 1, g.data_off + g.cs, g.data_off + 3 * g.cs + 1, g.info_sector * g.bps + 100]
        for c in cuts:
            if 0 <= c <= len(base):
                yield ('truncated', bytearray(base[:c]), None)
        # D: several fields at once
        for _ in range(40 if not (thorough or widen) else 160):
            img = bytearray(base)
            for name in rng.sample(sorted(VALUES), rng.randint(2, 4)):
                setf(img, name, rng.choice(VALUES[name]))
            if rng.random() < 0.4:
                sets(img, rng.choice([1, 2]), rng.choice(STRINGS))
            if rng.random() < 0.2:
                img = img[:rng.choice([90, 512, g.fat_off + rng.randint(0, 9), g.data_off + rng.randint(0, 3 * g.cs)])]
            yield ('multi', img, None)


def formatter_view(g):
    d = dict(bits=g.bits, count=g.n_clusters, cs=g.cs, data_len=g.n_clusters * g.cs,
             data_off=g.data_off if g.n_clusters else None,
             tables=[(g.fat_off + k * g.fat_sectors * g.bps, g.fat_sectors * g.bps) for k in range(g.nfats)])
    d['root'] = ('cluster', 2) if g.bits == 32 else ('region', g.root_off, g.root_entries * 32)
    return d


def diff(a, b):
    return [k for k in a if k in b and a[k] != b[k]]


SPEC_MAX = 400_000          # larger images are not sent to the specification runner (it needs the whole buffer)


def run_headers(ctx):
    rng = ctx.rng
    RM, RS = ctx.runner('FatRead'), ctx.runner('Fat')
    cases = list(header_cases(rng, ctx.thorough, getattr(ctx, 'widen', False)))
    pys = [py_open(img) for _, img, _ in cases]
    mods = RM.batch('geometry', [[bytes(img[:128]), len(img)] for _, img, _ in cases])
    small = [i for i, (_, img, _) in enumerate(cases) if len(img) <= SPEC_MAX]
    specs = dict(zip(small, RS.batch('geometry', [bytes(cases[i][1]) for i in small], chunk=8)))
    known = {}
    for i, ((label, img, g), py, mod) in enumerate(zip(cases, pys, mods)):
        n = len(img)
        replay = dict(kind='header', label=label, header=bytes(img[:128]), length=n,
                      image=bytes(img) if n <= 20000 else None)
        ctx.case(hashlib.sha1(bytes(img[:128]) + n.to_bytes(8, 'little')).digest(), True, 'hdr:' + label.split(':')[0])
        # --- code vs model
        agree = True
        if mod[0] == 0:
            mv, (minfo, mbps) = model_view(mod[1], n)
            if py[0] != 'ok':
                agree = False
                ctx.violation('fs.geometry/model-mismatch', f'[{label}] FatFileSystem raised {py[1]}, the model opens the volume as FAT{mv["bits"]}', replay)
            else:
                bad = diff(mv, py[1])
                if py[1].get('info') is not None and (minfo is None or py[1]['info'] != (minfo, clip(minfo, minfo + mbps, n))):
                    bad.append('info')
                if bad:
                    agree = False
                    ctx.violation('fs.geometry/model-mismatch',
                                  f'[{label}] FatFileSystem and the model differ in {bad}: code ' +
                                  f'{ {k: py[1][k] for k in bad if k in py[1]} } model { {k: mv.get(k) for k in bad} }', replay)
        else:
            name = mod[1].decode()
            if py != ('err', name):
                agree = False
                ctx.violation('fs.geometry/model-mismatch', f'[{label}] model: {name}; FatFileSystem: {py[1] if py[0] == "err" else "opens as FAT%d" % py[1]["bits"]}', replay)
        ctx.stat('hdr-outcome:' + (('FAT%d' % mod[1][0]) if mod[0] == 0 else mod[1].decode()))
        # --- the formatter's own intention for untouched volumes (oracle)
        if g is not None:
            fv = formatter_view(g)
            if py[0] != 'ok':
                ctx.violation('fs.geometry/legal-volume-rejected', f'legal {g.fat_type} volume (bps {g.bps}, spc {g.spc}, {g.n_clusters} clusters, type string {g.type_string}) raised {py[1]}', replay)
            else:
                bad = diff(fv, py[1])
                if bad:
                    sig = 'fs.fat_type' if 'bits' in bad else 'fs.geometry/differs-from-formatter'
                    ctx.violation(sig, f'{g.fat_type} volume with {g.n_clusters} clusters (type string {g.type_string}): code has '
                                       f'{ {k: py[1][k] for k in bad} }, formatted as { {k: fv[k] for k in bad} }', replay)
        # --- specification reader vs code, inside the domain of theorem geometry_spec
        if i not in specs:
            ctx.stat('spec:not-sent(big)')
            continue
        sp = specs[i]
        hazard = mod[0] == 1 and mod[1].decode() not in ('ValueError',)
        if n < 90 or not q_total_inactive(img) or hazard:
            why = 'short-buffer' if n < 90 else 'hazard:' + mod[1].decode() if hazard else 'q-total'
            same = (sp[0] == 1) == (py[0] == 'err')
            key = f'spec-outside-domain:{why}:' + ('same-verdict' if same else
                                                   'spec-accepts' if sp[0] == 0 else 'spec-rejects')
            ctx.stat(key)
            if not same and key not in known:
                known[key] = dict(header=bytes(img[:96]).hex(), length=n, code=py[1] if py[0] == 'err' else 'opens', spec='Ok' if sp[0] == 0 else sp[1].decode())
            continue
        if not agree:
            continue
        if sp[0] == 1:
            if py[0] == 'ok':
                ctx.violation('spec/geometry-differs-from-code', f'[{label}] Spec.geometry rejects ({sp[1].decode()}), code and model open it as FAT{py[1]["bits"]}', replay)
            continue
        if py[0] != 'ok':
            ctx.violation('spec/geometry-differs-from-code', f'[{label}] Spec.geometry accepts, code and model raise {py[1]}', replay)
            continue
        (sbits, _, _, scs, sfat_off, sfat_size, snf, sroot_off, sroot_size, sroot_cl, sdata_off, scount, sinfo, _) = sp[1]
        m = mod[1]
        pairs = dict(bits=(sbits, m[0]), cs=(scs, m[3]), fat_off=(sfat_off, m[5]), fat_size=(sfat_size, m[6]), nfats=(snf, m[7]),
                     root_off=(sroot_off, m[8]), root_size=(sroot_size, m[9]), data_off=(sdata_off, m[10]), count=(scount, m[14]),
                     info=(list(sinfo), list(m[13])))
        if sbits == 32:
            pairs['root_cluster'] = (sroot_cl, m[12])
        bad = {k: v for k, v in pairs.items() if v[0] != v[1]}
        if bad:
            ctx.violation('spec/geometry-differs-from-code', f'[{label}] (spec, code) differ: {bad}', replay)
    ctx.extra.setdefault('spec_outside_domain_examples', {}).update(known)


# ------------------------------------------------------------------ read scripts
def rand_ops(rng, cs, size):
    ops = []
    marks = sorted({0, 1, cs - 1, cs, cs + 1, 2 * cs, max(0, size - 1), size, size + 1, size + cs, size // 2})
    lens = [0, 1, 2, cs - 1, cs, cs + 1, 2 * cs + 3, size, size + 9, 7]
    for _ in range(rng.randint(6, 16)):
        k = rng.random()
        if k < 0.22:
            ops.append((0, rng.choice(marks + [rng.randint(0, size + cs)]), 0))
        elif k < 0.32:
            ops.append((0, rng.randint(-size - 3, cs + 3), 1))
        elif k < 0.42:
            ops.append((0, rng.randint(-size - 3, 5), 2))
        elif k < 0.45:
            ops.append((0, rng.randint(-3, 9), rng.choice([3, 4, 7])))
        elif k < 0.75:
            n = rng.choice(lens + [rng.randint(0, 3 * cs)])
            ops.append((1, -1 if rng.random() < 0.08 else n))
        elif k < 0.92:
            ops.append((2, rng.choice(lens + [rng.randint(0, 3 * cs)])))
        else:
            ops.append((3,))
    return ops


def py_script(f, ops):
    out = []
    for o in ops:
        try:
            if o[0] == 0:
                out.append([0, f.seek(o[1], o[2])])
            elif o[0] == 1:
                out.append([1, f.read(o[1])])
            elif o[0] == 2:
                b = bytearray(o[1])
                k = f.readinto(b)
                out.append([1, bytes(b[:k])])
            else:
                out.append([1, f.readall()])
        except Exception as e:
            if isinstance(e, lib.Hang):
                raise
            out.append([2, type(e).__name__])
    return out


def oracle_script(content, cs, ops, res):
    """the property itself: results of the script = the same script on `content` with a plain position
    (a raw read may be short, but not empty unless n = 0 or at/after the end)"""
    pos, size = 0, len(content)
    for o, r in zip(ops, res):
        if o[0] == 0:
            new = {0: o[1], 1: pos + o[1], 2: size + o[1]}.get(o[2])
            if new is None:
                ok = r == [2, 'ValueError']
            elif new < 0:
                ok = r == [2, 'OSError']
            else:
                ok, pos = r == [0, new], new
        elif o[0] == 3 or (o[0] == 1 and o[1] < 0):
            ok, pos = r == [1, content[pos:]], max(pos, size)
        else:
            n = o[1]
            ok = r[0] == 1 and len(r[1]) <= n and r[1] == content[pos:pos + len(r[1])] and \
                (len(r[1]) > 0 or n == 0 or pos >= size)
            if ok:
                pos += len(r[1])
        if not ok:
            return f'op {o} at position {pos} of a {size}-byte file returned {str(r)[:60]}'
    return None


def wire_ops(ops):
    return [[o[0], lib.Zint(o[1]), o[2]] if o[0] == 0 else [1, lib.Zint(o[1])] if o[0] == 1 else list(o) for o in ops]


def norm_model(rs):
    return [[r[0], r[1].decode() if r[0] == 2 else r[1]] for r in rs]


def run_reads(ctx):
    from nobodd.fs import FatFileSystem, FatFile
    rng = ctx.rng
    RM = ctx.runner('FatRead')
    nvol = 44 * (3 if ctx.thorough or getattr(ctx, 'widen', False) else 1)
    for v in range(nvol):
        ft = rng.choice(['fat12', 'fat16', 'fat32'])
        bps = rng.choice([64, 128, 256, 512, 512, 1024])
        spc = rng.choice([1, 1, 2, 4])
        g = fatimg.Geometry(ft, rng.randint(60, 140), spc=spc, bps=bps, nfats=rng.choice([1, 2]),
                            root_entries=max(1, bps // 32) * max(1, 1024 // bps),
                            fsinfo=(bps >= 512), reserved=(None if bps >= 512 else 40))
        b = fatimg.Builder(g, rng, fragment=rng.random() < 0.8)
        cs, files = g.cs, []
        sub = b.add(b.tree, 'SUB', (b'SUB     ', b'   '), is_dir=True, lfn=False)
        for k in range(rng.randint(4, 9)):
            size = rng.choice([0, 1, cs - 1, cs, cs + 1, 2 * cs, 2 * cs + 1, 3 * cs - 1, 3 * cs + 5, 5 * cs + 7, rng.randint(0, 6 * cs)])
            data = bytes(rng.getrandbits(8) for _ in range(size))
            try:
                parent = sub if k % 3 == 2 else b.tree
                nd = b.add(parent, f'F{k}.BIN', (b'F%d      ' % k, b'BIN'), data=data, lfn=False)
                files.append((('SUB/' if parent is sub else '') + f'F{k}.BIN', nd))
            except MemoryError:
                break
        img = bytearray(b.img)
        before = bytes(img)
        area = before[g.data_off:g.total * g.bps]
        batch, meta = [], []
        with warnings.catch_warnings():
            warnings.simplefilter('ignore')
            try:
                fs = FatFileSystem(memoryview(img))
            except Exception as e:
                ctx.violation('fs.read/exception', f'opening a well-formed {ft} volume raised {type(e).__name__}: {e}',
                              dict(kind='reads', geometry=vars(g)))
                continue
            try:
                targets = [(p, nd, 'file') for p, nd in files] + [('SUB', sub, 'dir')]
                for path, nd, kind in targets:
                    for rep in range(2 if kind == 'file' else 1):
                        try:
                            if kind == 'dir':
                                f = FatFile.from_cluster(fs, nd['cluster'])
                                content = b''.join(before[b.coff(c):b.coff(c) + cs] for c in nd['chain'])
                                variant = 'dir'
                            else:
                                f = (fs.root / path).open('rb', buffering=0)
                                content, variant = nd['data'], 'file'
                                if rep == 1 and rng.random() < 0.25:
                                    # a directory entry whose size exceeds the chain: outside the property's
                                    # premise, the model must still follow the code (IndexError)
                                    f._entry = f._entry._replace(size=len(nd['chain']) * cs + rng.choice([1, cs, 3 * cs]))
                                    variant = 'oversize'
                            fmap, size = list(f._map), f._get_size()
                            ops = rand_ops(rng, cs, size)
                            with lib.time_limit(20, 'a read sequence on one open file'):
                                res = py_script(f, ops)
                            f.close()
                        except Exception as e:
                            if isinstance(e, lib.Hang):
                                raise       # reported once by lib.corr_run; do not wait for every further file
                            ctx.case((v, path, 'exception'), True, 'reads:exception')
                            ctx.violation('fs.read/exception', f'opening {path!r} ({kind}, chain {nd["chain"]}, size {nd["size"]}) on a '
                                          f'well-formed {ft} volume (cs {cs}) raised {type(e).__name__}: {e}',
                                          dict(kind='reads', geometry=vars(g), path=path, image=before if len(before) < 60000 else None))
                            continue
                        batch.append([fmap, size, wire_ops(ops)])
                        meta.append((path, variant, content, ops, res, fmap, size))
            finally:
                fs.close()
        if bytes(img) != before:
            ctx.violation('fs.read/image-modified', 'seek/read scripts changed bytes of the image', dict(kind='reads', geometry=vars(g)))
        reply = RM.call('reads_many', [cs, area, batch])
        for (path, variant, content, ops, res, fmap, size), mres in zip(meta, reply):
            ctx.case((v, path, variant, ops), len(fmap) >= 2, 'reads:' + variant)
            replay = dict(kind='reads', fat_type=ft, cs=cs, map=fmap, size=size, ops=ops, variant=variant,
                          data_area=area if len(area) < 60000 else None, code=res)
            mres = norm_model(mres)
            if mres != res:
                k = next(i for i, (a, c) in enumerate(zip(mres, res)) if a != c)
                ctx.violation('fs.read/model-mismatch', f'{variant} {path!r} (map {fmap}, size {size}, cs {cs}): op #{k} {ops[k]} '
                              f'code {str(res[k])[:50]} model {str(mres[k])[:50]}', replay)
            if variant != 'oversize':
                if fmap != nd_chain(meta, path, files, sub):
                    ctx.violation('fs.read/chain', f'{path!r}: cluster map {fmap} differs from the chain written', replay)
                d = oracle_script(content, cs, ops, res)
                if d:
                    ctx.violation('fs.read/raw-script', f'{variant} {path!r} ({ft}, cs {cs}): {d}', replay)
        if v < 2:
            ctx.sample(dict(fat_type=ft, cs=cs, files=[(p, nd['size'], nd['chain']) for p, nd in files][:4],
                            ops=meta[0][3][:6] if meta else None))


def nd_chain(meta, path, files, sub):
    if path == 'SUB':
        return sub['chain']
    return next(nd['chain'] for p, nd in files if p == path)


def run(ctx):
    run_headers(ctx)
    run_reads(ctx)
