#!/usr/bin/env python3
"""Run the repository's pinned test suite and compare with /root/.vp/BASELINE.json."""
import json, subprocess, sys, tempfile, os, xml.etree.ElementTree as ET
b = json.load(open('/root/.vp/BASELINE.json'))
with tempfile.TemporaryDirectory() as d:
    out = os.path.join(d, 'j.xml')
    cmd = b['cmd'].replace('<file>', out)
    env = dict(os.environ); env.pop('NOBODD_VERIF', None)
    p = subprocess.run(cmd, shell=True, env=env, capture_output=True, text=True)
    t = ET.parse(out)
    status = {}
    for tc in t.iter('testcase'):
        name = tc.get('classname') + '::' + tc.get('name')
        bad = any(c.tag in ('failure', 'error') for c in tc)
        skipped = any(c.tag == 'skipped' for c in tc)
        status[name] = 'fail' if bad else 'skip' if skipped else 'pass'
missing = [n for n in b['stable_pass'] if status.get(n) != 'pass']
print(f'{len(b["stable_pass"]) - len(missing)}/{len(b["stable_pass"])} stable tests pass')
for n in missing:
    print('NOT PASSING:', n, status.get(n))
sys.exit(1 if missing else 0)
