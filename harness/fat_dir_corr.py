"""C04 / C10 / C11 (directory part) correspondence: the Coq model coq/FatDir/Model.v against the
REAL nobodd.fs.FatDirectory code: a fixed-size FatRoot and growable FatSubDirectory instances on
small synthesised volumes, and FatRoot instances over raw (also deliberately damaged) regions, are
driven with random sequences of index[name] = entry, del index[name], index[name], name in index,
list(index), _clean_entries(); after every step the raw directory bytes and the result / exception
class are compared with the extracted model.  Oracle on the implementation alone: the extracted
specification reader (runner 'Fat': abs, wf) must list exactly the names a plain dict-like model
expects, every entry must still carry its own bytes, and ENOSPC on a fixed root must come exactly
when the slots do not suffice and leave everything resolvable."""
import errno, struct, time, warnings
import lib, fatimg, fatspec

SPEC_THEOREMS = {
    'decode_agrees_with_spec': 'FatDir/ProofsSpec.v. wf_recs (32-byte records) and clean_dir recs = true (deleted records / labels / '
        'terminator only where no run is pending; every live long-name record extends a valid run: terminal record with '
        'ordinal 1..31, descending ordinals, first_cluster 0, one checksum; a short record closes a complete run with its '
        'checksum and a standard payload -- valid UTF-16 up to the first NUL, not ending in U+FFFF, then NUL + U+FFFF padding '
        '-- or has no run; its 8.3 base is not blank) => split_all (groups recs) = the (d_name, d_sfn, d_raw) triples of '
        'Fat.Spec.decode_dir recs 0 None 0, same offsets and long-record counts, 0 orphans, listing = map d_name',
    'setitem_new_then_getitem': 'FatDir/ProofsMain.v. wf_recs, cap_ok, 0 < slots_per_cluster, entry_ok (32 bytes, attr not 0x0F, '
        'not a label), name: non-empty, name_ok (real code points, no NUL), <= 255 UTF-16 units, not ending in U+FFFF, base '
        'not empty when stored short-only, U+00E5 not in upper(name.lstrip(".")); name absent (find = Ok None); '
        '_prefix_entries = Ok recs; succeeds (first attempt fits -- always for a sub-directory -- or fixed root, tidy, fits '
        'after the compaction) => setitem = (d\', None); view d\' = view d ++ [(name, alias, entry with the generated 8.3 '
        'name)]; every v with upper v = upper name resolves to it; every key that resolved before resolves to the same '
        'entry; every other key but the new name / new alias is unchanged; listing d\' = listing d ++ [name]',
    'setitem_existing_updates_in_place': 'FatDir/ProofsOps.v. wf_recs, cap_ok, entry_ok, find = Ok (Some (g, x)) (any case '
        'variant of the long name or the 8.3 name) => one poke at g_off g; region = A ++ new :: B where it was A ++ old :: B; '
        'filename / ext / attr2 of the slot kept, attr and bytes 13.. from the new value; groups and names unchanged',
    'delitem_spec': 'FatDir/ProofsOps.v. wf_recs, cap_ok. Absent key: (d, Some KeyError), nothing written. Present: groups d\' = '
        'G1 ++ G2 where groups d = G1 ++ g :: G2 (other groups: same offsets, same records); only the records of the group '
        'are rewritten (first byte 0xE5); every key that does not hit the deleted entry resolves as before; listing loses '
        'exactly that element',
    'clean_preserves_listing': 'FatDir/ProofsClean.v. wf_recs, tidy (no live long-name record is left pending at a deleted '
        'entry, label, terminator or the end) => view (clean d) = view d, hence getitem / contains / listing / items equal; '
        'region = kept ++ zeros ++ (old terminator onwards), same length; no kept record starts with 0xE5; eof = |kept|. '
        'clean_needs_tidy: without tidiness the compaction can attach an orphaned long name to the next entry (Example)',
    'root_full_enospc': 'FatDir/ProofsMain.v. hypotheses of setitem_new_then_getitem (without succeeds), d_cap = Some n, tidy: '
        'ENOSPC <-> n <= e0 + k and n <= e1 + k (k records of the name, one EOF record more; e0 = index after the last '
        'group, e1 = eof of the compaction); then the directory is clean d: same view, listing, getitem, contains; any '
        'other outcome is success',
    'setitem_pokes_back_to_front': 'FatDir/ProofsAppend.v. cap_ok, 0 < spc, the append fits => indices of the pokes = rev [e0 .. '
        'e0 + k]; after any proper non-empty prefix: records before e0 unchanged, groups = old groups ++ extra, and extra = [] '
        '(same view) when record e0 is the terminator. crash_point_with_trailing_deleted: with deleted records before the '
        'terminator the new entry is first visible under its 8.3 name (Example)',
    'examples': 'FatDir/ProofsExamples.v, vm_compute: look-ups by case variants / alias, __contains__ compares the alias exactly, '
        'update in place, delete + compaction, a 12-slot root filled to the brim (ENOSPC, clean-and-retry, EOF record), '
        'growth of a sub-directory by 16 slots, agreement with Fat.Spec on a built directory, a long-name record with first '
        'byte 0 (the two readers differ), the crash point above',
}

TRUSTED = [
    'str.upper() is CPython\'s: the model takes upper : list N -> list N as an argument; the only assumption a theorem '
    'makes about it is that U+00E5 does not occur in upper(name.lstrip(".")) (checked here: no code point\'s upper() '
    'contains it). The runner gets upper as a per-character table (sound because CPython\'s upper() is context-free: '
    'upper(a + b) = upper(a) + upper(b), sampled here on the special-casing characters)',
    'str.lower() on text decoded from iso-8859-1 = FatNames.lower_b (checked here for all 256 bytes)',
    'struct pack / unpack of DirectoryEntry / LongFilenameEntry is the identity on 32 bytes except the pad byte 12 of '
    'a long-name record, which is written as NUL (model: repack); offsets come from Gen/Fat.v',
    'FatFile.write / truncate grow a sub-directory by whole zero-filled clusters: the model appends zero records up to '
    '(i / slots_per_cluster + 1) * slots_per_cluster; write() itself does not zero the cluster it allocates, so on a '
    'volume whose free clusters hold old data the records after the new terminator are that data (invisible to every '
    'reader; the harness volumes have zeroed free clusters); running out of clusters is FatAlloc\'s subject',
    'warnings raised by _split_entries / _join_lfn_entries are not modelled; bytes.decode("utf-16le") refuses lone '
    'surrogates (model: utf16_dec)',
]

_COUNT = {}


def _viol(ctx, signature, what, replay):
    k = (id(ctx), signature)
    _COUNT[k] = _COUNT.get(k, 0) + 1
    if _COUNT[k] <= 3:
        ctx.violation(signature, what, replay)


ASTRAL = '\U0001F600'
NAMES = (
    ['readme.txt', 'README.TXT', 'ReadMe.Txt', 'readme.TXT', 'README.txt', 'Readme', 'README', 'readme']
    + [f'Shared Prefix name {i}.txt' for i in range(1, 13)]
    + ['shared prefix NAME 3.TXT', 'SHARED~1.TXT', 'shared~2.txt', 'SHARED~3.TXT', 'SHARE~10.TXT', 'Shared~4.txt', 'SHARED~1']
    + ['a b', 'a  b', 'A B', 'a   b', 'AB~1', 'ab~2', 'a+b', 'A+B', 'a,b', 'A_B~1', 'a_b']
    + ['n' * 13, 'N' * 13, 'n' * 14, 'n' * 26 + '.x', 'q' * 40 + '.long ext']
    + ['.hidden', '.HIDDEN', '..double', 'a.b.c', 'A.B.C', 'archive.tar.gz', 'x.', 'café.txt', 'CAFÉ.TXT',
       'straße', 'STRASSE', 'ÿ.txt', 'Ÿ.TXT', 'µ', 'Μ', 'é.txt', 'ﬁle', 'FILE',
       ASTRAL, ASTRAL + '.txt', 'a' + ASTRAL * 6 + '.bin', '日本語.txt', 'ıi.txt', 'II.TXT',
       'ångström', 'ÅNGSTRÖM', 'å.txt', 'å',
       # short-only names whose NT case flags cover Latin-1 letters (fix 5b16ae2)
       'Àb.txt', 'àb.TXT', 'cafÉ.txt', 'ÉCOLE.txt', 'école.TXT', 'café.TXT', 'Öl', 'öl', 'x.Ét', 'X.ét']
)
# a name that fills its last long-name record exactly and ends in U+FFFF loses that character in nobodd's reader
# (rstrip of the padding): 'fs.dir/trailing-ffff-stripped'; same treatment
FFFF_NAMES = ['n' * 12 + '\uffff', 'm' * 25 + '\uffff']
WILD = ['', ' ', '.', '..', 'a\x00b', '\ud800x.txt', 'x' * 256, 'nul\x00', 'trail ', '\uffff', 'a\uffff\uffff', '?', 'a?b', '~', '~1']


def cap_wire(cap):
    return [] if cap is None else [cap]


def upper_table():
    """every code point whose upper case differs from itself, sorted, packed for the runner: code point (3 bytes),
    length of the upper case (1 byte), its code points (3 bytes each).  Complete, because damaged long-name records
    can hold any UTF-16 unit and the histories derive keys with lower() / swapcase()."""
    out = bytearray()
    for c in range(0x110000):
        if 0xD800 <= c < 0xE000:
            continue
        u = chr(c).upper()
        if u != chr(c):
            out += c.to_bytes(3, 'big') + bytes([len(u)]) + b''.join(ord(x).to_bytes(3, 'big') for x in u)
    return bytes(out)


def exc_name(e):
    if isinstance(e, OSError):
        return 'ENOSPC' if e.errno == errno.ENOSPC else 'OSError'
    return type(e).__name__


def impl_call(fn, *a):
    try:
        with warnings.catch_warnings():
            warnings.simplefilter('ignore')
            return ('ok', fn(*a))
    except Exception as e:      # noqa: every exception class is part of the compared result
        return ('err', exc_name(e))


def mk_entry(rng, wild=False):
    """bytes of a DirectoryEntry: an empty regular file with random stamps (the name fields are ignored / kept)"""
    attr = 0x20
    if wild:
        attr = rng.choice((0x20, 0x20, 0x10, 0x21, 0x08, 0x0F, 0x28, 0x00))
    return struct.pack('<8s3sBBBHHHHHHHI', bytes(rng.randrange(256) for _ in range(8)) if wild else b'IGNORED ',
                       b'IGN', attr, rng.choice((0, 0x08, 0x10, 0x18)), rng.randrange(200), rng.randrange(0xC000),
                       0x5821 + rng.randrange(300), 0x5821, 0, rng.randrange(0xC000), 0x5821 + rng.randrange(300),
                       rng.randrange(3, 60) if wild else 0, rng.randrange(1 << 20) if wild else 0)


# ------------------------------------------------------------------ the directories driven
class RawRoot:
    """a real Fat16Root over a bare region (no volume around it)"""
    kind = 'raw-root'

    def __init__(self, region):
        from nobodd.fs import Fat16Root
        from nobodd.locks import RWLock
        self.mem = bytearray(region)
        self.cap, self.spc = len(region) // 32, 16
        self.idx = Fat16Root(RWLock(), memoryview(self.mem), 'iso-8859-1')

    def region(self):
        return bytes(self.mem)

    def index(self):
        return self.idx


class VolDir:
    """the root or a sub-directory of a synthesised volume; the region is read from the image independently
    of nobodd (fixed root area, or the cluster chain followed in the FAT by fatimg's accessor)"""

    def __init__(self, fat_type, root_entries, sub, rng, n_clusters=72):
        from nobodd.fs import FatFileSystem
        self.g = fatimg.Geometry(fat_type, n_clusters, spc=1, bps=512, nfats=2, root_entries=root_entries)
        self.b = fatimg.Builder(self.g, rng)
        self.buf = self.b.img
        with warnings.catch_warnings():
            warnings.simplefilter('ignore')
            self.fs = FatFileSystem(memoryview(self.buf))
        self.sub = sub
        self.spc = self.g.cs // 32
        self.kind = f'{fat_type}-' + ('sub' if sub else 'root')
        self.start = None
        if sub:
            with warnings.catch_warnings():
                warnings.simplefilter('ignore')
                (self.fs.root / 'work dir').mkdir()
                e = self.fs.root._index['work dir']
            self.start = e.first_cluster_lo | (e.first_cluster_hi << 16 if fat_type == 'fat32' else 0)
        elif fat_type == 'fat32':
            self.start = 2
        self.cap = None if self.start is not None else root_entries
        self._idx = None

    def chain(self):
        out, c = [], self.start
        while 2 <= c < self.g.n_clusters + 2 and len(out) < 4096:
            out.append(c)
            c = self.b.get(c)
        return out

    def region(self):
        if self.start is None:
            return bytes(self.buf[self.g.root_off:self.g.root_off + self.g.root_entries * 32])
        return b''.join(bytes(self.buf[self.b.coff(c):self.b.coff(c) + self.g.cs]) for c in self.chain())

    def index(self):
        # a fresh FatDirectory object for every operation, as a freshly derived path would give
        if self.start is None or (self.g.fat_type == 'fat32' and not self.sub):
            return self.fs.open_dir(0)
        return self.fs.open_dir(self.start)

    def close(self):
        try:
            self.fs.close()
        except Exception:
            pass


# ------------------------------------------------------------------ one compared step
def do_step(ctx, R, D, table, op, name=None, entry=None):
    """run [op] on the real directory and on the model from the same region; returns
    (implementation outcome, region before, region after)"""
    before = D.region()
    idx = D.index()
    if op == 'setitem':
        from nobodd.fat import DirectoryEntry
        out = impl_call(idx.__setitem__, name, DirectoryEntry.from_bytes(entry))
    elif op == 'delitem':
        out = impl_call(idx.__delitem__, name)
    elif op == 'getitem':
        out = impl_call(idx.__getitem__, name)
        if out[0] == 'ok':
            out = ('ok', bytes(out[1]))
    elif op == 'contains':
        out = impl_call(idx.__contains__, name)
    elif op == 'listing':
        out = impl_call(lambda: list(idx))
    elif op == 'items':
        out = impl_call(lambda: [(n, bytes(e)) for n, e in idx.items()])
    elif op == 'clean':
        out = impl_call(idx._clean_entries)
    else:
        raise ValueError(op)
    after = D.region()
    arg = [cap_wire(D.cap), D.spc, before, table]
    if name is not None:
        arg.append(name)
    if entry is not None:
        arg.append(entry)
    try:
        m = R.call(op, arg)
    except lib.Hang:
        _viol(ctx, 'fs.dir/model-hang', f'the model did not answer {op}', dict(op=op))
        return out, before, after
    info = dict(kind=D.kind, capacity=D.cap, slots_per_cluster=D.spc, region=before, op=op, name=name, entry=entry)
    if op in ('setitem', 'delitem'):
        m_after, m_out = bytes(m[0]), (('err', bytes(m[1][0]).decode()) if m[1] else ('ok', None))
    elif op == 'clean':
        m_after, m_out = bytes(m[0]), ('ok', m[1] * 32)
    else:
        m_after = before
        m_out = R.unres(m)
        if m_out[0] == 'ok':
            if op == 'getitem':
                m_out = ('ok', bytes(m_out[1]))
            elif op == 'contains':
                m_out = ('ok', bool(m_out[1]))
            elif op == 'listing':
                m_out = ('ok', [lib.as_text(x) for x in m_out[1]])
            elif op == 'items':
                m_out = ('ok', [(lib.as_text(a), bytes(b)) for a, b in m_out[1]])
    what = None
    if out != m_out:
        what = f'result: implementation {str(out)[:120]}, model {str(m_out)[:120]}'
    elif after != m_after:
        k = next((i for i in range(0, max(len(after), len(m_after)), 32) if after[i:i + 32] != m_after[i:i + 32]), 0)
        what = (f'directory bytes differ at record {k // 32} (lengths {len(after) // 32} / {len(m_after) // 32}): '
                f'implementation {after[k:k + 32].hex()} model {m_after[k:k + 32].hex()}')
    if what:
        _viol(ctx, 'fs.dir/model-' + op, f'{D.kind} {op}({name!r}): {what}', info)
    kind = op + (':' + out[1] if out[0] == 'err' else '')
    ctx.case((D.kind, op, name, before, entry), op in ('setitem', 'delitem', 'clean') or out[0] == 'err', kind)
    return out, before, after


# ------------------------------------------------------------------ oracle histories on volumes
def payload(rec):
    """everything of a short record that belongs to the value, not to the name slot"""
    return bytes(rec[11:12]) + bytes(rec[13:32])


def units_of(name):
    return len(name.encode('utf-16le', 'surrogatepass')) // 2


def k_upper(name):
    """an upper bound of the records a new name needs (1 only when it is plainly a pure 8.3 name)"""
    base, dot, ext = name.partition('.')
    plain = set('ABCDEFGHIJKLMNOPQRSTUVWXYZ0123456789')
    def part(s, n):
        return len(s) <= n and s.isascii() and (set(s.upper()) <= plain) and s in (s.upper(), s.lower())
    if name and not name.startswith('.') and name.count('.') <= 1 and base and part(base, 8) and part(ext, 3) and (ext or not dot):
        return 1
    u = units_of(name)
    return 1 + (u + (1 if u % 13 else 0) + 12) // 13


def spec_view(ctx, RF, D):
    """(problems, children of the driven directory) from the extracted specification reader"""
    img = bytes(D.buf)
    probs = fatspec.spec_wf(RF, img)
    geom, tree = fatspec.spec_abs(RF, img)
    if tree is None:
        return probs or [('unreadable', 'abs failed')], None
    node = tree
    if D.sub:
        node = next((k for k in tree['children'] if k['name'] == 'work dir'), None)
        if node is None:
            return probs or [('lost', "'work dir' is not listed any more")], None
    return probs, node['children']


def find_hit(exp, name, exact_alias=False):
    u = name.upper()
    for x in exp:
        if x['name'].upper() == u or x['alias'] == (name if exact_alias else u):
            return x
    return None


def oracle_history(ctx, R, RF, D, table, steps, pool):
    rng = ctx.rng
    exp = []                    # the plain model: entries in directory order
    trace = []
    def bad(sig, what):
        _viol(ctx, sig, f'{D.kind}: {what}', dict(kind=D.kind, capacity=D.cap, history=trace[-40:]))
    for _ in range(steps):
        r = rng.random()
        op = ('setitem' if r < .46 else 'delitem' if r < .64 else 'getitem' if r < .76 else 'contains' if r < .84
              else 'listing' if r < .89 else 'items' if r < .93 else 'clean')
        name = entry = None
        if op in ('setitem', 'delitem', 'getitem', 'contains'):
            if exp and rng.random() < (.25 if op == 'setitem' else .6):
                x = rng.choice(exp)
                name = rng.choice((x['name'], x['name'].upper(), x['name'].lower(), x['name'].swapcase(), x['alias'],
                                   x['alias'].lower()))
            else:
                name = rng.choice(pool)
            if name in ('.', '..'):
                continue
        if op == 'setitem':
            entry = mk_entry(rng)
        used = sum(x['nrec'] for x in exp) + (2 if D.sub else 0)
        hit = find_hit(exp, name, exact_alias=(op == 'contains')) if name is not None else None
        trace.append([op, name, entry])
        out, before, after = do_step(ctx, R, D, table, op, name, entry)
        # --- the outcome a plain mapping gives
        if op == 'getitem':
            if (out[0] == 'ok') != (hit is not None) or (out[0] == 'err' and out[1] != 'KeyError'):
                bad('fs.dir/lookup', f'index[{name!r}] gives {out[1] if out[0] == "err" else "an entry"} but '
                    f'{"an" if hit else "no"} entry answers to that name')
            elif hit and payload(out[1]) != hit['payload']:
                bad('fs.dir/shadowed', f'index[{name!r}] returns the fields of another entry (expected those of {hit["name"]!r})')
            continue
        if op == 'contains':
            if out != ('ok', hit is not None):
                bad('fs.dir/contains', f'{name!r} in index gives {out[1]} but {"an" if hit else "no"} entry answers to that name')
            continue
        if op in ('listing', 'items'):
            got = out[1] if op == 'listing' else [n for n, _ in out[1]] if out[0] == 'ok' else None
            dots = ['.', '..'] if D.sub else []
            if out[0] != 'ok' or got != dots + [x['name'] for x in exp]:
                bad('fs.dir/listing', f'{op} gives {str(got)[:100]}, expected {dots + [x["name"] for x in exp][:8]}')
            elif op == 'items' and [payload(e) for _, e in out[1][len(dots):]] != [x['payload'] for x in exp]:
                bad('fs.dir/shadowed', 'items() pairs a name with the fields of another entry')
            continue
        enospc = False
        if op == 'delitem':
            if (out[0] == 'ok') != (hit is not None) or (out[0] == 'err' and out[1] != 'KeyError'):
                bad('fs.dir/delete', f'del index[{name!r}] gives {out[1] if out[0] == "err" else "success"} but '
                    f'{"an" if hit else "no"} entry answers to that name')
                return
            if hit:
                exp.remove(hit)
            else:
                if after != before:
                    bad('fs.dir/failed-op-wrote', f'del index[{name!r}] raised KeyError and changed the directory')
                continue
        elif op == 'setitem':
            if out[0] == 'err':
                if out[1] != 'ENOSPC' or D.cap is None or hit:
                    bad('fs.dir/set-failed', f'index[{name!r}] = entry raised {out[1]}')
                    return
                enospc = True
                if used + k_upper(name) + 1 <= D.cap:
                    bad('fs.dir/enospc-too-early', f'index[{name!r}] = entry raised ENOSPC with {used} of {D.cap} slots in '
                        f'use and at most {k_upper(name)} + 1 needed')
            elif hit:
                hit['payload'] = payload(entry)
            else:
                exp.append(dict(name=name, alias=None, payload=payload(entry), nrec=None))
        # --- the independent reader after every mutation
        probs, kids = spec_view(ctx, RF, D)
        if probs:
            bad('fs.dir/structural:' + str(probs[0][0]), f'after {op}({name!r}): {probs[:3]}')
            return
        listed = [k['name'] for k in kids]
        if listed != [x['name'] for x in exp]:
            bad('fs.dir/spec-listing' + ('-after-enospc' if enospc else ''),
                f'after {op}({name!r}) the specification reader lists {listed[-6:]}, expected {[x["name"] for x in exp][-6:]}')
            return
        recs = [after[i:i + 32] for i in range(0, len(after), 32)]
        for x, k in zip(exp, kids):
            if x['alias'] is None:
                x['alias'], x['nrec'] = k['sfn'], k['nlfn'] + 1
            elif (x['alias'], x['nrec']) != (k['sfn'], k['nlfn'] + 1):
                bad('fs.dir/entry-changed', f'after {op}({name!r}) entry {x["name"]!r} has alias {k["sfn"]!r} / {k["nlfn"]} long records')
                return
            if payload(recs[k['off']]) != x['payload']:
                bad('fs.dir/shadowed', f'after {op}({name!r}) entry {x["name"]!r} carries different fields (merged or overwritten)')
                return
        al = [x['alias'] for x in exp]
        if len(set(al)) != len(al):
            bad('fs.dir/alias-duplicate', f'after {op}({name!r}) two entries share an 8.3 name')
        if D.cap is not None and op == 'setitem' and not enospc:
            if sum(x['nrec'] for x in exp) + 1 > D.cap:
                bad('fs.dir/no-terminator', f'after index[{name!r}] = entry the fixed root has no room for its terminator')
        if op == 'clean':
            live = sum(x['nrec'] for x in exp) + (2 if D.sub else 0)
            if out != ('ok', live * 32):
                bad('fs.dir/clean-eof', f'_clean_entries returned {out[1]}, the live records end at {live * 32}')
            if any(r[0] == 0xE5 for r in recs[:live]) or (live < len(recs) and any(recs[live])):
                bad('fs.dir/clean-left-over', 'after _clean_entries deleted records remain or no zero record follows the live ones')
        ctx.stat('oracle:' + op + ('-enospc' if enospc else ''))


# ------------------------------------------------------------------ raw regions, also damaged
def damage(rng, mem):
    n = len(mem) // 32
    i = rng.randrange(n)
    k = rng.randrange(12)
    if k == 0: mem[i * 32] = 0xE5
    elif k == 1: mem[i * 32] = 0x00
    elif k == 2: mem[i * 32] = 0x40 | rng.randrange(0, 4)
    elif k == 3: mem[i * 32] = rng.choice((0, 1, 2, 3, 0x05, 0x20, 0x80 | 1, 0x60 | 2))
    elif k == 4: mem[i * 32 + 11] = rng.choice((0x0F, 0x08, 0x20, 0x10, 0x28))
    elif k == 5: mem[i * 32 + 13] ^= rng.choice((1, 0x80))
    elif k == 6: mem[i * 32 + 26] = rng.choice((0, 1)); mem[i * 32 + 27] = rng.choice((0, 0, 2))
    elif k == 7: mem[i * 32 + 12] = rng.choice((0, 0x18, 0xAA))
    elif k == 8:
        j = rng.randrange(n)
        a, b = bytes(mem[i * 32:i * 32 + 32]), bytes(mem[j * 32:j * 32 + 32])
        mem[i * 32:i * 32 + 32], mem[j * 32:j * 32 + 32] = b, a
    elif k == 9:
        j = rng.randrange(n)
        mem[j * 32:j * 32 + 32] = bytes(mem[i * 32:i * 32 + 32])
    elif k == 10:
        for j in range(i, n):       # no terminator: stale records up to the end
            if not any(mem[j * 32:j * 32 + 32]):
                mem[j * 32:j * 32 + 32] = bytes([0xE5 if rng.random() < .5 else 0x41]) + bytes(rng.randrange(256) for _ in range(31))
    else: mem[i * 32 + rng.randrange(1, 32)] = rng.randrange(256)


def raw_history(ctx, R, table, cap, steps, pool, damaged):
    rng = ctx.rng
    D = RawRoot(bytes(32 * cap))
    for s in range(steps):
        if damaged and rng.random() < .18:
            for _ in range(rng.randint(1, 3)):
                damage(rng, D.mem)
            ctx.stat('raw:damage')
        r = rng.random()
        op = ('setitem' if r < .45 else 'delitem' if r < .62 else 'getitem' if r < .72 else 'contains' if r < .80
              else 'listing' if r < .87 else 'items' if r < .91 else 'clean')
        name = entry = None
        if op in ('setitem', 'delitem', 'getitem', 'contains'):
            name = rng.choice(pool)
            if rng.random() < .4:
                got = impl_call(lambda: list(D.index()))
                if got[0] == 'ok' and got[1]:
                    name = rng.choice(got[1])
                    name = rng.choice((name, name.upper(), name.lower(), name.swapcase()))
        if op == 'setitem':
            entry = mk_entry(rng, wild=damaged and rng.random() < .3)
        do_step(ctx, R, D, table, op, name, entry)


def brim(ctx, R, table, cap):
    """fill a fixed root to the brim in every way: with j deleted records to reclaim, names needing k records"""
    rng = ctx.rng
    for k_name in ('FILL.TXT', 'fill me one.txt', 'fill me with two records.txt'):
        for free in range(1, 5):
            for holes in (0, 1, 3):
                D = RawRoot(bytes(32 * cap))
                e = mk_entry(rng)
                i = 0
                while True:                       # short entries until [free] slots remain (terminator included)
                    used = sum(1 for j in range(cap) if D.mem[j * 32] != 0)
                    if used >= cap - free:
                        break
                    if do_step(ctx, R, D, table, 'setitem', f'F{i}.DAT', e)[0][0] != 'ok' or i > cap:
                        break
                    i += 1
                for h in range(min(holes, i)):    # holes that the compaction can reclaim
                    do_step(ctx, R, D, table, 'delitem', f'F{h * 2 % i}.DAT')
                before_names = impl_call(lambda: list(D.index()))
                out, _, _ = do_step(ctx, R, D, table, 'setitem', k_name, e)
                after_names = impl_call(lambda: list(D.index()))
                ctx.stat('brim:' + ('enospc' if out[0] == 'err' else 'fits'))
                if out[0] == 'err' and (out[1] != 'ENOSPC' or after_names != before_names):
                    _viol(ctx, 'fs.dir/enospc-listing', f'full root: index[{k_name!r}] = entry raised {out[1]}; listing '
                          f'{"changed" if after_names != before_names else "kept"}', dict(kind='brim', cap=cap, free=free, holes=holes, name=k_name))
                if out[0] == 'ok' and after_names != ('ok', before_names[1] + [k_name]):
                    _viol(ctx, 'fs.dir/listing', f'full root: after index[{k_name!r}] = entry the listing is not the old one plus the name',
                          dict(kind='brim', cap=cap, free=free, holes=holes, name=k_name))
                do_step(ctx, R, D, table, 'listing')


# ------------------------------------------------------------------ probes on the implementation alone
def crash_points(ctx, cap=24):
    """every intermediate state of an append, as a concurrent / post-crash reader sees it"""
    from nobodd.fs import Fat16Root
    from nobodd.fat import DirectoryEntry
    from nobodd.locks import RWLock
    rng = ctx.rng

    class Logged(Fat16Root):
        __slots__ = ('log',)
        def _update_entry(self, offset, entry):
            super()._update_entry(offset, entry)
            self.log.append((offset, bytes(self._mem)))

    def names_of(region):
        return impl_call(lambda: list(Fat16Root(RWLock(), memoryview(bytearray(region)), 'iso-8859-1')))

    for trailing_deleted in (False, True):
        for name in ('PLAIN.TXT', 'a name of two records', 'Shared Prefix name 77 needs three.txt', 'x' * 60):
            mem = bytearray(32 * cap)
            idx = Logged(RWLock(), memoryview(mem), 'iso-8859-1')
            idx.log = []
            e = DirectoryEntry.from_bytes(mk_entry(rng))
            with warnings.catch_warnings():
                warnings.simplefilter('ignore')
                idx['first.txt'] = e
                idx['Second entry.txt'] = e
                if trailing_deleted:
                    idx['Third entry to delete.txt'] = e
                    del idx['third entry to delete.txt']
                old = list(idx)
                end = max(i for i in range(cap) if mem[i * 32] not in (0, 0xE5)) + 1
                idx.log = []
                idx[name] = e
                new = list(idx)
            offs = [o for o, _ in idx.log]
            info = dict(kind='crash-points', name=name, trailing_deleted=trailing_deleted, offsets=offs)
            ctx.case(('crash', name, trailing_deleted), True, 'append-crash-points')
            if offs != sorted(offs, reverse=True) or len(set(offs)) != len(offs) or offs[-1] != end * 32:
                _viol(ctx, 'fs.dir/append-order', f'appending {name!r}: records written at {offs}, expected strictly '
                      f'descending offsets ending at the old end {end * 32}', info)
            for o, snap in idx.log[:-1]:
                got = names_of(snap)
                if got[0] != 'ok' or got[1][:len(old)] != old or (not trailing_deleted and got[1] != old):
                    _viol(ctx, 'fs.dir/append-not-atomic', f'appending {name!r}: after the write at {o} a reader lists '
                          f'{str(got[1])[:120]}, the directory held {old}', info)
                    break
            if new != old + [name]:
                _viol(ctx, 'fs.dir/listing', f'after appending {name!r} the listing is {new}', info)


def observations(ctx, R, table):
    """a name that fills its last long-name record and ends in U+FFFF (the padding value): nobodd's reader strips it
    (rstrip of the padding), the specification reader keeps it.  Whether such a name is legal VFAT is debatable, so
    this is recorded in the evidence, not reported as a violation."""
    rng = ctx.rng
    seen = []
    for name in FFFF_NAMES:
        D = RawRoot(bytes(32 * 16))
        do_step(ctx, R, D, table, 'setitem', name, mk_entry(rng))
        out, _, after = do_step(ctx, R, D, table, 'listing')
        if out != ('ok', [name]):
            seen.append(dict(name=name, listed=out[1], records=after[:96].hex()))
    ctx.extra['fat_dir_trailing_ffff_stripped'] = seen


def upper_facts(ctx, R, table):
    """what the theorems assume about str.upper() / str.lower(), against CPython for every code point"""
    low = bytes(range(256))
    got = bytes(R.call('lower', [[], 16, b'', b'', low]))
    want = low.decode('latin-1').lower()
    ctx.case('lower', True, 'upper-facts')
    if len(want) != 256 or got.decode('latin-1') != want:
        _viol(ctx, 'fs.dir/model-lower', 'str.lower() on Latin-1 text differs from lower_b', dict(kind='lower'))
    bad = [c for c in range(0x110000) if not 0xD800 <= c < 0xE000 and '\xe5' in chr(c).upper()]
    if bad:
        _viol(ctx, 'fs.dir/upper-assumption', f'upper() of U+{bad[0]:04X} contains U+00E5', dict(kind='upper'))
    rng = ctx.rng
    pool = [chr(c) for c in (0xDF, 0x149, 0x1F0, 0x390, 0x3C2, 0x3C3, 0x3A3, 0x130, 0x131, 0xFB01, 0x1E9E, 0x69, 0x49, 0x307, 0x345, 0x1F80)]
    for _ in range(300):
        a = ''.join(rng.choice(pool) for _ in range(rng.randint(0, 4)))
        b = ''.join(rng.choice(pool) for _ in range(rng.randint(0, 4)))
        if (a + b).upper() != a.upper() + b.upper():
            _viol(ctx, 'fs.dir/upper-assumption', f'upper({a + b!r}) is not upper({a!r}) + upper({b!r})', dict(kind='upper'))
            break
    names = NAMES + FFFF_NAMES + [w for w in WILD if not any(0xD800 <= ord(c) < 0xE000 for c in w)]
    got = R.batch('upper', [[[], 16, b'', table, n] for n in names])
    for n, g in zip(names, got):
        ctx.case(('upper', n), True, 'upper-facts')
        if lib.as_text(g) != n.upper():
            _viol(ctx, 'fs.dir/model-upper', f'the upper table gives {lib.as_text(g)!r} for {n!r}', dict(kind='upper', name=n))


def run(ctx):
    t0 = time.time()
    R = ctx.runner('FatDir')
    RF = ctx.runner('Fat')
    table = upper_table()
    rng = ctx.rng
    scale = 4 if ctx.thorough else 1
    upper_facts(ctx, R, table)
    observations(ctx, R, table)
    crash_points(ctx)
    brim(ctx, R, table, 12)
    safe = [n for n in NAMES]
    everything = NAMES + FFFF_NAMES + WILD
    for rep in range(scale):
        for fat_type, root_entries, sub, steps in (('fat12', 16, False, 220), ('fat16', 32, False, 200), ('fat16', 32, True, 170),
                                                   ('fat32', 0, False, 140), ('fat12', 16, True, 110)):
            # a family of names per history, so that case variants and aliases collide often
            fam = rng.sample(safe, 14) + [n for n in safe if n.lower().startswith(rng.choice(('shared', 'readme', 'a', 'n')))]
            D = VolDir(fat_type, root_entries, sub, rng)
            try:
                oracle_history(ctx, R, RF, D, table, steps, fam)
            finally:
                D.close()
        for cap, steps, damaged in ((16, 200, False), (24, 260, True), (40, 260, True), (8, 100, True)):
            raw_history(ctx, R, table, cap, steps, everything, damaged)
    ctx.extra['fat_dir_corr_s'] = round(time.time() - t0, 1)
