"""Gen/Locks.v: facts about nobodd/locks.py that the Locks model depends on.

Per method: a canonical skeleton (every statement in source order, docstrings,
comments and assert messages removed) and its digest, so that ANY edit of the
logic of locks.py reaches Props/C13.v; plus the constants and comparisons that
the model really executes (LightSwitch first/last tests, counter reset value,
shape of the downgrade path in _WriteLock.release)."""
import ast, hashlib
from translate import *

NAME = 'Locks'

METHODS = [
    (None, 'remaining'),
    ('LightSwitch', '__init__'), ('LightSwitch', 'acquire'), ('LightSwitch', 'release'),
    ('RWLockState', '__init__'), ('RWLock', '__init__'),
    ('_BaseLock', '__init__'), ('_BaseLock', '_get_state'),
    ('_ReadLock', '__init__'), ('_ReadLock', 'acquire'), ('_ReadLock', 'release'),
    ('_WriteLock', '__init__'), ('_WriteLock', 'acquire'), ('_WriteLock', 'release'),
]


def is_doc(node):
    return isinstance(node, ast.Expr) and isinstance(node.value, ast.Constant) \
        and isinstance(node.value.value, str)


def skeleton(stmts, out):
    for s in stmts:
        if is_doc(s):
            continue
        if isinstance(s, ast.If):
            out.append('if ' + ast.unparse(s.test)); skeleton(s.body, out)
            if s.orelse:
                out.append('else'); skeleton(s.orelse, out)
            out.append('endif')
        elif isinstance(s, ast.With):
            out.append('with ' + ', '.join(ast.unparse(i) for i in s.items))
            skeleton(s.body, out); out.append('endwith')
        elif isinstance(s, ast.Try):
            out.append('try'); skeleton(s.body, out)
            for h in s.handlers:
                out.append('except ' + (ast.unparse(h.type) if h.type else '') +
                           (' as ' + h.name if h.name else ''))
                skeleton(h.body, out)
            if s.orelse:
                out.append('tryelse'); skeleton(s.orelse, out)
            if s.finalbody:
                out.append('finally'); skeleton(s.finalbody, out)
            out.append('endtry')
        elif isinstance(s, ast.Assert):
            out.append('assert ' + ast.unparse(s.test))
        elif isinstance(s, (ast.Return, ast.Assign, ast.AugAssign, ast.Expr, ast.Raise, ast.Pass)):
            out.append(ast.unparse(s))
        else:
            raise TranslateError(f'locks.py: statement kind not understood: {type(s).__name__}')
    return out


def method(tree, cls, name):
    body = tree.body if cls is None else find_class(tree, cls).body
    fn = find_func(body, name)
    if fn.decorator_list:
        raise TranslateError(f'{cls}.{name}: decorators not understood')
    return fn


def coq_str(s):
    if any(ord(c) > 126 or ord(c) < 32 for c in s):
        raise TranslateError('non-printable character in skeleton')
    return '"' + s.replace('"', '""') + '"%string'


CMP = {ast.Eq: 'Nat.eqb c {k}', ast.NotEq: 'negb (Nat.eqb c {k})', ast.Lt: 'Nat.ltb c {k}',
       ast.LtE: 'Nat.leb c {k}', ast.Gt: 'Nat.ltb {k} c', ast.GtE: 'Nat.leb {k} c'}


def counter_test(fn, what):
    """the unique `if self._counter <op> <int>` of a LightSwitch method"""
    found = []
    for n in ast.walk(fn):
        if isinstance(n, ast.If) and isinstance(n.test, ast.Compare) \
                and ast.unparse(n.test.left) == 'self._counter':
            found.append(n.test)
    if len(found) != 1:
        raise TranslateError(f'{what}: expected exactly one comparison of self._counter')
    t = found[0]
    if len(t.ops) != 1 or type(t.ops[0]) not in CMP:
        raise TranslateError(f'{what}: comparison not understood')
    k = const_eval(t.comparators[0], {})
    if not isinstance(k, int) or isinstance(k, bool) or k < 0:
        raise TranslateError(f'{what}: comparand not a natural')
    return CMP[type(t.ops[0])].format(k=k)


def emit():
    t = parse('locks.py')
    lines = [HEADER.format(src='locks.py')]
    skels = {}
    for cls, name in METHODS:
        skels[(cls, name)] = skeleton(method(t, cls, name).body, [ast.unparse(method(t, cls, name).args)])
    # nothing else of substance may be defined in the lock classes
    for cls in ('LightSwitch', 'RWLock', '_BaseLock', '_ReadLock', '_WriteLock'):
        c = find_class(t, cls)
        for n in c.body:
            if is_doc(n):
                continue
            if not isinstance(n, ast.FunctionDef):
                raise TranslateError(f'{cls}: unexpected class-level statement')
            if (cls, n.name) not in skels:
                if n.name in ('__enter__', '__exit__'):
                    sk = skeleton(n.body, [])
                    ok = sk in (['self.acquire()', 'return self'], ['self.release()'])
                    if not ok:
                        raise TranslateError(f'{cls}.{n.name}: context-manager method not standard')
                else:
                    raise TranslateError(f'{cls}.{n.name}: method not modelled')
    acq = method(t, 'LightSwitch', 'acquire')
    rel = method(t, 'LightSwitch', 'release')
    lines.append(f'Definition ls_first_test (c : nat) : bool := {counter_test(acq, "LightSwitch.acquire")}.')
    lines.append(f'Definition ls_last_test (c : nat) : bool := {counter_test(rel, "LightSwitch.release")}.')
    # increment / decrement / reset of the counter
    aug = [ast.unparse(n) for n in ast.walk(acq) if isinstance(n, ast.AugAssign)]
    if aug != ['self._counter += 1']:
        raise TranslateError('LightSwitch.acquire: counter increment not understood')
    aug = [ast.unparse(n) for n in ast.walk(rel) if isinstance(n, ast.AugAssign)]
    if aug != ['self._counter -= 1']:
        raise TranslateError('LightSwitch.release: counter decrement not understood')
    resets = [n for n in ast.walk(acq) if isinstance(n, ast.Assign)
              and [ast.unparse(x) for x in n.targets] == ['self._counter']]
    if len(resets) > 1:
        raise TranslateError('LightSwitch.acquire: more than one counter reset')
    if resets:
        r = const_eval(resets[0].value, {})
        if not isinstance(r, int) or isinstance(r, bool) or r < 0:
            raise TranslateError('LightSwitch.acquire: reset value not a natural')
        lines.append(f'Definition ls_fail_reset : option nat := Some {r}.')
    else:
        lines.append('Definition ls_fail_reset : option nat := None.')
    # downgrade branch of _WriteLock.release
    wr = method(t, '_WriteLock', 'release')
    ifs = [n for n in wr.body if isinstance(n, ast.If) and ast.unparse(n.test) == 'state.read > 0']
    if len(ifs) != 1:
        raise TranslateError('_WriteLock.release: downgrade branch not found')
    dg = [x for x in skeleton(ifs[0].body, []) if not x.startswith('assert ')]
    fixed = ['self._block_writers.release()', 'self._read_switch.acquire()',
             'self._block_readers.release()', 'return']
    legacy_c = None
    if dg == fixed:
        style = True
    elif (len(dg) == 5 and dg[0] == 'with self._read_switch._mutex' and dg[2:] ==
          ['endwith', 'self._block_readers.release()', 'return']
          and dg[1].startswith('self._read_switch._counter = ')):
        style = False
        try:
            legacy_c = int(dg[1].split('=')[1])
        except ValueError:
            raise TranslateError('_WriteLock.release: downgrade counter value not understood')
    else:
        raise TranslateError('_WriteLock.release: downgrade path is neither of the two understood shapes: ' + repr(dg))
    lines.append(f'Definition downgrade_fixed : bool := {coq_bool(style)}.')
    lines.append(f'Definition legacy_downgrade_counter : nat := {legacy_c if legacy_c is not None else 1}.')
    # skeletons and digests
    lines.append('Definition method_digests : list (string * string) := [')
    rows = []
    for cls, name in METHODS:
        d = hashlib.sha256('\n'.join(skels[(cls, name)]).encode()).hexdigest()[:24]
        rows.append(f'  ({coq_str((cls + "." if cls else "") + name)}, {coq_str(d)})')
    lines.append(';\n'.join(rows) + '].')
    for cls, name in METHODS:
        ident = ('skel_' + (cls or 'module') + '_' + name).replace('__', '_').replace('__', '_')
        lines.append(f'Definition {ident} : list string := [')
        lines.append(';\n'.join('  ' + coq_str(x) for x in skels[(cls, name)]) + '].')
    return '\n'.join(lines) + '\n'
