"""fat_consistency(volume_bytes): the complete structural check of the extracted Coq specification
reader (Fat/Check.v wf_problems), for harnesses that only have the bytes of a volume.
The list-based reader costs ~3 s per MB, so bigger volumes are sampled."""
import lib, fatspec
_R = None
_calls = 0


def fat_consistency(volume_bytes, force=False):
    global _R, _calls
    _calls += 1
    n = len(volume_bytes)
    if force:
        if n > 1_500_000:
            return None
    elif n > 600_000 or (n > 60_000 and _calls % 25) or (n <= 60_000 and _calls % 3):
        return None
    if _R is None:
        _R = lib.Runner('Fat')
    probs = fatspec.spec_wf(_R, bytes(volume_bytes))
    return probs or None
