"""C15, second sentence, at record level: the extracted Coq micro-step model coq/FatCrash (every
path operation of FatVol as the ordered list of its elementary stores, every _clean_entries()
spelled out record by record: micro_x) against the REAL operation traced line by line
(harness/fattrace.py: every intermediate image).

For every seeded operation on a small synthesised FAT12/16/32 volume
  model:  runner 'FatCrash', command "micro" -> the states the operation goes through (before
          the first store, after every store) and FatVol's step result;
  real:   the operation runs under fattrace.Tracer; the image before it and EVERY intermediate
          image (one per executed source line that changed a byte) is read back by the extracted
          SPECIFICATION reader (runner 'Fat': abs / fat -- never through nobodd) to a record-level
          state: FAT values (first copy; entries 0 and 1 -- media byte and dirty flags -- masked),
          FSInfo pair, and per REACHABLE directory (keyed by first cluster) the '.' / '..' cluster
          fields (0 when the record is not there) and every decoded entry (name, alias, attr, size,
          first cluster, long-name records, slot).
Comparison (stated precisely): let R be the traced states with consecutive repetitions removed
and M the model's states.  R[0] = M[0], R[last] = M[last], and R is a SUBSEQUENCE of M (each
traced state is found, in order, among the model's states at or after the previous match).
The model may be finer than the tracer (several stores in one source line; ghost steps MReg /
MForget; zeroing of clusters and stores to records behind the end marker, which change no
record-level state), never coarser: a state the implementation goes through that the model does
not list, or lists in another order, is reported as `fs.crash/order:<op>`.
Outcome classes and the final state are compared as in fat_vol_corr (the model state is threaded
through the history, so dead slots are the model's); the last model state must be FatVol's step
state (micro_x_refines_step, evaluated)."""
import time, warnings
import lib, fatimg, fatspec, fatops, fattrace
import fat_vol_corr as FV

SPEC_THEOREMS = {
    'micro_refines_step / micro_x_refines_step': 'folding all micro-steps of an operation (also with compactions spelled out) gives exactly the '
                                                 'state of FatVol.step -- every operation, every outcome, no hypothesis needed',
    'bystanders_intact': 'at EVERY prefix of the micro-step list of an operation on a state with VolInv (guards of FatVol): every look-up key '
                         '(long name in any case, alias) that resolved to an entry the operation does not name -- file or directory -- resolves to '
                         'the IDENTICAL entry; the chain of such a file is the same list of clusters, each FAT entry of it has its value, and none '
                         "of its clusters was stored to (set / freed / re-linked) or zeroed by the prefix; '.' / '..' change only in the directory "
                         'created / removed / moved',
    'bystander_paths_resolve': 'a path none of whose components selects an entry the operation names resolves to the same entry at every prefix',
    'prefix_inv_weak': 'at every prefix: a FAT entry that differs from the start was free, belongs to a chain the operation frees / rewrites, or is '
                       'the re-linked (never free) last cluster of the directory that receives the new entry; all other owners\' chains are '
                       'unchanged, well-formed and pairwise disjoint -- "inconsistent only in the target"',
    'dir_chains_readable': 'the chain of every directory (but the one rmdir removes) keeps its old chain as a prefix at every crash point',
    'clean_last / clean_view_bound / bystanders_intact_x': '_clean_entries() record by record ends in the compacted directory; after ANY store in '
                                                          'between every entry of the directory is listed in full or under its 8.3 name only '
                                                          '(possibly twice) with its attributes, size, first cluster, and nothing else is listed; '
                                                          'every prefix state of micro_x is a prefix state of micro or one with one directory in '
                                                          'such a view.  (So: during a compaction a look-up by LONG name can transiently fail.)',
    'FC_rename_* / FC_append_on_dead_slots / FC_compaction_*': 'non-vacuity by vm_compute: rename over a 3-cluster file with every intermediate '
                                                               'state, the theorems applied to it; the short-name-first append; the views of a '
                                                               'compaction incl. the one where a long name is hidden',
}
TRUSTED = [
    'Coq 8.16.1 kernel; vm_compute only in the Examples',
    'extraction (ExtrOcamlBasic), runner/driver.ml, OCaml',
    'abstraction as FatVol: directory records as decoded entries + dead slots, cluster data and timestamps ignored, str.upper() as a table',
    'compaction model: the long-name records of an entry are recognised by its alias (on disk: the 8-bit checksum of the 8.3 name, assumed not to '
    'collide between two entries of one directory)',
    'harness/fattrace.py: a crash point is a point between two executed source lines of fs.py / path.py',
    'the specification reader Fat/Spec.v + Fat/Check.v (validated in C03) reads every intermediate image',
    'harness/fatimg.py image synthesis',
]

LENIENT_COMPACTION = False      # True: accept any state inside a compaction that satisfies clean_window_ok (debugging aid only)
KIND = {12: 'MView', 0: 'MInfo', 1: 'MTbl', 2: 'MZero', 3: 'MZeroTail', 4: 'MUpd', 5: 'MDel', 6: 'MTail', 7: 'MClean', 8: 'MReg', 9: 'MDot',
        10: 'MDotDot', 11: 'MForget'}


def show_step(st):
    out = [KIND.get(st[0], st[0])]
    for x in st[1:]:
        if isinstance(x, (bytes, bytearray, lib.U)):
            out.append(lib.as_text(x))
        elif isinstance(x, list):
            out.append(['dead' if not it else lib.as_text(it[0]) for it in x])
        else:
            out.append(x)
    return out


# ------------------------------------------------------------------ an intermediate image, read tolerantly
def loose_state(RF, img, g):
    """(fat values, info, {dir id: (dot, dotdot, [(name, alias, attr, size, cluster, nlfn, slot)])}) of the REACHABLE part;
    unlike fat_vol_corr.real_state a directory may lack its dot records and may be named by two entries"""
    import struct
    geom, root = fatspec.spec_abs(RF, img)
    if root is None:
        return 'the specification reader cannot read the volume'
    tbl = RF.res('fat', [bytes(img), 0])
    if tbl[0] != 'ok':
        return 'the specification reader cannot read the FAT'
    info = None
    if g.fat_type == 'fat32' and g.fsinfo:
        o = g.info_sector * g.bps
        if img[o:o + 4] == b'RRaA' and img[o + 484:o + 488] == b'rrAa' and img[o + 508:o + 512] == b'\0\0\x55\xaa':
            fc, la = struct.unpack_from('<II', img, o + 488)
            info = (la, fc)
    dirs = {}
    def go(n, ident, depth):
        if ident in dirs or depth > 40:
            return
        dot = dotdot = 0
        for d in n.get('dots', []):
            if d['sfn'] == '.' and d['off'] == 0 and ident != 0:
                dot = d['cluster']
            elif d['sfn'] == '..' and d['off'] == 1 and ident != 0:
                dotdot = d['cluster']
            else:
                raise ValueError(f"directory {ident}: dot record {d['sfn']!r} at slot {d['off']}")
        dirs[ident] = (dot, dotdot, [(k['name'], k['sfn'], k['attr'], k['size'], k['cluster'], k['nlfn'], k['off']) for k in n['children']])
        for k in n['children']:
            if k['kind'] == 'dir':
                go(k, k['cluster'], depth + 1)
    try:
        go(root, 0, 0)
    except ValueError as e:
        return str(e)
    return list(tbl[1]), info, dirs


def canon(state, mask):
    """hashable form; FAT entries 0 and 1 (media byte, clean/dirty flags) are not part of the comparison.  A sub-directory without
    dot records and without entries (its zeroed cluster just became reachable: mkdir between the parent entry and '.') is not
    distinguished from one that is not reachable yet: the model's ghost step MReg comes after the whole group is stored, the 8.3
    record of a long-named directory can be decoded one store earlier (see store_steps)"""
    tbl, info, dirs = state
    t = list(tbl)
    t[0:2] = mask
    return (tuple(t), tuple(info) if info else None,
            tuple((i, dirs[i][0] if i else 0, dirs[i][1] if i else 0, tuple(tuple(e) for e in dirs[i][2])) for i in sorted(dirs)
                  if i == 0 or dirs[i][0] or dirs[i][1] or dirs[i][2]))


def uncanon(c):
    return list(c[0]), c[1], {i: (d, dd, [tuple(e) for e in ents]) for i, d, dd, ents in c[2]}


def clean_window_ok(real, before, ident):
    """while _clean_entries() moves the records of directory `ident` one by one: nothing else changes, every entry of the
    directory is still decoded (at least under its 8.3 name) with its attr / size / first cluster, and nothing foreign appears"""
    rt, ri, rd = real
    bt, bi, bd = before
    if rt != bt or ri != bi or sorted(rd) != sorted(bd):
        return 'the FAT, the FSInfo pair or the set of directories changed'
    for i in bd:
        if i != ident and rd[i] != bd[i]:
            return f'directory {i} changed'
    if rd[ident][:2] != bd[ident][:2]:
        return 'dot records changed'
    want = {e[1]: (e[2], e[3], e[4]) for e in bd[ident][2]}
    have = {}
    for e in rd[ident][2]:
        if e[1] not in want or want[e[1]] != (e[2], e[3], e[4]):
            return f'a foreign or changed entry {e} is decoded'
        have[e[1]] = have.get(e[1], 0) + 1
    for a in want:
        if a not in have:
            return f'the entry with alias {a!r} is not decoded'
        if have[a] > 2:
            return f'the entry with alias {a!r} is decoded {have[a]} times'
    return None


def dedupe(seq):
    out = []
    for x in seq:
        if not out or out[-1] != x:
            out.append(x)
    return out


# ------------------------------------------------------------------ one volume
class Traced:
    def __init__(self, ctx, g, rng, populated, table):
        self.p = FV.Pair(ctx, g, rng, populated, table)
        self.ctx, self.g = ctx, g
        self.RC = ctx.runner('FatCrash')
        self.p.close()
        self.tr = fattrace.Tracer(self.p.img)
        self.p.fs = self.tr.open_fs()
        self.images = 0
        self.cache = {}

    def close(self):
        self.p.close()

    def read(self, img):
        import hashlib
        key = hashlib.blake2b(img, digest_size=16).digest()
        if key not in self.cache:
            if len(self.cache) > 400:
                self.cache.clear()
            self.cache[key] = loose_state(self.p.RF, img, self.g)
        return self.cache[key]

    def step(self, op, sig, expect=None):
        """one operation: model micro-steps, traced real operation, the comparison.  False after a report"""
        p, ctx = self.p, self.ctx
        jop = {k: (len(v) if isinstance(v, (bytes, bytearray)) else v) for k, v in op.items() if not k.startswith('_')}
        p.history.append(jop)
        replay = lambda **kw: dict(p.replay(), **kw)
        before = bytes(p.img)
        out = self.RC.call('micro', [p.params, p.mstate[0], p.mstate[1], p.table, [FV.model_op(op)]])
        mres = lib.Runner.unres(out[0])
        mout = 'ok' if mres[0] == 'ok' else FV.EXN.get(mres[1], mres[1])
        mstates = [FV.unwire_state(FV.restr(v)) for v in out[1]]
        steps = [show_step(s) for s in out[2]]
        ctx.stat('crash-model-stores', len(steps))
        ctx.stat('crash-compaction-views', sum(1 for st in steps if st[0] == 'MView'))
        ctx.stat('crash-short-name-first-appends', sum(1 for a, b in zip(steps, steps[1:]) if a[0] == 'MTail' and b[0] == 'MTail'))
        final = FV.restr(out[3])
        res, events = self.tr.run(lambda: fatops.apply_impl(p.fs, op))
        got = res[1] if res[0] == 'ok' else fatops.exc_class(res[1])
        ctx.stat('crash-op-' + op['op'] + ('-ok' if got == 'ok' else '-' + str(got)))
        if got != mout:
            ctx.violation(f'{sig}/outcome:{op["op"]}', f'{jop}: the implementation gave {got}, the model {mout}', replay())
            return False
        r0 = self.read(before)
        if isinstance(r0, str):
            ctx.violation(f'{sig}/unreadable', f'before {jop}: {r0}', replay())
            return False
        mask = r0[0][0:2]
        real = [canon(r0, mask)]
        pokes = [e for e in events if e[0] == 'poke']
        self.images += len(pokes)
        for k, ev in enumerate(pokes):
            r = self.read(ev[3])
            if isinstance(r, str):
                ctx.violation(f'{sig}/unreadable-intermediate', f'{jop}: intermediate image {k + 1}/{len(pokes)}: {r}', replay(step=k))
                return False
            real.append(canon(r, mask))
        R = dedupe(real)
        M = [canon(m, mask) for m in mstates]
        Md = dedupe(M)
        ctx.stat('crash-traced-images', len(pokes))
        ctx.stat('crash-distinct-real-states', len(R))
        ctx.stat('crash-distinct-model-states', len(Md))
        self.last = dict(real=len(R), model=len(Md), steps=len(steps))
        # refinement, evaluated: the last micro state is FatVol's step state
        if canon(FV.unwire_state(final), mask) != M[-1]:
            ctx.violation(f'{sig}/micro-vs-step:{op["op"]}', f'{jop}: folding the micro-steps does not give the state of FatVol.step', replay(steps=steps))
            return False
        j = 0
        for i, r in enumerate(R):
            k = j
            while k < len(M) and M[k] != r:
                k += 1
            if k == len(M) and LENIENT_COMPACTION and j < len(steps) and steps[j][0] == 'MClean' and clean_window_ok(uncanon(r), uncanon(M[j]), steps[j][1]) is None:
                ctx.stat('crash-states-inside-compaction')        # _clean_entries moves record by record: bound checked, see clean_window_ok
                continue
            if k == len(M):
                d = FV.state_diff(uncanon(r), uncanon(M[min(j, len(M) - 1)]))
                where = 'the state before the operation' if i == 0 else f'distinct traced state #{i} of {len(R) - 1}'
                ctx.violation(f'fs.crash/order:{op["op"]}',
                              f'{jop} ({got}): {where} is not among the model\'s micro-step states at or after model state #{j} '
                              f'(of {len(M) - 1}); against that model state: {d}; model stores: {steps}', replay(traced_state=i, model_state=j, steps=steps))
                return False
            j = k
        if R[-1] != M[-1]:
            d = FV.state_diff(uncanon(R[-1]), uncanon(M[-1]))
            ctx.violation(f'fs.crash/final:{op["op"]}', f'{jop} ({got}): the last traced state is not the model\'s last state: {d}; model stores: {steps}',
                          replay(steps=steps))
            return False
        p.mstate = final
        if got == 'ok':
            p.ok_ops += 1
        if expect is None and got != 'ENOSPC':
            fatops.apply_model(p.tree, op)
        else:
            r = FV.real_state(p.RF, p.img, self.g)
            if not isinstance(r, str):
                p.tree = FV.rebuild_tree(r[3])
        return True


def scripts(g):
    """FV's corner-case scripts plus crash-order specific ones"""
    cs = g.cs
    W = lambda path, n, via='open': dict(op='write', path=path, data=b'\x5a' * n, via=via)
    MK, RM, UN, T = (lambda p: dict(op='mkdir', path=p)), (lambda p: dict(op='rmdir', path=p)), \
                    (lambda p: dict(op='unlink', path=p)), (lambda p: dict(op='touch', path=p))
    R = lambda a, b: dict(op='rename', path=a, target=b)
    TR = lambda p, n: dict(op='truncate', path=p, size=n, buffering=0)
    if g.root_entries == 16:
        L = lambda k: f'/long file name number {k}.txt'          # 3 slots each
        yield 'compaction-lfn', [
            T('/x'), T(L(1)), T(L(2)), T(L(3)), T(L(4)), T('/yy'), T('/z'),          # 15 slots + the end record: full
            UN('/x'), T('/another long name here.txt'),                             # every group moves down by ONE slot (copies overlap)
            UN(L(2)), UN('/yy'), MK('/a directory with a long name'),                # groups move by 3 and by 4 slots
            UN(L(1)), UN(L(3)), T('/q'), T('/r'), T('/s'), T('/t'), T('/u'), T('/v'), T('/w'), UN('/r'), UN('/t'),
            R('/q', '/a long target name for q.bin'), T('/one more long name that fails.txt')]
        return
    yield 'rename-over-3-clusters', [
        W('/a.txt', 5), W('/big file with a long name.bin', 2 * cs + 7), W('/c.txt', cs), MK('/d'), W('/d/x', 3),
        R('/c.txt', '/big file with a long name.bin'), R('/big file with a long name.bin', '/d/moved over.bin'), R('/d', '/e'), R('/e', '/a.txt'),
        R('/a.txt', '/e/x'), R('/e/x', '/e/X'), UN('/e/moved over.bin'), RM('/e'), UN('/e/x'), RM('/e')]
    yield 'sessions', [
        W('/f', 3 * cs + 1), TR('/f', cs), TR('/f', 3 * cs), TR('/f', 0), dict(op='append', path='/f', data=b'q' * (cs + 1)),
        dict(op='seekwrite', path='/f', pos=4 * cs + 2, data=b'zz', buffering=0), W('/f', 0), W('/f', 1, 'bytes'), W('/g', 2 * cs, 'exclusive'),
        W('/g', 1, 'exclusive'), T('/g'), T('/h'), TR('/h', 2 * cs + 1), TR('/nothing', 1), UN('/f'), UN('/g'), UN('/h')]
    yield 'tail-slots', [
        W('/keep', 1), W('/a long name taking three slots.txt', 2), W('/another long name of four slots in all.dat', 3),
        UN('/another long name of four slots in all.dat'), UN('/a long name taking three slots.txt'),
        W('/new long name landing on dead slots.bin', 4), MK('/dir with a long name landing on them too'),
        UN('/new long name landing on dead slots.bin'), RM('/dir with a long name landing on them too'), T('/short'), MK('/sub'),
        W('/sub/first long name inside the sub directory', 1), UN('/sub/first long name inside the sub directory'),
        R('/keep', '/sub/a renamed long name inside the sub directory'), T('/sub/s'),
        W('/zz long trailing name.bin', 1), UN('/zz long trailing name.bin'), MK('/a long named directory on dead slots'),
        T('/a long named directory on dead slots/inside')]
    for label, ops in FV.scripts(g):
        if label in ('rename-targets', 'directory-into-its-own-subtree', 'rmdir-cases', 'slots-and-growth', 'volume-full', 'root-full'):
            yield label, ops


def run_script(ctx, rng, table, g, label, ops, totals):
    t = Traced(ctx, g, rng, False, table)
    t.p.unguarded = True
    try:
        for op in ops:
            ok = t.step(op, 'fs.crash/script:' + label, op.get('_expect'))
            ctx.case((g.fat_type, g.spc, label, len(t.p.history)), ok and t.last['real'] >= 3, 'crash-script-' + label)
            if not ok:
                return False
    finally:
        totals['images'] += t.images
        t.close()
    return True


def run_history(ctx, rng, table, nops, populated, totals):
    g = FV.geometry(rng, roomy=True)
    t = Traced(ctx, g, rng, populated, table)
    try:
        for i in range(nops):
            op = fatops.gen_op(rng, t.p.tree, g.cs, sessions=False)
            ok = t.step(op, 'fs.crash/history')
            ctx.case((repr(t.p.history),), ok and t.last['real'] >= 3, 'crash-' + g.fat_type)
            if not ok:
                return False
    finally:
        totals['images'] += t.images
        t.close()
    return True


def run(ctx):
    rng = ctx.rng
    table = FV.upper_table()
    totals = dict(images=0)
    t0 = time.time()
    combos = [('fat12', 1), ('fat16', 2), ('fat32', 1)] if not ctx.thorough else [(ft, spc) for ft in ('fat12', 'fat16', 'fat32') for spc in (1, 2)]
    own = ('rename-over-3-clusters', 'sessions', 'tail-slots')
    for n, (ft, spc) in enumerate(combos):
        g = fatimg.Geometry(ft, 40, spc=spc, bps=512, nfats=2, root_entries=32, fsinfo=True, type_string=True)
        for label, ops in scripts(g):
            if not ctx.thorough and label not in own and hash((label, ft)) % 1 == 0 and \
                    label not in (('rename-targets', 'root-full'), ('directory-into-its-own-subtree', 'slots-and-growth'), ('rmdir-cases', 'volume-full'))[n % 3]:
                continue
            if not run_script(ctx, rng, table, g, label, ops, totals):
                return
    for ft in ('fat12', 'fat16'):
        g = fatimg.Geometry(ft, 40, spc=1, bps=512, nfats=2, root_entries=16, fsinfo=True, type_string=True)
        for label, ops in scripts(g):
            if not run_script(ctx, rng, table, g, label, ops, totals):
                return
    for i in range(12 if ctx.thorough else 2):
        if not run_history(ctx, rng, table, 40 if ctx.thorough else 14, populated=(i % 2 == 0), totals=totals):
            return
    ctx.extra['crash_intermediate_images'] = totals['images']
    ctx.extra['crash_seconds'] = round(time.time() - t0, 1)
