"""Gen/Copy.v: the arithmetic and control skeleton of nobodd/transfer.py.

Everything the Coq model of copy_bytes depends on is read from the AST: the
buffer size, the fast-path comparison, and for each of the four loops the
guard, the size expression of the read, the decrement and whether the loop
breaks on an empty read.  Statement shapes are compared with the canonical
forms below; anything else raises TranslateError (fail closed)."""
import ast
from translate import *

NAME = 'Copy'


def expr(node, names):
    """python int expression over `names` -> Coq N expression (truncated subtraction:
    the model keeps `length` in N; it never goes below zero while reads return at most
    the requested size)"""
    if isinstance(node, ast.Constant) and isinstance(node.value, int) and not isinstance(node.value, bool):
        return coq_N(node.value)
    if isinstance(node, ast.Name):
        if node.id in names:
            return names[node.id]
        raise TranslateError(f'unexpected name {node.id}')
    if isinstance(node, ast.Call) and isinstance(node.func, ast.Name):
        if node.func.id == 'min' and len(node.args) == 2 and not node.keywords:
            return f'(N.min {expr(node.args[0], names)} {expr(node.args[1], names)})'
        if node.func.id == 'len' and len(node.args) == 1 and not node.keywords:
            key = 'len(' + ast.unparse(node.args[0]) + ')'
            if key in names:
                return names[key]
    if isinstance(node, ast.BinOp):
        a, b = expr(node.left, names), expr(node.right, names)
        if isinstance(node.op, ast.Sub):
            return f'({a} - {b})'
        if isinstance(node.op, ast.Add):
            return f'({a} + {b})'
        if isinstance(node.op, ast.Mult):
            return f'({a} * {b})'
    raise TranslateError(f'expression not understood: {ast.unparse(node)}')


def cond(node, names):
    if isinstance(node, ast.Compare) and len(node.ops) == 1:
        a, b = expr(node.left, names), expr(node.comparators[0], names)
        op = node.ops[0]
        if isinstance(op, ast.Gt):
            return f'({b} <? {a})'
        if isinstance(op, ast.Lt):
            return f'({a} <? {b})'
        if isinstance(op, ast.GtE):
            return f'({b} <=? {a})'
        if isinstance(op, ast.LtE):
            return f'({a} <=? {b})'
        if isinstance(op, ast.Eq):
            return f'({a} =? {b})'
        if isinstance(op, ast.NotEq):
            return f'(negb ({a} =? {b}))'
    raise TranslateError(f'condition not understood: {ast.unparse(node)}')


def is_break_if_not(stmt, var):
    return (isinstance(stmt, ast.If) and not stmt.orelse and len(stmt.body) == 1
            and isinstance(stmt.body[0], ast.Break)
            and ast.unparse(stmt.test) == f'not {var}')


def split_none_bounded(fn, what):
    """body of _copy_*: `if length is None: <while True loop> else: <while guard loop>`"""
    if len(fn.body) != 1 or not isinstance(fn.body[0], ast.If):
        raise TranslateError(f'{what}: expected a single if/else')
    top = fn.body[0]
    if ast.unparse(top.test) != 'length is None':
        raise TranslateError(f'{what}: unexpected test {ast.unparse(top.test)}')
    if len(top.body) != 1 or len(top.orelse) != 1 or \
            not isinstance(top.body[0], ast.While) or not isinstance(top.orelse[0], ast.While):
        raise TranslateError(f'{what}: expected one while loop per branch')
    wn, wb = top.body[0], top.orelse[0]
    if ast.unparse(wn.test) != 'True' or wn.orelse or wb.orelse:
        raise TranslateError(f'{what}: unexpected loop header')
    return wn, wb


def opt_break(body, i, var):
    if i < len(body) and is_break_if_not(body[i], var):
        return True, i + 1
    return False, i


def emit():
    t = parse('transfer.py')
    env = module_consts(t)
    if not isinstance(env.get('COPY_BUFSIZE'), int):
        raise TranslateError('COPY_BUFSIZE is not an integer constant')
    L = [HEADER.format(src='transfer.py'), 'Open Scope N_scope.']
    L.append(f'Definition COPY_BUFSIZE : N := {coq_N(env["COPY_BUFSIZE"])}.')
    base = {'COPY_BUFSIZE': 'COPY_BUFSIZE', 'length': 'length'}

    # ---------------- copy_bytes ---------------------------------------------------------
    cb = find_func(t.body, 'copy_bytes')
    a = cb.args
    if [x.arg for x in a.args] != ['source', 'target'] or [x.arg for x in a.kwonlyargs] != ['byterange'] \
            or a.vararg or a.kwarg or ast.unparse(a.kw_defaults[0]) != 'None':
        raise TranslateError('copy_bytes: unexpected signature')
    body = [s for s in cb.body if not (isinstance(s, ast.Expr) and isinstance(s.value, ast.Constant))]
    if len(body) != 4:
        raise TranslateError('copy_bytes: expected range set-up, fast path, write=, try/except/else')
    rng, fast, wr, tr = body
    want_rng = ("if byterange is not None:\n    if byterange.step != 1:\n        raise ValueError('step in byterange must be 1')\n"
                "    source.seek(byterange.start)\n    length = len(byterange)\nelse:\n    length = None")
    if ast.unparse(rng) != want_rng:
        raise TranslateError('copy_bytes: range set-up differs from the modelled form')
    L.append('Definition step_must_be_one : bool := true.')
    if not (isinstance(fast, ast.If) and not fast.orelse and isinstance(fast.test, ast.BoolOp)
            and isinstance(fast.test.op, ast.And) and len(fast.test.values) == 2
            and ast.unparse(fast.test.values[0]) == 'length is not None'
            and [ast.unparse(s) for s in fast.body] == ['target.write(source.read(length))', 'return']):
        raise TranslateError('copy_bytes: fast path differs from the modelled form')
    L.append(f'Definition fast_path (length : N) : bool := {cond(fast.test.values[1], base)}.')
    if ast.unparse(wr) != 'write = target.write':
        raise TranslateError('copy_bytes: expected write = target.write')
    want_try = ("try:\n    readinto = source.readinto\nexcept AttributeError:\n    _copy_read_write(source.read, write, length)\n"
                "else:\n    _copy_readinto_write(readinto, write, length)")
    if ast.unparse(tr) != want_try:
        raise TranslateError('copy_bytes: loop dispatch differs from the modelled form')
    L.append('Definition dispatch_prefers_readinto : bool := true.')

    # ---------------- _copy_read_write ---------------------------------------------------
    rw = find_func(t.body, '_copy_read_write')
    if [x.arg for x in rw.args.args] != ['read', 'write', 'length']:
        raise TranslateError('_copy_read_write: signature')
    wn, wb = split_none_bounded(rw, '_copy_read_write')
    # None loop: buf = read(SIZE); [if not buf: break]; write(buf)
    b = wn.body
    if not (len(b) >= 2 and isinstance(b[0], ast.Assign) and ast.unparse(b[0].targets[0]) == 'buf'
            and isinstance(b[0].value, ast.Call) and ast.unparse(b[0].value.func) == 'read'
            and len(b[0].value.args) == 1 and not b[0].value.keywords):
        raise TranslateError('_copy_read_write/None: expected buf = read(SIZE)')
    L.append(f'Definition rw_none_size : N := {expr(b[0].value.args[0], {"COPY_BUFSIZE": "COPY_BUFSIZE"})}.')
    brk, i = opt_break(b, 1, 'buf')
    if [ast.unparse(s) for s in b[i:]] != ['write(buf)']:
        raise TranslateError('_copy_read_write/None: unexpected loop body')
    L.append(f'Definition rw_none_break_on_empty : bool := {coq_bool(brk)}.')
    # bounded loop: buf = read(SIZE); [if not buf: break]; length -= len(buf); write(buf)
    L.append(f'Definition rw_guard (length : N) : bool := {cond(wb.test, base)}.')
    b = wb.body
    if not (len(b) >= 3 and isinstance(b[0], ast.Assign) and ast.unparse(b[0].targets[0]) == 'buf'
            and isinstance(b[0].value, ast.Call) and ast.unparse(b[0].value.func) == 'read'
            and len(b[0].value.args) == 1 and not b[0].value.keywords):
        raise TranslateError('_copy_read_write/bounded: expected buf = read(SIZE)')
    L.append(f'Definition rw_size (length : N) : N := {expr(b[0].value.args[0], base)}.')
    brk, i = opt_break(b, 1, 'buf')
    rest = b[i:]
    kinds = sorted(ast.unparse(s) if not isinstance(s, ast.AugAssign) else 'DEC' for s in rest)
    decs = [s for s in rest if isinstance(s, ast.AugAssign)]
    if kinds != ['DEC', 'write(buf)'] or ast.unparse(decs[0].target) != 'length' or not isinstance(decs[0].op, ast.Sub):
        raise TranslateError('_copy_read_write/bounded: unexpected loop body (need length -= ..., write(buf))')
    nxt = expr(ast.BinOp(ast.Name('length'), ast.Sub(), decs[0].value), {**base, 'len(buf)': 'n'})
    L.append(f'Definition rw_next (length n : N) : N := {nxt}.')
    L.append(f'Definition rw_break_on_empty : bool := {coq_bool(brk)}.')

    # ---------------- _copy_readinto_write -------------------------------------------------
    ri = find_func(t.body, '_copy_readinto_write')
    if [x.arg for x in ri.args.args] != ['readinto', 'write', 'length']:
        raise TranslateError('_copy_readinto_write: signature')
    if len(ri.body) != 1 or not isinstance(ri.body[0], ast.With) or len(ri.body[0].items) != 1:
        raise TranslateError('_copy_readinto_write: expected one with-block')
    w = ri.body[0]
    item = w.items[0]
    ce = item.context_expr
    if not (ast.unparse(item.optional_vars) == 'buf' and isinstance(ce, ast.Call) and ast.unparse(ce.func) == 'memoryview'
            and len(ce.args) == 1 and isinstance(ce.args[0], ast.Call) and ast.unparse(ce.args[0].func) == 'bytearray'
            and len(ce.args[0].args) == 1):
        raise TranslateError('_copy_readinto_write: expected memoryview(bytearray(SIZE)) as buf')
    L.append(f'Definition ri_alloc : N := {expr(ce.args[0].args[0], {"COPY_BUFSIZE": "COPY_BUFSIZE"})}.')
    fake = ast.FunctionDef(name='x', body=w.body)
    wn, wb = split_none_bounded(fake, '_copy_readinto_write')
    # None loop: n = readinto(buf); [if not n: break]; with buf[:n] as read_buf: write(read_buf)
    b = wn.body
    WR = 'with buf[:n] as read_buf:\n    write(read_buf)'
    if not (len(b) >= 2 and ast.unparse(b[0]) == 'n = readinto(buf)'):
        raise TranslateError('_copy_readinto_write/None: expected n = readinto(buf)')
    brk, i = opt_break(b, 1, 'n')
    if [ast.unparse(s) for s in b[i:]] != [WR]:
        raise TranslateError('_copy_readinto_write/None: unexpected loop body')
    L.append(f'Definition ri_none_break_on_empty : bool := {coq_bool(brk)}.')
    # bounded loop
    L.append(f'Definition ri_guard (length : N) : bool := {cond(wb.test, base)}.')
    b = wb.body
    rd = b[0] if b else None
    if not (isinstance(rd, ast.With) and len(rd.items) == 1 and ast.unparse(rd.items[0].optional_vars) == 'read_buf'
            and isinstance(rd.items[0].context_expr, ast.Subscript)
            and ast.unparse(rd.items[0].context_expr.value) == 'buf'
            and isinstance(rd.items[0].context_expr.slice, ast.Slice)
            and rd.items[0].context_expr.slice.lower is None and rd.items[0].context_expr.slice.step is None
            and rd.items[0].context_expr.slice.upper is not None
            and [ast.unparse(s) for s in rd.body] == ['n = readinto(read_buf)']):
        raise TranslateError('_copy_readinto_write/bounded: expected with buf[:SIZE] as read_buf: n = readinto(read_buf)')
    L.append(f'Definition ri_size (length : N) : N := {expr(rd.items[0].context_expr.slice.upper, base)}.')
    brk, i = opt_break(b, 1, 'n')
    rest = b[i:]
    kinds = sorted(ast.unparse(s) if not isinstance(s, ast.AugAssign) else 'DEC' for s in rest)
    decs = [s for s in rest if isinstance(s, ast.AugAssign)]
    if kinds != ['DEC', WR] or ast.unparse(decs[0].target) != 'length' or not isinstance(decs[0].op, ast.Sub):
        raise TranslateError('_copy_readinto_write/bounded: unexpected loop body (need write of buf[:n], length -= ...)')
    nxt = expr(ast.BinOp(ast.Name('length'), ast.Sub(), decs[0].value), {**base, 'n': 'n'})
    L.append(f'Definition ri_next (length n : N) : N := {nxt}.')
    L.append(f'Definition ri_break_on_empty : bool := {coq_bool(brk)}.')
    # ---------------- sh._image_re: which command-line words name something inside an image ----------
    sh = parse('sh.py')
    rx = None
    for n in sh.body:
        if isinstance(n, ast.Assign) and ast.unparse(n.targets[0]) == '_image_re':
            rx = n.value
    if not (isinstance(rx, ast.Call) and ast.unparse(rx.func) == 're.compile' and len(rx.args) == 1 and not rx.keywords
            and isinstance(rx.args[0], ast.Constant) and isinstance(rx.args[0].value, str)):
        raise TranslateError('sh._image_re is not re.compile(<one string literal>) without flags')
    text = rx.args[0].value
    L.append(f'Definition sh_image_re_text : list N := {coq_bytes(text)}.')
    standard = (text == '^(?P<image>.*?):(?P<part>[1-9][0-9]{,2})?(?P<path>/.*)$')
    L.append(f'Definition sh_image_re_standard : bool := {coq_bool(standard)}.')
    gp = ast.unparse(find_func(sh.body, 'get_paths'))
    uses = ("(match := _image_re.match(path)) is None" in gp and "int(match['part'] or -1)" in gp
            and "match['image']" in gp and "match['path']" in gp)
    L.append(f'Definition sh_get_paths_uses_image_re : bool := {coq_bool(uses)}.')
    return '\n'.join(L) + '\n'
