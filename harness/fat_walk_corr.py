"""FatPath resolution with '.' / '..' components: the real FatPath._resolve against the extracted FatVol model
(walkd: the dot entries stored in each sub-directory answer for '.' and '..') and against the stack walk over the
plain tree (the statement of resolved_refines, evaluated on every probe).  Volumes are grown by short histories that
prefer directories, so that dotted paths have somewhere to go."""
import lib, fatimg, fatops, fat_vol_corr

SPEC_THEOREMS = {
    'resolved_refines': 'full (volume in VolInv, components that cannot be mistaken for a generated 8.3 alias): _resolve over the on-disk '
                        'records, dot entries included = Spec.twalkd over abs_tree with a stack of the directories passed; "." stays, '
                        '".." pops, at the root neither exists; error class NotADirectory on both sides',
    'resolved_confined': 'full: whatever a path spells, what it reaches is a node of the tree of THIS volume (reach (abs_tree s))',
    'twalkd_dot / twalkd_dotdot': 'lexical normalisation below the root: "." is skipped, "x/.." cancels when x names a directory',
    'walkd_walk': 'without dot components walkd is the walk the path operations of FatVol use',
}
TRUSTED = ['harness/fat_walk_corr.py (dotted path generator; FatPath._resolve observed through _index / _entry)']


def run(ctx):
    rng = ctx.rng
    table = fat_vol_corr.upper_table()
    n = 10 if ctx.thorough else 4
    for i in range(n):
        g = fat_vol_corr.geometry(rng, roomy=True)
        p = fat_vol_corr.Pair(ctx, g, rng, populated=(i % 2 == 1), table=table)
        try:
            good = True
            dirs = ['']
            for k in range(14 if ctx.thorough else 9):
                base = rng.choice(dirs)
                if k < 5 or rng.random() < 0.5:
                    name = rng.choice(['sub', 'Deep Dir', 'x.d', 'UPPER', 'straße', 'a b']) + str(k)
                    op = dict(op='mkdir', path=base + '/' + name)
                    dirs.append(base + '/' + name)
                else:
                    op = dict(op='write', path=base + '/' + rng.choice(['f.txt', 'Long file name.bin', 'G']) + str(k), data=b'q' * rng.choice([0, 3, g.cs + 1]), via='bytes')
                if not p.step(op, 'fs.walk/history'):
                    good = False
                    break
            if good:
                fat_vol_corr.probe_resolution(p, 'fs.walk', 60 if ctx.thorough else 30)
        finally:
            p.close()
            ctx.case((g.fat_type, i), True, 'walk-' + g.fat_type)
