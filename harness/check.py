#!/usr/bin/env python3
import sys, os, argparse, importlib, json, time, traceback
sys.path.insert(0, os.path.dirname(os.path.abspath(__file__)))
import lib


def main():
    ap = argparse.ArgumentParser()
    ap.add_argument('prop')
    ap.add_argument('--tier', default=os.environ.get('VERIF_TIER', 'quick'), choices=['quick', 'thorough'])
    ap.add_argument('--replay')
    a = ap.parse_args()
    prop = a.prop.upper()
    seed = int(os.environ.get('VERIF_SEED', '0') or 0)
    mod = importlib.import_module('props.' + prop.lower())
    ctx = lib.Ctx(prop, a.tier, seed)
    if a.replay:
        with open(a.replay) as f:
            obj = json.load(f)
        if hasattr(mod, 'replay'):
            ok = mod.replay(ctx, obj)
            ctx.close()
            print('replay:', 'property holds on this input' if ok else 'FAILS')
            sys.exit(0 if ok else 1)
        print(json.dumps(obj, indent=1)[:4000])
        sys.exit(0)

    infra = None
    try:
        build = lib.build_props(prop)
    except Exception as exc:
        build = dict(ok=False, obligations=1, discharged=0, failed='build: ' + str(exc)[:300],
                     log=traceback.format_exc(), assumptions={}, translate_errors={},
                     checker_cmd='make (failed)')
    ctx.widen = not build['ok']
    budget = int(os.environ.get('VERIF_CHECK_BUDGET', '1500' if a.tier == 'quick' else '5400'))
    try:
        with lib.time_limit(budget, f'the whole {prop} check'):
            mod.run(ctx, build)
    except lib.Hang as exc:
        ctx.violation('check/did-not-terminate', f'{exc} (an implementation call or the check itself hangs on this tree)',
                      dict(note=str(exc), last_samples=ctx.samples[-2:]))
    except lib.BuildError as exc:
        infra = f'model runner / correspondence machinery broke: {exc}'
    except Exception:
        infra = 'harness exception:\n' + traceback.format_exc()
    finally:
        ctx.close()
    if infra is None and ctx.model_unavailable:
        infra = 'model runner / correspondence machinery broke: ' + ctx.model_unavailable
    spec = getattr(mod, 'SPEC', {})
    lib.write_evidence(ctx, build, spec)

    for sig, what in ctx.known_hits:
        print(f'KNOWN-FINDING: property={prop} {sig}: {what}')
    rc = 0
    if ctx.violations:
        seen = set()
        for sig, what, replay in ctx.violations:
            if sig in seen:
                continue
            seen.add(sig)
            path = lib.write_replay(ctx, 'input', dict(property=prop, signature=sig, what=what,
                                                        replay=replay, rerun=f'./check {prop} --replay <this file>'))
            print(f'# {what}')
            print(f'VIOLATION property={prop} replay={path}')
        rc = 1
    elif not build['ok']:
        path = lib.write_replay(ctx, 'proof', dict(
            property=prop, broken_obligation=build.get('failed'),
            translator_errors=build.get('translate_errors'), log=build.get('log', '')[-4000:],
            note='a proof obligation / generated definition no longer checks against the '
                 'current source; the widened search found no concrete failing input'))
        print(f'# proof obligation broken: {build.get("failed")}')
        print(f'VIOLATION property={prop} replay={path} no-failing-input-found')
        rc = 1
    elif infra:
        path = lib.write_replay(ctx, 'corr', dict(property=prop, broken='correspondence', detail=infra[-4000:]))
        print('# ' + infra.splitlines()[0])
        print(f'VIOLATION property={prop} replay={path} no-failing-input-found')
        rc = 1
    print(f'{prop} {a.tier}: proofs {build["discharged"]}/{build["obligations"]}, '
          f'{ctx.evaluations} correspondence cases, {len(ctx.violations)} violations, '
          f'{time.time() - ctx.t0:.1f}s')
    sys.exit(rc)


if __name__ == '__main__':
    main()
