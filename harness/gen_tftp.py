"""Gen/Tftp.v: constants of tftp.py and decision expressions of tftpd.py."""
import ast
from translate import *

NAME = 'Tftp'


def enum_members(cls):
    out = {}
    for n in cls.body:
        if isinstance(n, ast.Assign) and isinstance(n.targets[0], ast.Name):
            out[n.targets[0].id] = const_eval(n.value, {})
    return out


def range_check(init, var):
    """find `if not LO <= self.<var> <= HI: raise ValueError` and return (LO, HI)"""
    for n in ast.walk(init):
        if isinstance(n, ast.If) and isinstance(n.test, ast.UnaryOp) and isinstance(n.test.op, ast.Not):
            c = n.test.operand
            if isinstance(c, ast.Compare) and len(c.ops) == 2 and all(isinstance(o, ast.LtE) for o in c.ops) \
                    and ast.unparse(c.comparators[0]) == f'self.{var}':
                if not (len(n.body) == 1 and isinstance(n.body[0], ast.Raise)
                        and ast.unparse(n.body[0].exc).startswith('ValueError')):
                    raise TranslateError('range check does not raise ValueError')
                return const_eval(c.left, {}), const_eval(c.comparators[1], {})
    raise TranslateError(f'no range check on {var}')


def emit():
    t = parse('tftp.py')
    env = module_consts(t)
    L = [HEADER.format(src='tftp.py, tftpd.py')]
    L.append('Open Scope N_scope.')
    for k in ('TFTP_MIN_BLKSIZE', 'TFTP_DEF_BLKSIZE', 'TFTP_MAX_BLKSIZE',
              'TFTP_MIN_TIMEOUT_NS', 'TFTP_MAX_TIMEOUT_NS', 'TFTP_DEF_TIMEOUT_NS'):
        L.append(f'Definition {k.lower()} : N := {coq_N(env[k])}.')
    for k in ('TFTP_BLKSIZE', 'TFTP_TIMEOUT', 'TFTP_UTIMEOUT', 'TFTP_TSIZE', 'TFTP_BINARY', 'TFTP_NETASCII'):
        L.append(f'Definition {k.lower()}_name : list N := {coq_bytes(env[k])}.')
    modes = sorted(env['TFTP_MODES'])
    L.append('Definition tftp_modes : list (list N) := [' + '; '.join(coq_bytes(m) for m in modes) + '].')
    opts = sorted(env['TFTP_OPTIONS'])
    L.append('Definition tftp_options : list (list N) := [' + '; '.join(coq_bytes(m) for m in opts) + '].')
    ops = enum_members(find_class(t, 'OpCode'))
    if sorted(ops) != sorted(['RRQ', 'WRQ', 'DATA', 'ACK', 'ERROR', 'OACK']):
        raise TranslateError('OpCode members changed')
    for k, v in ops.items():
        L.append(f'Definition op_{k} : N := {coq_N(v)}.')
    errs = enum_members(find_class(t, 'Error'))
    L.append('Definition error_codes : list N := [' + '; '.join(coq_N(v) for v in errs.values()) + '].')
    for k, v in errs.items():
        L.append(f'Definition err_{k} : N := {coq_N(v)}.')
    # default messages
    init = find_func(find_class(t, 'ERRORPacket').body, '__init__')
    msgs = None
    for n in ast.walk(init):
        if isinstance(n, ast.Dict):
            msgs = [(errs[k.attr], const_eval(v, {})) for k, v in zip(n.keys, n.values)]
    if msgs is None:
        raise TranslateError('no default message table')
    L.append('Definition error_messages : list (N * list N) := [' +
             '; '.join(f'({coq_N(c)}, {coq_bytes(m)})' for c, m in msgs) + '].')
    lo, hi = range_check(find_func(find_class(t, 'DATAPacket').body, '__init__'), 'block')
    L.append(f'Definition data_block_min : N := {coq_N(lo)}.\nDefinition data_block_max : N := {coq_N(hi)}.')
    lo, hi = range_check(find_func(find_class(t, 'ACKPacket').body, '__init__'), 'block')
    L.append(f'Definition ack_block_min : N := {coq_N(lo)}.\nDefinition ack_block_max : N := {coq_N(hi)}.')
    # dispatch table of Packet.from_bytes must map each opcode to its own class
    fb = ast.unparse(find_func(find_class(t, 'Packet').body, 'from_bytes'))
    want = ['OpCode.RRQ: RRQPacket', 'OpCode.WRQ: WRQPacket', 'OpCode.DATA: DATAPacket',
            'OpCode.ACK: ACKPacket', 'OpCode.ERROR: ERRORPacket', 'OpCode.OACK: OACKPacket',
            "struct.unpack_from('!H', s)", 'cls.from_data(s[2:])']
    L.append(f'Definition dispatch_table_standard : bool := {coq_bool(all(w in fb for w in want))}.')
    # the two regular expressions, as written
    rrq = find_class(t, 'RRQPacket')
    src = ast.unparse(rrq)
    res_ok = ("re.compile(b'(?P<name>[\\\\x20-\\\\xFF]+)\\\\0(?P<value>[\\\\x01-\\\\xFF]*)\\\\0')" in src and
              "b'^(?P<filename>[\\\\x20-\\\\xFF]+)\\\\0(?P<mode>[a-zA-Z]+)\\\\0(?P<options>(?:[\\\\x20-\\\\xFF]+\\\\0[\\\\x01-\\\\xFF]*\\\\0)*).*'" in src.replace("' b'", ''))
    L.append(f'Definition regexes_standard : bool := {coq_bool(res_ok)}.')
    oack = ast.unparse(find_class(t, 'OACKPacket'))
    L.append(f'Definition oack_uses_rrq_options_re : bool := {coq_bool("options_re = RRQPacket.options_re" in oack)}.')
    L.extend(emit_tftpd(env))
    return '\n'.join(L) + '\n'


# ---- expression translation for the decision points of tftpd.py -------------------
def coq_expr(node, names, zmode):
    """translate an integer/boolean python expression over the given attribute
    names (dict python-source -> coq variable) into Coq (Z arithmetic if zmode else N)"""
    sc = 'Z' if zmode else 'N'
    src = ast.unparse(node)
    if src in names:
        return names[src]
    if isinstance(node, ast.Constant) and isinstance(node.value, int) and not isinstance(node.value, bool):
        return f'({node.value})%{sc}'
    if isinstance(node, ast.BinOp):
        a, b = coq_expr(node.left, names, zmode), coq_expr(node.right, names, zmode)
        op = {ast.Add: '+', ast.Sub: '-', ast.Mult: '*'}.get(type(node.op))
        if op is None:
            raise TranslateError('operator in ' + src)
        if op == '-' and not zmode:
            raise TranslateError('subtraction over N in ' + src)
        return f'({a} {op} {b})%{sc}'
    if isinstance(node, ast.Compare) and len(node.ops) == 1:
        a, b = coq_expr(node.left, names, zmode), coq_expr(node.comparators[0], names, zmode)
        o = type(node.ops[0])
        if o is ast.Lt: return f'({a} <? {b})%{sc}'
        if o is ast.LtE: return f'({a} <=? {b})%{sc}'
        if o is ast.Gt: return f'({b} <? {a})%{sc}'
        if o is ast.GtE: return f'({b} <=? {a})%{sc}'
        if o is ast.Eq: return f'({a} =? {b})%{sc}'
        raise TranslateError('comparison in ' + src)
    raise TranslateError('expression not understood: ' + src)


def emit_tftpd(env):
    t = parse('tftpd.py')
    L = []
    cs = find_class(t, 'TFTPClientState')
    # finished: `self.last_ack_size is not None and self.last_ack_size < self.block_size`
    fin = find_func(cs.body, 'finished')
    ret = [n for n in fin.body if isinstance(n, ast.Return)]
    if len(ret) != 1 or not isinstance(ret[0].value, ast.BoolOp) or not isinstance(ret[0].value.op, ast.And) \
            or ast.unparse(ret[0].value.values[0]) != 'self.last_ack_size is not None' or len(ret[0].value.values) != 2:
        raise TranslateError('TFTPClientState.finished has an unexpected shape')
    L.append('Definition gen_finished_cmp (s bs : N) : bool := ' +
             coq_expr(ret[0].value.values[1], {'self.last_ack_size': 's', 'self.block_size': 'bs'}, False) + '.')
    # get_block ladder
    gb = find_func(cs.body, 'get_block')
    body = [n for n in gb.body if not (isinstance(n, ast.Expr) and isinstance(n.value, ast.Constant))]
    if not (len(body) == 2 and isinstance(body[0], ast.If) and isinstance(body[1], ast.Try)):
        raise TranslateError('get_block has an unexpected shape')
    L.append('Definition gen_next_block_cmp (r n : N) : bool := ' +
             coq_expr(body[0].test, {'self.blocks_read': 'r', 'block_num': 'n'}, False) + '.')
    b0 = [ast.unparse(x) for x in body[0].body]
    want0 = ["if self.finished:\n    raise TransferDone('transfer completed')",
             'self.blocks[block_num] = self.source.read(self.block_size)',
             'self.blocks_read += 1', 'return self.blocks[block_num]']
    if b0 != want0:
        raise TranslateError('get_block read branch changed: ' + repr(b0))
    h = body[1].handlers
    if not (ast.unparse(body[1].body[0]) == 'return self.blocks[block_num]' and len(h) == 1
            and ast.unparse(h[0].type) == 'KeyError' and isinstance(h[0].body[0], ast.If)):
        raise TranslateError('get_block lookup branch changed')
    iff = h[0].body[0]
    if not (ast.unparse(iff.body[0]).startswith('raise AlreadyAcknowledged') and
            ast.unparse(iff.orelse[0]).startswith('raise ValueError')):
        raise TranslateError('get_block failure branch changed')
    L.append('Definition gen_already_acked_cmp (n r : N) : bool := ' +
             coq_expr(iff.test, {'self.blocks_read': 'r', 'block_num': 'n'}, False) + '.')
    # ack
    ackf = ast.unparse(find_func(cs.body, 'ack').body[-1])
    if ackf != 'with suppress(KeyError):\n    self.last_ack_size = len(self.blocks.pop(block_num))':
        raise TranslateError('ack changed: ' + ackf)
    # service_actions
    sa = find_func(find_class(t, 'TFTPSubServer').body, 'service_actions')
    ifs = [n for n in sa.body if isinstance(n, ast.If)]
    if len(ifs) != 1:
        raise TranslateError('service_actions shape')
    names = {'now': 'now', 'state.last_recv': 'lr', 'state.timeout': 'tmo', 'state.last_send': 'ls'}
    L.append('Definition gen_tick_recv_cmp (now lr tmo : Z) : bool := ' + coq_expr(ifs[0].test, names, True) + '.')
    inner = ifs[0].body[0]
    if not (isinstance(inner, ast.If) and ast.unparse(inner.test) == 'state.last_send is None'
            and len(inner.orelse) == 1 and isinstance(inner.orelse[0], ast.If)):
        raise TranslateError('service_actions ladder shape')
    if 'self.done = True' not in [ast.unparse(x) for x in inner.body]:
        raise TranslateError('service_actions: no-send branch must set done')
    g = inner.orelse[0]
    L.append('Definition gen_tick_giveup_cmp (ls lr tmo : Z) : bool := ' + coq_expr(g.test, names, True) + '.')
    if 'self.done = True' not in [ast.unparse(x) for x in g.body]:
        raise TranslateError('service_actions: give-up branch must set done')
    if not (len(g.orelse) == 1 and isinstance(g.orelse[0], ast.If) and not g.orelse[0].orelse):
        raise TranslateError('service_actions resend branch shape')
    rs = g.orelse[0]
    L.append('Definition gen_tick_resend_cmp (now ls tmo : Z) : bool := ' + coq_expr(rs.test, names, True) + '.')
    rb = [ast.unparse(x) for x in rs.body]
    if rb != ['for block, data in state.blocks.items():\n    packet = DATAPacket(block, data)\n    self.socket.sendto(bytes(packet), state.address)',
              'state.last_send = time_ns()']:
        raise TranslateError('service_actions resend body changed: ' + repr(rb))
    # poll interval used for the transfer threads and the reaper
    add = ast.unparse(find_func(find_class(t, 'TFTPSubServers').body, 'add'))
    m = re.search(r"'poll_interval': ([0-9.]+)", add)
    if not m:
        raise TranslateError('poll_interval not found')
    L.append(f'Definition poll_interval_ms : N := {coq_N(int(round(float(m.group(1)) * 1000)))}.')
    # TFTPClientState defaults and open mode
    init = ast.unparse(find_func(cs.body, '__init__'))
    L.append(f'Definition client_open_mode_rb : bool := {coq_bool("self.source = path.open(" + repr("rb") + ")" in init)}.')
    ok = all(x in init for x in ('self.block_size = TFTP_DEF_BLKSIZE', 'self.timeout = TFTP_DEF_TIMEOUT_NS',
                                 'self.last_ack_size = None', 'self.blocks_read = 0', 'self.blocks = {}',
                                 'self.last_send = None', 'self.started = self.last_recv = time_ns()'))
    L.append(f'Definition client_state_defaults_standard : bool := {coq_bool(ok)}.')
    # every transfer on a port of its own: the sub-server binds (host, 0) WITHOUT address / port reuse (with SO_REUSEADDR
    # the kernel may hand out, for an ephemeral UDP bind, a port another reusing socket already holds)
    sub = find_class(t, 'TFTPSubServer')
    attrs = class_consts(sub) if 'class_consts' in globals() else {}
    reuse = False
    for n in sub.body:
        if isinstance(n, ast.Assign) and any(ast.unparse(x) in ('allow_reuse_address', 'allow_reuse_port') for x in n.targets):
            if not (isinstance(n.value, ast.Constant) and n.value.value is False):
                reuse = True
    sinit = ast.unparse(find_func(sub.body, '__init__'))
    eph = 'address = (host, 0) + tuple(suffix)' in sinit and 'super().__init__(address, TFTPSubHandler)' in sinit
    L.append(f'Definition subserver_binds_private_port : bool := {coq_bool(eph and not reuse)}.')
    # canonical forms of the control-flow-heavy methods that are modelled by hand
    import hashlib
    def canon(cls, fn):
        f = find_func(find_class(t, cls).body, fn)
        body = [n for n in f.body if not (isinstance(n, ast.Expr) and isinstance(n.value, ast.Constant) and isinstance(n.value.value, str))]
        # drop logging calls: they do not affect behaviour
        class Strip(ast.NodeTransformer):
            def visit_Expr(self, node):
                if isinstance(node.value, ast.Call) and 'logger.' in ast.unparse(node.value.func):
                    return ast.Pass()
                return node
        txt = '\n'.join(ast.unparse(Strip().visit(n)) for n in body)
        return hashlib.sha256(txt.encode()).hexdigest()[:16]
    # the reply buffer is per handler object: no class-level wfile / rfile, setup() creates them
    th = find_class(t, 'TFTPHandler')
    shared = any(isinstance(n, (ast.Assign, ast.AnnAssign)) and any(ast.unparse(x) in ('wfile', 'rfile', 'packet')
                 for x in (n.targets if isinstance(n, ast.Assign) else [n.target])) for n in th.body)
    L.append(f'Definition handler_buffers_per_request : bool := {coq_bool(not shared)}.')
    for cls, fn in (('TFTPClientState', 'negotiate'), ('TFTPHandler', 'setup'), ('TFTPHandler', 'handle'), ('TFTPHandler', 'finish'),
                    ('TFTPBaseHandler', 'do_RRQ'), ('TFTPBaseHandler', 'do_ERROR'),
                    ('TFTPSubHandler', 'handle'), ('TFTPSubHandler', 'finish'), ('TFTPSubHandler', 'do_ACK'),
                    ('TFTPSubHandler', 'do_ERROR'), ('TFTPSubServers', 'add'), ('TFTPSubServers', '_remove'),
                    ('TFTPSubServers', 'run'), ('TFTPSubServers', 'close'), ('TFTPBaseServer', 'server_close')):
        L.append(f'Definition canon_{cls}_{fn} : string := "{canon(cls, fn)}"%string.')
    return L
