"""Correspondence of nobodd.fs.Fat12Table / Fat16Table / Fat32Table (and FatTable.chain,
FatClusters.__getitem__) against the extracted Coq model coq/FatTable (runner `FatTable`).

The real classes are built directly over a bytearray; after every operation the whole
buffer, the exception class and (FAT32) the FSInfo sector are compared with the model.
Use: `fat_table_corr.run(ctx)` from a property check (all randomness from ctx.rng)."""
import lib

SPEC_THEOREMS = {
    'get_spec': 'full: get = entry n of Fat.Spec.decode12/16/32 for every byte table and every n in range '
                '(get12_spec/get16_spec/get32_spec; odd/even and byte-straddling entries inside the forall)',
    'get_index_error': 'full: outside the range (n + n/2 + 2 > len | 2n+2 > len | 4n+4 > len) the result is IndexError; '
                       'in_range_iff: the range is exactly n < number of decoded entries',
    'set_outcome': 'full: ValueError iff value above the width maximum, else IndexError iff n out of range, else Ok',
    'set_decode': 'full: decoded table after set = decoded table before with entry n replaced by v',
    'set_get_same': 'full: get t\' n = Ok v',
    'set_get_other': 'full: every j <> n reads as before (FAT12 nibble-sharing neighbour included; '
                     'out-of-range stays IndexError); set32_top_bits: reserved top nibble of entry n preserved',
    'set_length': 'full', 'set_bytes_bounded': 'full',
    'set_all_copies': 'full: equal copies -> outcome of the single-copy set replicated in every copy',
    'set_all12_from_copy0': 'full (copies of equal length): every copy receives the word computed from copy 0; '
                            'refuted strong form for unequal copies shown by Example set_all12_unequal_copies_clobber '
                            '/ set_all32_unequal_copies_top',
    'mark_end_terminates': 'full: after mark_end c, chain from a valid c is [c]',
    'chain_within_valid': 'full: every yielded cluster is within [min_valid, max_valid]',
    'alloc_dealloc_count': 'partial: needs all reserved top nibbles of copy 0 clear (top_clear); then along any sequence '
                           'of sets the recorded free count = number of entries reading 0, with NO side condition on the '
                           'count range; refuted without top_clear (count_wrong_with_reserved_bits*), and a wrong '
                           'recorded count is clamped, not offset-preserved (count_offset_not_preserved, count_unknown_stays)',
    'clusters_get_ok': 'full: bounds 2 <= c < len//cs + 2, slice offset (c-2)*cs, length cs, inside the buffer',
}
TRUSTED = [
    'struct.unpack_from/pack_into("<H"), memoryview.cast("H"/"I") item access on a little-endian host: modelled, '
    'checked by this correspondence',
    'struct.error -> IndexError conversion in Fat12Table; IndexError of memoryview indexing',
    'copies of equal length (len(mem) a multiple of fat_size, a multiple of the item size); negative indices not modelled',
    'FAT32InfoSector.from_buffer/to_buffer (field offsets come from Gen.Fat via the translator)',
    'RWLock acquisition inside the accessors is not modelled (see the Locks area)',
    'extraction (ExtrOcamlBasic) + runner/driver.ml',
]

BITS = (12, 16, 32)
MAXV = {12: 0xFFF, 16: 0xFFFF, 32: 0x0FFFFFFF}
SIG_OK = (b'RRaA', b'rrAa', b'\x00\x00U\xaa')


def _exc(e):
    return type(e).__name__


def _nentries(bits, fat_size):
    return {12: fat_size * 2 // 3, 16: fat_size // 2, 32: fat_size // 4}[bits]


def _rand_table(rng, bits, fat_size):
    """one copy: random bytes, with runs of free entries and (FAT32) mostly clear top nibbles"""
    style = rng.choice(['random', 'sparse', 'sparse', 'zero', 'ff'])
    if style == 'random':
        b = bytearray(rng.randrange(256) for _ in range(fat_size))
    elif style == 'zero':
        b = bytearray(fat_size)
    elif style == 'ff':
        b = bytearray(b'\xff' * fat_size)
    else:
        b = bytearray(fat_size)
        for i in range(fat_size):
            if rng.random() < 0.35:
                b[i] = rng.randrange(256)
    if bits == 32 and rng.random() < 0.7:
        for i in range(3, fat_size, 4):
            b[i] &= 0x0F
    return b


def _pick_n(rng, nent):
    c = rng.randrange(10)
    if c == 0: return 0
    if c == 1: return 1
    if c == 2: return max(nent - 1, 0)
    if c == 3: return nent
    if c == 4: return nent + 1
    if c == 5: return nent + rng.randrange(2, 3 * nent + 50)
    return rng.randrange(nent) if nent else 0


def _pick_v(rng, bits):
    m = MAXV[bits]
    c = rng.randrange(12)
    if c == 0: return 0
    if c == 1: return m
    if c == 2: return m + 1
    if c == 3: return -1
    if c == 4: return rng.choice([1 << 32, (1 << 32) - 1, 1 << 40, m + 2, 2 * m + 1])
    if c == 5: return 1
    if c == 6: return m - 15          # max_valid
    return rng.randrange(m + 1)


def _build(fs, fat, bits, buf, fat_size, info_buf):
    cls = {12: fs.Fat12Table, 16: fs.Fat16Table, 32: fs.Fat32Table}[bits]
    if bits == 32 and info_buf is not None:
        return cls(fs.RWLock(), memoryview(buf), fat_size, memoryview(info_buf))
    return cls(fs.RWLock(), memoryview(buf), fat_size)


def _info_sector(fat, rng, free, last, valid):
    sigs = list(SIG_OK)
    if not valid:
        k = rng.randrange(3)
        sigs[k] = bytes(rng.randrange(256) for _ in range(4))
        if sigs[k] == SIG_OK[k]:
            sigs[k] = b'xxxx'
    r1 = bytes(rng.randrange(256) for _ in range(480))
    r2 = bytes(rng.randrange(256) for _ in range(12))
    s = fat.FAT32InfoSector(sig1=sigs[0], reserved1=r1, sig2=sigs[1], free_clusters=free,
                            last_alloc=last, reserved2=r2, sig3=sigs[2])
    return bytearray(bytes(s))


def _make_chain_table(rng, bits, nent, cls):
    """entries forming a few chains: proper end, free, out-of-range link, cycle"""
    vals = [rng.choice([0, cls.end_mark, rng.randrange(MAXV[bits] + 1)]) for _ in range(nent)]
    ids = list(range(2, nent))
    rng.shuffle(ids)
    k = 0
    while k < len(ids):
        ln = rng.randrange(1, 9)
        seg = ids[k:k + ln]; k += ln
        for a, b in zip(seg, seg[1:]):
            vals[a] = b
        vals[seg[-1]] = rng.choice([cls.end_mark, cls.end_mark, 0, 1, seg[0], rng.choice(seg), nent + rng.randrange(5),
                                    cls.max_valid, cls.max_valid + 1, cls.end_mark - 7])
    return vals


def _encode(bits, vals, fat_size):
    b = bytearray(fat_size)
    for n, v in enumerate(vals):
        if bits == 12:
            off = n + (n >> 1)
            if off + 2 > fat_size:
                break
            w = b[off] | (b[off + 1] << 8)
            w = ((v << 4) | (w & 0xF)) if n % 2 else (v | (w & 0xF000))
            b[off] = w & 0xFF; b[off + 1] = w >> 8
        elif bits == 16:
            b[2 * n:2 * n + 2] = v.to_bytes(2, 'little')
        else:
            b[4 * n:4 * n + 4] = v.to_bytes(4, 'little')
    return b


def run(ctx, cases=None):
    import nobodd.fs as fs
    import nobodd.fat as fat
    rng = ctx.rng
    R = ctx.runner('FatTable')
    target = cases or (12000 if ctx.thorough else 3000)
    recs = []       # (cmd, arg, real_outcome, signature, description, replay)

    def rec(cmd, arg, real, sig, what, replay):
        recs.append((cmd, arg, real, sig, what, replay))

    nscen = 0
    while len(recs) < target:
        nscen += 1
        bits = rng.choice(BITS)
        unit = {12: 1, 16: 2, 32: 4}[bits]
        big = rng.random() < 0.06
        fat_size = unit * (rng.choice([128, 512, 1024]) if big else rng.randrange(1, 41 if bits == 12 else 21))
        nfats = rng.choice([1, 1, 2, 2, 3, 3, 3, 0] if rng.random() < 0.15 else [1, 2, 3])
        nent = _nentries(bits, fat_size)
        cls = {12: fs.Fat12Table, 16: fs.Fat16Table, 32: fs.Fat32Table}[bits]
        mode = rng.choice(['equal', 'equal', 'unequal', 'perturbed', 'chain'])
        if mode == 'chain':
            c0 = _encode(bits, _make_chain_table(rng, bits, nent, cls), fat_size)
        else:
            c0 = _rand_table(rng, bits, fat_size)
        buf = bytearray()
        for k in range(nfats):
            if k == 0 or mode in ('equal', 'chain'):
                c = bytearray(c0)
            elif mode == 'unequal':
                c = _rand_table(rng, bits, fat_size)
            else:
                c = bytearray(c0)
                c[rng.randrange(fat_size)] ^= 1 << rng.randrange(8)
            buf += c
        # FSInfo sector (FAT32 only)
        info_buf, info_valid = None, False
        if bits == 32 and rng.random() < 0.85:
            zeros = sum(1 for i in range(nent) if bytes(buf[4 * i:4 * i + 4]) == b'\0\0\0\0') if nfats else 0
            free = rng.choice([zeros, zeros, zeros, 0, 1, nent, nent + 1, max(nent - 1, 0),
                               0xFFFFFFFF, rng.randrange(nent + 3)])
            info_valid = rng.random() < 0.9
            info_buf = _info_sector(fat, rng, free, rng.randrange(1 << 32), info_valid)
        tbl = _build(fs, fat, bits, buf, fat_size, info_buf)
        base = dict(bits=bits, nfats=nfats, fat_size=fat_size, copies=mode)
        nops = rng.randrange(1, 9)
        for _ in range(nops):
            op = rng.choice(['get', 'get_all', 'set', 'set', 'set', 'set', 'mark_free', 'mark_end', 'chain'] +
                            (['chain'] * 8 if mode == 'chain' else []))
            n = _pick_n(rng, nent)
            if bits == 32 and nent and rng.random() < 0.5:
                n = rng.randrange(nent)
            pre = bytes(buf)
            rp = dict(base, op=op, n=n, table=pre)
            if op == 'get':
                try:
                    real = ('ok', tbl[n])
                except Exception as e:
                    real = ('err', _exc(e))
                rec('getitem', (bits, nfats, pre, n), real, 'fs.table/getitem-mismatch',
                    f'Fat{bits}Table[{n}] (fat_size {fat_size}, {nfats} copies)', rp)
            elif op == 'get_all':
                try:
                    real = ('ok', list(tbl.get_all(n)))
                except Exception as e:
                    real = ('err', _exc(e))
                rec('get_all', (bits, nfats, pre, n), real, 'fs.table/get_all-mismatch',
                    f'Fat{bits}Table.get_all({n}) (fat_size {fat_size}, {nfats} copies)', rp)
            elif op == 'chain':
                start = rng.choice([n, 0, 1, cls.max_valid, cls.end_mark] + [rng.randrange(2, nent) if nent > 2 else 2] * 10)
                fuel = nent + 3
                items, stop = [], None
                g = tbl.chain(start)
                try:
                    for _k in range(fuel):
                        items.append(next(g))
                    stop = 'OutOfFuel'
                except StopIteration:
                    stop = ''
                except Exception as e:
                    stop = _exc(e)
                g.close()
                rp = dict(rp, start=start, fuel=fuel)
                ctx.stat('chain-' + ('cycle' if stop == 'OutOfFuel' else 'raises' if stop else
                                     'long' if len(items) >= 2 else 'short'))
                rec('chain', (bits, pre[:fat_size], start, fuel), [items, stop.encode()],
                    'fs.table/chain-mismatch', f'Fat{bits}Table.chain({start})', rp)
            else:
                if op == 'set':
                    v = _pick_v(rng, bits)
                    if rng.random() < 0.25:
                        v = rng.choice([0, 0, cls.end_mark, rng.randrange(2, max(nent, 3))])
                elif op == 'mark_free':
                    v = 0
                else:
                    v = cls.end_mark
                pre_info = bytes(info_buf) if info_buf is not None else None
                old_other = {}
                if n < nent and nfats:
                    for j in (n - 1, n + 1):
                        if 0 <= j < nent:
                            old_other[j] = tbl[j]
                try:
                    if op == 'set':
                        tbl[n] = v
                    elif op == 'mark_free':
                        tbl.mark_free(n)
                    else:
                        tbl.mark_end(n)
                    real = ('ok', bytes(buf))
                except Exception as e:
                    real = ('err', _exc(e))
                    if bytes(buf) != pre:
                        ctx.violation('fs.table/partial-write',
                                      f'Fat{bits}Table[{n}] = {v} raised {_exc(e)} after changing the table',
                                      dict(rp, v=v, after=bytes(buf)))
                rp = dict(rp, v=v)
                what = f'Fat{bits}Table[{n}] = {v} ({op}; fat_size {fat_size}, {nfats} copies {mode})'
                if bits == 32:
                    # model input: FSInfo fields as the object holds them (None when no valid sector)
                    if info_buf is not None and info_valid:
                        s0 = fat.FAT32InfoSector.from_bytes(pre_info)
                        s1 = fat.FAT32InfoSector.from_buffer(info_buf)
                        minfo = (s0.free_clusters, s0.last_alloc)
                        rinfo = [s1.free_clusters, s1.last_alloc]
                        rest_same = (bytes(s1._replace(free_clusters=0, last_alloc=0)) ==
                                     bytes(s0._replace(free_clusters=0, last_alloc=0)))
                    else:
                        minfo, rinfo = None, []
                        rest_same = (pre_info is None) or bytes(info_buf) == pre_info
                    if not rest_same:
                        ctx.violation('fs.table/info-sector-clobbered',
                                      what + ': FSInfo bytes other than the two counters changed',
                                      dict(rp, info_before=pre_info, info_after=bytes(info_buf)))
                    rp = dict(rp, info=minfo)
                    realx = ('ok', [real[1], rinfo]) if real[0] == 'ok' else real
                    if minfo is not None and real[0] == 'ok':
                        ctx.stat('fsinfo-' + ('alloc' if rinfo[0] < minfo[0] else 'dealloc' if rinfo[0] > minfo[0]
                                              else 'unchanged'))
                    if real[0] == 'err' and pre_info is not None and bytes(info_buf) != pre_info:
                        ctx.violation('fs.table/partial-write', what + ': raised after changing the FSInfo sector',
                                      dict(rp, info_before=pre_info, info_after=bytes(info_buf)))
                    rec('set32info', (nfats, pre, n, lib.Zint(v), minfo), realx,
                        'fs.table/set32-mismatch', what, rp)
                    if op != 'set':     # also against the model's own end mark / 0
                        rec(op, (bits, nfats, pre, n), real, f'fs.table/{op}-mismatch', what, rp)
                elif op == 'set':
                    rec('set', (bits, nfats, pre, n, lib.Zint(v)), real, 'fs.table/set-mismatch', what, rp)
                else:
                    rec(op, (bits, nfats, pre, n), real, f'fs.table/{op}-mismatch', what, rp)
                # the property itself, on the implementation (copy 0)
                if real[0] == 'ok' and nfats:
                    got = tbl[n]
                    if got != v:
                        ctx.violation('fs.table/set-get', what + f': reads back {got}', dict(rp, readback=got))
                    for j, o in old_other.items():
                        if tbl[j] != o:
                            ctx.violation('fs.table/set-frame',
                                          what + f': neighbour entry {j} changed from {o} to {tbl[j]}',
                                          dict(rp, neighbour=j, before=o, after=tbl[j]))
                    if mode in ('equal', 'chain') and len(set(tbl.get_all(n))) > 1:
                        ctx.violation('fs.table/copies-diverge', what + f': copies now {tbl.get_all(n)}',
                                      dict(rp, all=list(tbl.get_all(n))))
        tbl.close()

    # FatClusters.__getitem__
    ncl = max(60, target // 25)
    for _ in range(ncl):
        cs = rng.choice([1, 2, 4, 8, 16, 512])
        k = rng.randrange(0, 6)
        mem = bytearray(rng.randrange(256) for _ in range(k * cs + (rng.randrange(cs) if rng.random() < 0.3 else 0)))
        c = rng.choice([0, 1, 2, k + 1, k + 2, k + 3, rng.randrange(0, k + 5)])
        cl = fs.FatClusters(fs.RWLock(), memoryview(mem), cs)
        try:
            real = ('ok', bytes(cl[c]))
        except Exception as e:
            real = ('err', _exc(e))
        cl.close()
        rec('cget', (bytes(mem), cs, c), real, 'fs.clusters/getitem-mismatch',
            f'FatClusters(cs={cs}, {len(mem)} bytes)[{c}]', dict(op='cget', mem=bytes(mem), cs=cs, c=c))

    # ---- model side, batched per command -------------------------------------------------
    by_cmd = {}
    for i, r in enumerate(recs):
        by_cmd.setdefault(r[0], []).append(i)
    for cmd, idx in by_cmd.items():
        replies = R.batch(cmd, [recs[i][1] for i in idx])
        for i, rep in zip(idx, replies):
            _, arg, real, sig, what, rp = recs[i]
            if cmd == 'chain':
                model = [list(rep[0]), bytes(rep[1])]
                ok = (model == real)
            elif cmd == 'set32info':
                model = R.unres(rep)
                if model[0] == 'ok':
                    mi = model[1][1]
                    model = ('ok', [model[1][0], list(mi[0]) if mi else []])
                ok = (model == real)
            else:
                model = R.unres(rep)
                if model[0] == 'ok' and cmd == 'get_all':
                    model = ('ok', list(model[1]))
                ok = (model == real)
            nontriv = not (isinstance(real, tuple) and real[0] == 'err')
            ctx.case((cmd, arg), True, f"{cmd}{rp.get('bits', '')}-{'ok' if nontriv else 'err'}")
            if not ok:
                ctx.stat('model-mismatch')
                ctx.violation(sig, f'{what}: implementation {str(real)[:120]} but model {str(model)[:120]}',
                              dict(rp, impl=real, model=model))
    ctx.stat('fat_table_scenarios', nscen)
    ctx.sample(dict(api='Fat12Table.__setitem__', note='5-byte table, entry 2 straddles the odd tail',
                    table=bytes([0xF8, 0xFF, 0xFF, 0x34, 0x12]), n=1, v=0xABC,
                    expect=bytes([0xF8, 0xCF, 0xAB, 0x34, 0x12])))
    return len(recs)
