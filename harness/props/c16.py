"""C16 -- netascii coding is exact, chunk-independent and works on a real server."""
import codecs, io, itertools, subprocess, sys, os, json, tempfile
import lib

SPEC = {
    'rule': 'exhaustive strings over {CR,LF,NUL,"a",non-ASCII} up to a length bound x 4 error modes x final '
            'flag through netascii.encode/decode; all chunkings through codecs.iterencode/iterdecode/'
            'getwriter/getreader; random contents x read-size sequences through BufferedTranscoder; '
            'fresh-interpreter server. A case is non-trivial when its input contains CR or LF or a non-ASCII unit; '
            'distinct = distinct (api, input, mode, chunking).',
    'trusted_base': [
        'Coq 8.16.1 kernel (no native_compute; vm_compute not used in this cone)',
        'translator harness/translate.py: import closure, codec registration/wiring, transcoder constants',
        'extraction: ExtrOcamlBasic only; runner/driver.ml; OCaml 4.13.1',
        'modelled not verified: CPython codecs machinery (BufferedIncremental*, StreamReader/Writer.read/write), '
        'str.encode/bytes.decode("ascii"), io.RawIOBase.read->readinto, os.linesep == "\\n"',
    ],
    'theorems': {
        'C16_encode_spec': 'full', 'C16_decode_encode': 'full', 'C16_encode_decode_image': 'full',
        'C16_decode_chunk_independent': 'full (exception class may differ between UnicodeError and its subclass)',
        'C16_decoder_holds_back_only_cr': 'full', 'C16_encode_chunk_independent': 'full (ASCII text)',
        'C16_streamwriter_chunk_independent': 'full (ASCII text)', 'C16_error_modes': 'full',
        'C16_transcoder_bounded_exact': 'full', 'C16_transcoder_zero_only_at_end': 'full',
        'C16_transcoder_ascii_total': 'full',
        'C16_netascii_served_by_fresh_server': 'facts regenerated from source (import graph, wiring)',
    },
    'assumptions': ['StreamReader has no end-of-input flag: a CR held back at end of stream is never '
                    'flushed (codecs API limitation, same as CPython built-in stream readers)'],
}

MODES = ['strict', 'ignore', 'replace', 'bogus']


def exc_name(e):
    return type(e).__name__


def impl_call(fn, *a, **k):
    try:
        return ('ok', fn(*a, **k))
    except Exception as e:
        return ('err', exc_name(e))


def chunkings(s):
    n = len(s)
    if n == 0:
        yield []
        yield [s]
        return
    for mask in range(1 << (n - 1)):
        out, cur = [], s[:1]
        for i in range(1, n):
            if mask >> (i - 1) & 1:
                out.append(cur); cur = s[i:i + 1]
            else:
                cur += s[i:i + 1]
        out.append(cur)
        yield out
    # a chunking with empty pieces as well
    yield [s[:0], s, s[:0]]


FRESH_SERVER = r'''
import sys, os, socket, struct, threading, tempfile, json
import nobodd.%(entry)s as entry            # the only nobodd import
import codecs
out = {}
try:
    codecs.lookup('netascii'); out['lookup'] = 'ok'
except LookupError as e:
    out['lookup'] = 'LookupError'
from nobodd.tftpd import SimpleTFTPServer   # already imported transitively by either entry point
content = bytes.fromhex(%(content)r)
with tempfile.TemporaryDirectory() as d:
    with open(os.path.join(d, 'f.txt'), 'wb') as f:
        f.write(content)
    srv = SimpleTFTPServer(('127.0.0.1', 0), d)
    th = threading.Thread(target=srv.serve_forever, kwargs={'poll_interval': 0.01}, daemon=True)
    th.start()
    c = socket.socket(socket.AF_INET, socket.SOCK_DGRAM); c.settimeout(3)
    c.sendto(b'\0\1f.txt\0' + %(mode)r.encode() + b'\0blksize\0' + b'16\0', srv.server_address)
    got, kind = b'', None
    try:
        pkt, peer = c.recvfrom(70000)
        if pkt[:2] == b'\0\6':
            c.sendto(b'\0\4\0\0', peer)
            pkt, peer = c.recvfrom(70000)
        while True:
            op, blk = struct.unpack('!HH', pkt[:4])
            if op == 5:
                kind = 'ERROR:' + pkt[4:-1].decode('ascii', 'replace'); break
            got += pkt[4:]
            c.sendto(struct.pack('!HH', 4, blk), peer)
            if len(pkt) - 4 < 16:
                kind = 'DONE'; break
            pkt, peer = c.recvfrom(70000)
    except socket.timeout:
        kind = 'TIMEOUT'
    out['kind'] = kind; out['got'] = got.hex()
    srv.shutdown(); srv.server_close()
print(json.dumps(out))
'''


def fresh_server(entry, content, mode='netascii'):
    code = FRESH_SERVER % dict(entry=entry, content=content.hex(), mode=mode)
    p = subprocess.run([lib.PY, '-c', code], env=lib.repo_env(), capture_output=True, text=True, timeout=60)
    if p.returncode != 0:
        return {'kind': 'CRASH', 'stderr': p.stderr[-800:]}
    return json.loads(p.stdout.strip().splitlines()[-1])


def spec_encode(b):
    out = bytearray()
    for c in b:
        out += b'\r\n' if c == 10 else b'\r\0' if c == 13 else bytes([c])
    return bytes(out)


def run(ctx, build):
    import nobodd.netascii as na
    from nobodd.tools import BufferedTranscoder
    R = ctx.runner('Netascii')
    L = 7 if ctx.thorough else 5
    LC = 6 if ctx.thorough else 4     # chunking length bound
    if ctx.widen:
        L = max(L, 6)
    alpha_b = [13, 10, 0, 97, 0x80]
    alpha_s = ['\r', '\n', '\0', 'a', 'é']

    # ---- 1. one-shot encode / decode, exhaustive -------------------------------------
    cases = []
    for n in range(L + 1):
        for t in itertools.product(range(5), repeat=n):
            cases.append(t)
    for mi, mode in enumerate(MODES):
        for final in (False, True):
            args_d = [(mi, final, bytes(alpha_b[i] for i in t)) for t in cases]
            args_e = [(mi, final, ''.join(alpha_s[i] for i in t)) for t in cases]
            md = R.batch('decode', args_d)
            me = R.batch('encode', args_e)
            for t, ad, ae, rd, re_ in zip(cases, args_d, args_e, md, me):
                nontriv = any(i in (0, 1, 4) for i in t)
                # decode
                got = impl_call(na.decode, ad[2], mode, final)
                if got[0] == 'ok':
                    got = ('ok', [got[1][0].encode('utf-32-le'), got[1][1]])
                m = R.unres(rd)
                if m[0] == 'ok':
                    m = ('ok', [b''.join(c.to_bytes(4, 'little') for c in m[1][0]), m[1][1]])
                ctx.case(('dec', mode, final, ad[2]), nontriv, 'decode')
                if got != m:
                    ctx.violation('netascii.decode/model-mismatch',
                                  f'netascii.decode({ad[2]!r}, {mode!r}, final={final}) = {got} but model says {m}',
                                  dict(api='decode', data=ad[2], mode=mode, final=final, impl=got, model=m))
                # encode
                got = impl_call(na.encode, ae[2], mode, final)
                if got[0] == 'ok':
                    got = ('ok', [got[1][0], got[1][1]])
                m = R.unres(re_)
                ctx.case(('enc', mode, final, ae[2]), nontriv, 'encode')
                if got != m:
                    ctx.violation('netascii.encode/model-mismatch',
                                  f'netascii.encode({ae[2]!r}, {mode!r}, final={final}) = {got} but model says {m}',
                                  dict(api='encode', data=ae[2], mode=mode, final=final, impl=got, model=m))
                # oracle on the implementation itself (property statement)
                if mode == 'strict' and final and 4 not in t:
                    s = ae[2]
                    e = impl_call(na.encode, s, 'strict', True)
                    want = spec_encode(s.encode('ascii'))
                    if e != ('ok', (want, len(s))):
                        ctx.violation('netascii.encode/spec', f'encode({s!r}) = {e}, specification says {want!r}',
                                      dict(api='encode-spec', data=s, impl=e, expected=want))
                    else:
                        d = impl_call(na.decode, want, 'strict', True)
                        if d != ('ok', (s, len(want))):
                            ctx.violation('netascii.decode/roundtrip', f'decode(encode({s!r})) = {d}',
                                          dict(api='roundtrip', data=s, impl=d))
    ctx.sample(dict(api='decode', data=b'a\r\n\r\0\rb', modes=MODES))

    # ---- 2. chunk independence through the codecs interfaces ----------------------------
    small = [t for t in cases if len(t) <= LC]
    for mi, mode in enumerate(MODES):
        for t in small:
            b = bytes(alpha_b[i] for i in t)
            s = ''.join(alpha_s[i] for i in t)
            one_d = impl_call(lambda: codecs.decode(b, 'netascii', mode))
            one_e = impl_call(lambda: codecs.encode(s, 'netascii', mode))
            chs_b = list(chunkings(b)); chs_s = list(chunkings(s))
            md = R.batch('iterdecode', [(mi, ch) for ch in chs_b])
            me = R.batch('iterencode', [(mi, ch) for ch in chs_s])
            mw = R.batch('swriter', [(mi, ch) for ch in chs_s])
            for ch, r in zip(chs_b, md):
                got = impl_call(lambda: ''.join(codecs.iterdecode(ch, 'netascii', mode)))
                m = R.unres(r)
                if m[0] == 'ok':
                    m = ('ok', lib.as_text(m[1]))
                ctx.case(('iterdec', mode, tuple(ch)), True, 'iterdecode')
                if got != m:
                    ctx.violation('netascii.iterdecode/model-mismatch',
                                  f'iterdecode({ch!r}, {mode!r}) = {got}, model {m}',
                                  dict(api='iterdecode', chunks=ch, mode=mode, impl=got, model=m))
                same = (got == one_d) if got[0] == 'ok' or one_d[0] == 'ok' else True
                if not same:
                    ctx.violation('netascii.iterdecode/chunk-dependence',
                                  f'decoding {b!r} in chunks {ch!r} ({mode}) gives {got}, one-shot gives {one_d}',
                                  dict(api='iterdecode-chunk', chunks=ch, mode=mode, impl=got, oneshot=one_d))
                # stream reader: same text for every chunking of well-formed input
            for ch, r, rw in zip(chs_s, me, mw):
                got = impl_call(lambda: b''.join(codecs.iterencode(ch, 'netascii', mode)))
                m = R.unres(r)
                ctx.case(('iterenc', mode, tuple(ch)), True, 'iterencode')
                if got != m:
                    ctx.violation('netascii.iterencode/model-mismatch',
                                  f'iterencode({ch!r}, {mode!r}) = {got}, model {m}',
                                  dict(api='iterencode', chunks=ch, mode=mode, impl=got, model=m))
                if 4 not in t and got != one_e:
                    ctx.violation('netascii.iterencode/chunk-dependence',
                                  f'encoding {s!r} in chunks {ch!r} gives {got}, one-shot {one_e}',
                                  dict(api='iterencode-chunk', chunks=ch, mode=mode, impl=got, oneshot=one_e))
                def sw():
                    buf = io.BytesIO()
                    w = codecs.getwriter('netascii')(buf, mode)
                    for c in ch:
                        w.write(c)
                    w.flush()
                    return buf.getvalue()
                got = impl_call(sw)
                m = R.unres(rw)
                ctx.case(('swriter', mode, tuple(ch)), True, 'streamwriter')
                if got != m:
                    ctx.violation('netascii.StreamWriter/model-mismatch',
                                  f'StreamWriter chunks {ch!r} ({mode}) = {got}, model {m}',
                                  dict(api='swriter', chunks=ch, mode=mode, impl=got, model=m))
                if 4 not in t and got != one_e:
                    ctx.violation('netascii.StreamWriter/chunk-dependence',
                                  f'StreamWriter {ch!r} gives {got}, one-shot {one_e}',
                                  dict(api='swriter-chunk', chunks=ch, mode=mode, impl=got, oneshot=one_e))
            # StreamReader with different read sizes over well-formed encodings
            if 4 not in t and mode == 'strict':
                enc = spec_encode(s.encode('ascii'))
                for size in (1, 2, 3, -1):
                    def sr():
                        r = codecs.getreader('netascii')(io.BytesIO(enc), mode)
                        out = ''
                        while True:
                            x = r.read(size) if size > 0 else r.read()
                            if not x:
                                break
                            out += x
                            if size < 0:
                                break
                        return out
                    got = impl_call(sr)
                    ctx.case(('sreader', size, enc), True, 'streamreader')
                    if got != ('ok', s):
                        ctx.violation('netascii.StreamReader/roundtrip',
                                      f'StreamReader over {enc!r} with read({size}) gives {got}, expected {s!r}',
                                      dict(api='sreader', data=enc, size=size, impl=got))
    ctx.sample(dict(api='iterdecode', chunks=[b'a\r', b'\n\r', b'\0'], expect='a\n\r'))

    # ---- 3. BufferedTranscoder ---------------------------------------------------------------
    rng = ctx.rng
    ntr = 400 if ctx.thorough else 120
    for k in range(ntr):
        kind = rng.choice(['ascii', 'ascii', 'ascii', 'nonascii', 'big'])
        n = rng.choice([0, 1, 2, 5, 17, 100, 511, 512, 513, 4095, 4096, 4097, 9000]) if kind != 'big' else rng.randrange(8000, 14000)
        content = bytearray(rng.choice([13, 10, 0, 97, 98, 32, 13, 10]) for _ in range(n))
        if kind == 'nonascii' and n:
            content[rng.randrange(n)] = rng.choice([0x80, 0xff, 0xc3])
        content = bytes(content)
        sizes = []
        total = 0
        while total < 2 * len(content) + 20 and len(sizes) < 60:
            sz = rng.choice([1, 2, 3, 7, 8, 16, 512, 513, 1468, 4096, 5000, 65464])
            sizes.append(sz); total += sz
        def impl():
            t = BufferedTranscoder(io.BytesIO(content), 'netascii', 'ascii', errors='replace')
            outs = []
            for sz in sizes:
                buf = bytearray(sz)
                r = t.readinto(buf)
                outs.append(bytes(buf[:r]))
            return outs
        got = impl_call(impl)
        # a few sized reads, then read-to-end (readall): together exactly the encoding -- nothing buffered may be lost
        if all(c < 128 for c in content):
            k = rng.randint(0, min(4, len(sizes)))
            def impl_tail():
                t = BufferedTranscoder(io.BytesIO(content), 'netascii', 'ascii', errors='replace')
                head = [t.read(sz) for sz in sizes[:k]]
                return b''.join(x or b'' for x in head) + (t.read() if rng.random() < 0.5 else t.readall())
            tail = impl_call(impl_tail)
            ctx.stat('transcoder-sized-reads-then-readall')
            if tail != ('ok', spec_encode(content)):
                ctx.violation('BufferedTranscoder/short', f'{k} sized reads {sizes[:k]} followed by a read to the end deliver {str(tail)[:80]}, '
                              f'the encoding is {spec_encode(content)[:40]!r}... ({len(spec_encode(content))} bytes)',
                              dict(api='xreads-then-readall', content=content, sizes=sizes[:k]))
        m = R.res('xreads', (content, sizes))
        ctx.case(('xreads', content, tuple(sizes)), True, 'transcoder-' + kind)
        if got != m:
            ctx.violation('BufferedTranscoder/model-mismatch',
                          f'BufferedTranscoder over {len(content)} bytes: impl {str(got)[:80]} model {str(m)[:80]}',
                          dict(api='xreads', content=content, sizes=sizes, impl=got, model=m))
        # oracle
        if got[0] == 'ok':
            outs = got[1]
            ascii_ok = all(c < 128 for c in content)
            joined = b''.join(outs)
            bad = any(len(o) > sz for o, sz in zip(outs, sizes))
            want = spec_encode(content) if ascii_ok else None
            if bad:
                ctx.violation('BufferedTranscoder/overlong', 'readinto returned more than requested',
                              dict(api='xreads', content=content, sizes=sizes))
            elif ascii_ok and joined != want[:len(joined)]:
                ctx.violation('BufferedTranscoder/corrupt', 'transcoded bytes are not the netascii encoding',
                              dict(api='xreads', content=content, sizes=sizes, impl=joined, expected=want))
            elif ascii_ok and sum(sizes) >= len(want) + 1 and joined != want:
                ctx.violation('BufferedTranscoder/short', 'transcoder ended before delivering the whole encoding',
                              dict(api='xreads', content=content, sizes=sizes, impl=joined, expected=want))
            elif not ascii_ok:
                pre = content[:next(i for i, c in enumerate(content) if c >= 128)]
                if not spec_encode(pre).startswith(joined[:len(spec_encode(pre))]) or len(joined) > len(spec_encode(pre)):
                    ctx.violation('BufferedTranscoder/nonascii-sent', 'bytes derived from non-ASCII content were delivered',
                                  dict(api='xreads', content=content, sizes=sizes, impl=joined))
    ctx.sample(dict(api='BufferedTranscoder', content_len=4097, sizes=[8, 512, 4096]))

    # ---- 4. fresh interpreter, real UDP ----------------------------------------------------------
    files = [b'line1\nline2\r\n\0end', b'x' * 16, b'', b'caf\xc3\xa9\n', b'# caf\xe9 settings\nkey=value\n' + b'z' * 40 + b'\xff\n']
    if ctx.thorough:
        files += [bytes(rng.choice([13, 10, 97]) for _ in range(200))]
    # the mode string is case-insensitive (RFC 1350): a request spelled NETASCII / NetAscii is a netascii request
    spellings = ['netascii', 'NETASCII', 'NetAscii']
    for entry in ('server', 'tftpd'):
        for k, content in enumerate(files):
            mode = spellings[(k + (entry == 'tftpd')) % 3] if not ctx.thorough else ctx.rng.choice(spellings)
            r = fresh_server(entry, content, mode)
            r['mode_spelling'] = mode
            ctx.case(('fresh', entry, content, mode), True, 'fresh-server')
            ctx.stat('fresh-server-mode-' + mode)
            ascii_ok = all(c < 128 for c in content)
            if r.get('lookup') != 'ok':
                ctx.violation('fresh-server/codec-not-registered',
                              f'a process that imported only nobodd.{entry} cannot look up the netascii codec: {r}',
                              dict(api='fresh', entry=entry, content=content, result=r))
            elif ascii_ok and (r.get('kind') != 'DONE' or bytes.fromhex(r.get('got', '')) != spec_encode(content)):
                ctx.violation('fresh-server/netascii-rrq',
                              f'netascii RRQ to a fresh nobodd.{entry} server: {r}, expected {spec_encode(content)!r}',
                              dict(api='fresh', entry=entry, content=content, result=r))
            elif not ascii_ok and not str(r.get('kind', '')).startswith('ERROR'):
                # refused with an ERROR packet, or SUBSTITUTED: every ASCII byte in place, every other byte replaced by
                # exactly one ASCII substitute -- never passed through, never dropped
                got = bytes.fromhex(r.get('got', ''))
                subst_ok = r.get('kind') == 'DONE' and any(
                    got == spec_encode(bytes(c if c < 128 else sub for c in content)) for sub in range(128))
                if not subst_ok:
                    ctx.violation('fresh-server/nonascii-sent', f'non-ASCII content in netascii mode was neither refused nor substituted byte for byte '
                                  f'(sent {got!r} for {content!r}): {r.get("kind")}', dict(api='fresh', entry=entry, content=content, result=r))
    ctx.sample(dict(api='fresh-server', entry='server', rrq='f.txt netascii blksize=16'))


def replay(ctx, obj):
    import nobodd.netascii as na
    r = obj['replay']
    print(json.dumps(r, indent=1)[:3000])
    if r.get('api') == 'fresh':
        res = fresh_server(r['entry'], bytes.fromhex(r['content']['hex']))
        print('now:', res)
        return res.get('lookup') == 'ok' and res.get('kind') in ('DONE',) or False
    return False
