"""C09 -- Every transfer ends and releases its thread, socket and file."""
import json, struct
import lib
from tftpdrv import Session
import realserver

SPEC = {
    'rule': 'virtual-clock schedules: the client falls silent at every point (before/after OACK, after any block, '
            'after the last block), sends ERROR, garbage or restarts, for negotiated timeouts from 10 ms to 255 s; '
            'ticks every poll interval (10 ms from the source) or coarser; retransmission instants, the instant the '
            'transfer is marked done and the registry after a reaper pass are compared with the extracted model; '
            'oracle: unacknowledged DATA re-sent once per timeout interval, abandonment within 6 timeouts + 2 polls, '
            'source closed after reaping. Real threaded server (loopback UDP): thread / fd / registry counts return to '
            'baseline after completed, abandoned, errored and refused requests, and after server_close(). '
            'Non-trivial = scenario reaches a retransmission or an ending; distinct = distinct event list.',
    'trusted_base': [
        'Coq 8.16.1 kernel; theorems closed under the global context',
        'translator gen_tftp.py: the three comparisons of service_actions and the factor 5, poll interval, '
        'canonical hashes of TFTPSubServers.add/_remove/run/close and server_close',
        'runtime residue (real-UDP tier only): thread join, socket close, CPython finalisation of an unreferenced '
        'TFTPClientState of a refused request (released by reference counting, not by code)',
    ],
    'theorems': {},
    'assumptions': ['service_actions runs at least once per poll interval (socketserver.serve_forever contract)'],
}

REAL = r'''
import gc
with tempfile.TemporaryDirectory() as d:
    data = bytes(range(256)) * 40
    open(os.path.join(d, 'f'), 'wb').write(data)
    open(os.path.join(d, 'empty'), 'wb').write(b'')
    os.mkdir(os.path.join(d, 'adir'))
    srv, th = start(d)
    time.sleep(0.1)
    base = dict(threads=threading.active_count(), fds=fds(), alive=len(srv.subs._alive))
    res = {'base': base, 'steps': []}
    def snap(label):
        ok = wait_until(lambda: threading.active_count() <= base['threads'] and len(srv.subs._alive) == 0 and fds() <= base['fds'], 8.0)
        gc.collect()
        res['steps'].append(dict(label=label, back_to_baseline=ok, threads=threading.active_count(), fds=fds(),
                                 alive=len(srv.subs._alive), reaper_alive=srv.subs.is_alive()))
    # 1. completed transfers
    for opts in ([], [(b'blksize', b'64')], [(b'blksize', b'1468'), (b'tsize', b'0')]):
        c = Client(srv.server_address); c.rrq(b'f', b'octet', opts); c.run(); c.close()
    c = Client(srv.server_address); c.rrq(b'empty'); c.run(); c.close()
    snap('completed')
    # 2. abandoned at several points with a 10 ms timeout (gives up after ~6 timeouts)
    for steps in (0, 1, 2, 5):
        c = Client(srv.server_address); c.rrq(b'f', b'octet', [(b'utimeout', b'10000'), (b'blksize', b'64')])
        for _ in range(steps): c.step()
        c.close()
    snap('abandoned')
    # 3. client ERROR, garbage on the transfer port, restart
    c = Client(srv.server_address); c.rrq(b'f', b'octet', [(b'utimeout', b'10000')]); c.step()
    if c.peer: c.s.sendto(b'\0\5\0\0stop\0', c.peer)
    c.close()
    c = Client(srv.server_address); c.rrq(b'f', b'octet', [(b'utimeout', b'10000')]); c.step()
    if c.peer: c.s.sendto(b'garbage', c.peer); c.s.sendto(b'\0\4\0\x63', c.peer)
    c.close()
    snap('error-garbage')
    # 4. refusals at every stage
    for req in (b'\0\1missing\0octet\0', b'\0\1adir\0octet\0', b'\0\1../x\0octet\0', b'\0\2f\0octet\0',
                b'\0\1f\0octet\0blksize\0\x37\0', b'\0\1f\0octet\0timeout\0abc\0', b'\0\1f\0octet\0timeout\0inf\0',
                b'\0\1f\0octet\0utimeout\0\x31\0', b'\0\1f\0mail\0', b'junk'):
        c = Client(srv.server_address, 0.5); c.s.sendto(req, srv.server_address); c.recv(); c.close()
    snap('refused')
    # 4b. churn: many short transfers registered and reaped at the same time from several client threads
    def churn():
        for _ in range(40):
            c = Client(srv.server_address, 1.0); c.rrq(b'empty'); c.run(); c.close()
    cts = [threading.Thread(target=churn) for _ in range(8)]
    for t in cts: t.start()
    for t in cts: t.join(60)
    snap('churn of 320 short transfers from 8 threads')
    # 5. server_close ends transfers in progress
    cs = []
    for i in range(3):
        c = Client(srv.server_address); c.rrq(b'f', b'octet', [(b'blksize', b'8')]); c.step(); c.step(); cs.append(c)
    time.sleep(0.05)
    res['in_progress'] = len(srv.subs._alive)
    srv.shutdown(); srv.server_close()
    th.join(5)
    ok = wait_until(lambda: threading.active_count() <= base['threads'] - 2, 8.0)   # listener + reaper gone too
    res['after_close'] = dict(threads=threading.active_count(), alive=len(srv.subs._alive), reaper_alive=srv.subs.is_alive(),
                              fds=fds(), ok=ok)
    for c in cs: c.close()
print(json.dumps(res))
'''


REAL_BOOT = r'''
import gc, warnings
warnings.simplefilter('ignore')
from pathlib import Path
from nobodd.server import BootServer
from nobodd.config import Board
images = %(images)r
boards = {0x100 + i: Board(0x100 + i, Path(p), 1, None) for i, p in enumerate(images)}
# two more boards served from the FIRST image (same file, same partition): boards may share an image
boards[0x200] = Board(0x200, Path(images[0]), 1, None)
boards[0x201] = Board(0x201, Path(images[0]), 1, None)
fds_before_server = fds()
srv = BootServer(('127.0.0.1', 0), boards)
th = threading.Thread(target=srv.serve_forever, kwargs={'poll_interval': 0.01}, daemon=True)
th.start()
time.sleep(0.1)
# the images are opened (and mapped) on first use: touch every board once before taking the baseline
for serial in sorted(boards):
    c = Client(srv.server_address, 1.0); c.rrq(('%%x/config.txt' %% serial).encode(), b'octet', []); c.run(); c.close()
# one serial in many spellings (leading zeros, upper case, 0x prefix, underscores): still ONE board, one opened volume
spellings = ['%%x' %% 0x100, '%%X' %% 0x100, '0x%%x' %% 0x100, '0X%%X' %% 0x100, '1_00', ' 100', '+100'] + ['0' * k + '100' for k in range(1, 60)]
for sp in spellings:
    c = Client(srv.server_address, 1.0); c.rrq((sp + '/no such file').encode(), b'octet', []); c.recv(); c.close()
wait_until(lambda: len(srv.subs._alive) == 0, 5.0)
base = dict(threads=threading.active_count(), fds=fds(), alive=len(srv.subs._alive))
res = {'base': base, 'steps': [], 'volumes_open': len(srv.images), 'boards': len(boards), 'spellings': len(spellings)}
def snap(label):
    ok = wait_until(lambda: threading.active_count() <= base['threads'] and len(srv.subs._alive) == 0 and fds() <= base['fds'], 8.0)
    gc.collect()
    res['steps'].append(dict(label=label, back_to_baseline=ok, threads=threading.active_count(), fds=fds(),
                             alive=len(srv.subs._alive), reaper_alive=srv.subs.is_alive()))
for i in range(len(images)):
    for name in %(names)r:
        c = Client(srv.server_address, 1.0); c.rrq(('%%x/%%s' %% (0x100 + i, name)).encode(), b'octet', [(b'utimeout', b'10000')]); c.run(); c.close()
snap('completed transfers from images (zero-length files that own a cluster included)')
for i in range(len(images)):
    for name in %(names)r:
        c = Client(srv.server_address, 1.0); c.rrq(('%%x/%%s' %% (0x100 + i, name)).encode(), b'octet', [(b'utimeout', b'10000'), (b'blksize', b'64')]); c.step(); c.close()
snap('abandoned transfers from images')
srv.shutdown()
try:
    srv.server_close()
    res['close_error'] = None
except BaseException as e:
    res['close_error'] = repr(e)
th.join(5)
gc.collect()
res['after_close'] = dict(alive=len(srv.subs._alive), reaper_alive=srv.subs.is_alive())
res['fds_after_close'] = fds(); res['fds_before_server'] = fds_before_server
print(json.dumps(res))
'''


def source_fails_mid_transfer(ctx, rng):
    """the source raises an I/O error on a later block: the server tells the client (ERROR) and the transfer is over at once
    -- not only after the silence period"""
    for good in (1, 2, 3):
        for B in (8, 512):
            S = Session({'f': ('eio', bytes(range(256)) * 16, good)})
            try:
                now = 10 ** 9
                sent = S.packet(0, 1, b'\0\1f\0octet\0blksize\0' + str(B).encode() + b'\0timeout\x0060\0', now)
                ctx.case(('eio', good, B), True, 'source-fails')
                if not S.sim.subs:
                    continue
                tid = sent[0][0]
                sub = S.sim.subs[tid]
                blk, errors = 0, 0
                for _ in range(good + 3):
                    now += 1000
                    out = S.packet(tid, 1, struct.pack('!HH', 4, blk), now)
                    if out and out[0][1][:2] == b'\0\5':
                        errors += 1
                        break
                    if not out:
                        break
                    blk = out[0][1][2] * 256 + out[0][1][3]
                if errors and not sub.done:
                    ctx.violation('tftpd.end/source-error-not-done', f'the source failed on read #{good + 1} (block size {B}); the client was sent an ERROR but the '
                                  f'transfer is still registered as running (it would linger for 5 x timeout = 300 s)', dict(events=[list(e) for e in S.events]))
                    return
            finally:
                S.close()


def boot_resources(ctx):
    """the same accounting for a BootServer serving files out of FAT images (dirty volumes, empty files owning a cluster)"""
    import tempfile
    from props import c06
    with tempfile.TemporaryDirectory() as tmp:
        imgs = [c06.make_image(ctx.rng, tmp, ft, d, z)[0] for ft, d, z in (('fat16', True, True), ('fat12', False, True), ('fat32', True, False))]
        res = realserver.run_script(REAL_BOOT % dict(images=imgs, names=['kernel.img', 'empty', 'zerolen.bin', 'config.txt']), timeout=180)
    ctx.case(('real-boot',), True, 'real-udp-boot')
    if res.get('crash'):
        ctx.violation('boot.real/harness-crash', f'real BootServer scenario crashed: {res.get("stderr", "")[-400:]}', res)
        return
    ctx.extra['real_boot'] = res
    for s in res['steps']:
        if not s['back_to_baseline'] or not s['reaper_alive']:
            ctx.violation('boot.real/resources-not-released', f'after {s["label"]}: threads {s["threads"]} (baseline {res["base"]["threads"]}), '
                          f'fds {s["fds"]} (baseline {res["base"]["fds"]}), registry {s["alive"]}, reaper alive {s["reaper_alive"]}', dict(result=res))
            return
    if res.get('volumes_open', 0) > res.get('boards', 0):
        ctx.violation('boot.real/volumes-per-board', f'{res["boards"]} boards are configured but {res["volumes_open"]} volumes are held open after one serial was requested in '
                      f'{res["spellings"]} spellings (every spelling of a serial is the same board)', dict(result=res))
        return
    if res.get('close_error') or res.get('fds_after_close', 0) > res.get('fds_before_server', 0):
        ctx.violation('boot.real/server-close', f'server_close() with boards sharing an image: raised {res.get("close_error")}; descriptors open afterwards '
                      f'{res.get("fds_after_close")} (before the server existed: {res.get("fds_before_server")})', dict(result=res))
        return
    ac = res.get('after_close', {})
    if ac.get('alive') or ac.get('reaper_alive'):
        ctx.violation('boot.real/server-close', f'server_close() left transfers running: {ac}', dict(result=res))


def scenario(ctx, R, rng, content, B, tmo_opt, silence_after, ending, tick_gap):
    """one virtual-clock scenario; returns nothing, reports violations"""
    files = {'f': content}
    S = Session(files)
    try:
        now = 10 ** 9
        opts = b'blksize\0' + str(B).encode() + b'\0'
        if tmo_opt is not None:
            opts += tmo_opt[0].encode() + b'\0' + tmo_opt[1].encode() + b'\0'
        sent = S.packet(0, 1, b'\0\1f\0octet\0' + opts, now)
        if not S.sim.subs:
            return
        tid = sent[0][0]
        sub = S.sim.subs[tid]
        st = sub.client_state
        tmo = st.timeout
        blk = 0
        cur = sent[0][1]
        # progress loss-free for `silence_after` acknowledgements
        for _ in range(silence_after):
            now += 1000
            if cur[:2] == b'\0\3' and len(cur) - 4 < B:
                break
            out = S.packet(tid, 1, struct.pack('!HH', 4, blk), now)
            if not out:
                break
            cur = out[0][1]
            blk = cur[2] * 256 + cur[3]
        if ending == 'error':
            now += 5
            code = rng.choice([0, 1, 2, 3, 4, 5, 5, 6, 7, 8])
            S.packet(tid, 1, struct.pack('!HH', 5, code) + b'quit\0', now)
            if not sub.done:
                ctx.violation('tftpd.end/client-error-not-done', f'client ERROR (code {code}) did not end the transfer',
                              dict(events=[list(e) for e in S.events]))
        elif ending == 'finalack':
            pass
        # silence: tick every tick_gap until done (bounded)
        t_silence = now
        last_recv = st.last_recv
        resend_times = []
        unacked = dict(st.blocks)
        done_at = None
        chatter = rng.random() < 0.4       # another endpoint keeps sending to the transfer's port
        for k in range(1, 200000):
            now = t_silence + k * tick_gap
            if chatter and k % 3 == 0:
                S.packet(tid, 77, rng.choice([b'\0\4\0\1', b'hello', b'\0\5\0\0x\0', struct.pack('!HH', 4, blk)]), now - 1)
            out = S.tick(tid, now)
            if out:
                resend_times.append(now)
                if [x[1] for x in out] != [struct.pack('!HH', 3, b) + d for b, d in unacked.items()]:
                    ctx.violation('tftpd.timeout/resend-content', 'retransmission does not carry exactly the unacknowledged block(s)',
                                  dict(events=[list(e) for e in S.events[-6:]], cached=list(unacked)))
            if sub.done:
                done_at = now
                break
            if now - t_silence > 8 * tmo + 10 * tick_gap:
                break
        ctx.case(repr(S.events), True, f'silence-{ending}')
        if done_at is None:
            ctx.violation('tftpd.timeout/never-abandoned',
                          f'after {(now - t_silence) / 1e9:.3f}s of silence (timeout {tmo / 1e9}s, ticks every {tick_gap / 1e6}ms) the transfer is still not done',
                          dict(events=[list(e) for e in S.events[:8]], timeout=tmo, tick_gap=tick_gap, silence_after=silence_after))
        else:
            bound = 6 * tmo + 8 * tick_gap
            if done_at - last_recv > bound and ending != 'error':
                ctx.violation('tftpd.timeout/abandon-late', f'abandoned {(done_at - last_recv) / 1e9:.3f}s after the last datagram; bound {bound / 1e9:.3f}s',
                              dict(events=[list(e) for e in S.events[:8]], timeout=tmo, tick_gap=tick_gap))
        # spacing of retransmissions: more than one timeout apart, at most timeout + gap
        prev = None
        for t in resend_times:
            if prev is not None and not (tmo < t - prev <= tmo + tick_gap):
                ctx.violation('tftpd.timeout/resend-spacing', f'retransmissions {(t - prev) / 1e9:.4f}s apart with timeout {tmo / 1e9}s and ticks every {tick_gap / 1e9}s',
                              dict(events=[list(e) for e in S.events[:8]], resend_times=resend_times[:8], timeout=tmo, tick_gap=tick_gap))
                break
            prev = t
        if unacked and ending == 'silent' and tick_gap <= tmo and not resend_times:
            ctx.violation('tftpd.timeout/no-resend', 'unacknowledged DATA was never re-sent during the silence',
                          dict(events=[list(e) for e in S.events[:8]], timeout=tmo, tick_gap=tick_gap))
        # reaping releases the file
        S.reap()
        if sub.done and (tid in S.sim.subs or st.source is not None):
            ctx.violation('tftpd.reap/not-released', 'a finished transfer is still registered or its source is still open after the reaper pass',
                          dict(events=[list(e) for e in S.events[:8]]))
        S.compare(ctx, R, 'tftpd.timeout')
    finally:
        S.close()


def run(ctx, build):
    lib.corr_modules(ctx, SPEC, ['registry_corr'])     # the concurrent registry: real TFTPSubServers under a scheduler shim vs the model
    R = ctx.try_runner('Tftp')
    rng = ctx.rng
    n = 15000 if ctx.thorough else 50
    if ctx.widen:
        n *= 2
    poll = 10_000_000
    for i in range(n):
        B = rng.choice([8, 16, 512])
        nblocks = rng.choice([0, 1, 2, 4])
        content = bytes(rng.getrandbits(8) for _ in range(nblocks * B + rng.choice([0, 1, B - 1])))
        tmo_opt = rng.choice([None, ('timeout', '1'), ('timeout', '2'), ('utimeout', '10000'), ('utimeout', '12345'),
                              ('timeout', '0.05'), ('utimeout', '300000')] + ([('timeout', '255')] if ctx.thorough else []))
        tmo = 10 ** 9 if tmo_opt is None else (int(float(tmo_opt[1]) * 1e9) if tmo_opt[0] == 'timeout' else int(tmo_opt[1]) * 1000)
        gap = rng.choice([poll, poll, 3 * poll, max(poll, tmo // 7)])
        if tmo > 3 * 10 ** 9:
            gap = tmo // 50
        scenario(ctx, R, rng, content, B, tmo_opt, rng.choice([0, 1, 2, 3, 9]),
                 rng.choice(['silent', 'silent', 'silent', 'error', 'finalack']), gap)
    ctx.sample(dict(B=8, timeout='utimeout=10000', silence_after=1, tick_gap_ms=10))

    # ---- real threads / sockets / descriptors -----------------------------------------------------
    for r in range(4 if ctx.thorough else 1):
        res = realserver.run_script(REAL, timeout=180)
        ctx.case(('real', r), True, 'real-udp')
        if res.get('crash'):
            ctx.violation('tftpd.real/harness-crash', f'real-UDP scenario crashed: {res.get("stderr", "")[-400:]}', res)
            continue
        ctx.extra['real'] = res
        for s in res['steps']:
            if not s['back_to_baseline'] or not s['reaper_alive']:
                ctx.violation('tftpd.real/resources-not-released:' + s['label'],
                              f'after {s["label"]} requests: threads {s["threads"]} (baseline {res["base"]["threads"]}), '
                              f'fds {s["fds"]} (baseline {res["base"]["fds"]}), registry {s["alive"]}, reaper alive {s["reaper_alive"]}',
                              dict(result=res))
        ac = res.get('after_close', {})
        if not ac.get('ok') or ac.get('alive') or ac.get('reaper_alive'):
            ctx.violation('tftpd.real/server-close', f'server_close() left transfers running: {ac}', dict(result=res))
    source_fails_mid_transfer(ctx, rng)
    boot_resources(ctx)


def replay(ctx, obj):
    print(json.dumps(obj, indent=1)[:4000])
    return False
