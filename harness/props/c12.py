"""C12 -- partition numbers map to exactly the byte ranges the table defines."""
import binascii, ctypes, hashlib, json, mmap, os, struct, subprocess, sys, tempfile, uuid, warnings
import lib

SPEC = {
    'rule': 'random well-formed layouts (0-4 primaries in any slot, extended 0x05/0x0F with 0..6 logicals, gaps, '
            'empty first EBR slots; GPT entry sizes 128/256/512, 1..140 entries, sparse slots, table LBA anywhere, '
            'sector 0 zeros / protective MBR / hybrid MBR / noise; S in {512,4096}) -> image from the EXTRACTED build -> nobodd DiskImage; '
            'compared with the layout (oracle) and with the extracted parser (correspondence): style, len, keys, '
            'window offset/length/bytes, type, label, KeyError probes. Plus every single-field corruption of the '
            'GPT and MBR headers (with and without re-computed CRC), truncated images, CRC-32 vs binascii. '
            'A case is non-trivial when the image has at least one partition or is a corruption/truncation; '
            'distinct = distinct (layout or image digest, S, variant).',
    'trusted_base': [
        'Coq 8.16.1 kernel (vm_compute used only on closed terms: layout equalities, check vectors, examples)',
        'translator harness/gen_disk.py: struct tables of mbr.py/gpt.py, every comparison/arithmetic expression '
        'and loop shape of disk.py (fails closed on any other shape)',
        'extraction: ExtrOcamlBasic only; runner/driver.ml; OCaml 4.13.1',
        'modelled not verified: CPython struct/mmap/memoryview slicing, uuid.UUID(bytes_le=), '
        'bytes.decode("utf-16-le"), str.rstrip, binascii.crc32 (tied by correspondence on random strings)',
        'coq/Disk/Build.v: the on-disk formats written from the MBR/EBR and UEFI GPT standards',
    ],
    'theorems': {
        'C12_layouts_standard': 'full: the tables in mbr.py/gpt.py are the standard on-disk formats',
        'C12_parse_build_mbr': 'full: every well-formed MBR layout, every S = 512k, EBR chain of any length',
        'C12_parse_build_gpt': 'full: every well-formed GPT layout (entry size 128*2^k, any count, sparse), every S = 512k',
        'C12_protective_defers': 'full: protective MBR + valid GPT gives the GPT mapping; the MBR parser rejects the protective MBR',
        'C12_reject_bad_gpt': 'full: bad signature / revision / header size / stored checksum each give ValueError from the GPT parser (any image)',
        'C12_reject_bad_mbr': 'full: bad boot signature or non-zero reserved field gives ValueError (any image)',
        'C12_reject_bad': 'full: GPT rejected and MBR rejected gives ValueError from DiskImage.partitions, GPT tried first',
        'C12_reject_corrupt_covered_partial': 'partial: a corrupted CRC-covered field is rejected iff CRC-32 separates the headers '
                                              '(stated with that hypothesis; covered by correspondence)',
        'C12_crc32_check': 'check vector 0xCBF43926 for "123456789" (vm_compute) and re-packing an unpacked header never fails; '
                           'general agreement with binascii by correspondence',
        'C12_short_image_struct_error': 'full: an image shorter than S+92 bytes gives struct.error (modelled as StructError), not ValueError',
    },
    'assumptions': [
        'sector size is a positive multiple of 512 (the harness uses 512 and 4096)',
        'images shorter than S+92 bytes raise struct.error, which DiskImage.partitions does not convert to ValueError; '
        'truncated images are outside the property quantifier and are compared with the model only',
        'GPT len() counts non-zero type GUIDs over the whole sector-rounded table while iteration uses the partition GUID '
        'and the entry count; they agree when the rest of the last table sector is zero (as build writes it)',
        'an EBR chain that loops makes the implementation spin forever (model: OutOfFuel); loops cannot arise from a '
        'well-formed layout and are compared in a subprocess with a timeout only',
    ],
}

BOOT_SIG = 0xAA55
S_CHOICES = (512, 4096)


# ----------------------------------------------------------------------------- layouts (python side)
def rand_guid(rng):
    while True:
        g = bytes(rng.randrange(256) for _ in range(16))
        if any(g):
            return g


def rand_label(rng):
    kind = rng.choice(['ascii', 'ascii', 'empty', 'bmp', 'full', 'innernul', 'astral'])
    if kind == 'empty':
        return []
    n = 36 if kind == 'full' else rng.randrange(1, 20)
    if kind == 'astral':
        us = []
        while len(us) < min(n, 34):
            if rng.random() < 0.4:
                us += [0xD800 + rng.randrange(0x400), 0xDC00 + rng.randrange(0x400)]
            else:
                us.append(rng.randrange(0x20, 0x7f))
        return us
    pool = (lambda: rng.randrange(0x20, 0x7f)) if kind in ('ascii', 'full', 'innernul') else \
        (lambda: rng.choice([rng.randrange(0x20, 0xD800), rng.randrange(0xE000, 0x10000)]))
    us = [pool() for _ in range(n)]
    if kind == 'innernul' and n > 2:
        us[rng.randrange(1, n - 1)] = 0
    return us


def rand_mbr(rng, S, force=None, tiny=False):
    small = S > 512
    maxlba = (6 if small else 24) if tiny else (14 if small else 100)
    slots = [('empty',)] * 4
    nprim = rng.choice([0, 1, 1, 2, 2, 3, 4])
    want_ext = rng.random() < 0.6
    if force == 'ext':
        want_ext = True
    idx = list(range(4)); rng.shuffle(idx)
    used = idx[:nprim]
    ext_slot = None
    if want_ext:
        if nprim == 4:
            ext_slot = used.pop()
        else:
            ext_slot = idx[nprim]
    slots = list(slots)
    for i in used:
        ty = rng.choice([0x0c, 0x83, 0x07, 0x0b, 0xee, 0x01, 0xff, 0x82])
        first = rng.randrange(0, maxlba)
        size = rng.choice([0, 1, 2, 3, rng.randrange(0, max(1, maxlba - first) + 1)])
        slots[i] = ('pri', ty, first, size)
    if ext_slot is not None:
        nlog = rng.choice([0, 1, 1, 2, 3, 4, 6]) if not small else rng.choice([0, 1, 2, 3, 6])
        ebrs = []
        kinds = []
        for _ in range(nlog):
            kinds.append('part')
            if rng.random() < 0.25:
                kinds.append('hole')
        if rng.random() < 0.3:
            kinds.insert(0, 'hole')
        if not kinds:
            kinds = ['hole']
        if force == 'ext' and 'hole' not in kinds:
            kinds.insert(rng.randrange(len(kinds) + 1), 'hole')
        for k in kinds:
            part = None
            if k == 'part':
                ty = rng.choice([0x0c, 0x83, 0x07, 0x82, 0x05, 0x01])
                rel = rng.choice([1, 1, 1, 2, 3]) if not small else 1
                size = rng.choice([0, 1, 2, 5, 9]) if not small else rng.choice([0, 1, 2])
                part = (ty, rel, size)
            ebrs.append(dict(part=part, link=rng.choice([5, 5, 15]), gap=rng.choice([0, 0, 1, 3]) if not small else rng.choice([0, 0, 1])))
        first = rng.randrange(2, 12 if not small else 4)
        slots[ext_slot] = ('ext', rng.choice([5, 15]), first, ebrs)
    return dict(kind='mbr', sig=rng.randrange(1 << 32), tail=rng.choice([0, 0, 1, 3]), slots=slots)


def protective_sector(size):
    return boot_sector(0, part_entry(0xEE, 1, size), EMPTY, EMPTY, EMPTY)


def hybrid_sector(rng):
    return boot_sector(rng.randrange(1 << 32), part_entry(0xEE, 1, rng.randrange(1, 50)),
                       part_entry(rng.choice([0x0c, 0x83]), rng.randrange(2, 8), rng.randrange(1, 4)), EMPTY, EMPTY)


def rand_sector0(rng):
    kind = rng.choice(['zeros', 'protective', 'protective', 'hybrid', 'noise'])
    if kind == 'zeros':
        return bytes(512)
    if kind == 'protective':
        return protective_sector(rng.choice([1, 100, (1 << 32) - 1, rng.randrange(1, 1 << 32)]))
    if kind == 'hybrid':
        return hybrid_sector(rng)
    return bytes(rng.randrange(256) for _ in range(510)) + b'\x00\x00'   # no boot signature


def rand_gpt(rng, S, count=None, tiny=False):
    k = rng.choice([0, 0, 0, 1, 2])
    esize = 128 << k
    if count is None:
        count = rng.choice([1, 2, 3, 4, 5, 7, 8, 16, 31, 32, 33, 64, 127, 128, 129, 140, rng.randrange(1, 141)])
    if esize * count > 80000:
        count = 80000 // esize
    maxlba = (5 if S > 512 else 20) if tiny else (12 if S > 512 else 90)
    nused = rng.choice([0, 1, 1, 2, 3, 5, min(count, 12), count if count <= 40 else 3])
    used = set(rng.sample(range(count), min(nused, count)))
    if rng.random() < 0.3:
        used.add(count - 1)
    if rng.random() < 0.3:
        used.add(0)
    entries = []
    for i in range(count):
        if i in used:
            first = rng.randrange(0, maxlba)
            last = first + rng.choice([0, 0, 1, 2, rng.randrange(0, max(1, maxlba - first))])
            entries.append(dict(type=rand_guid(rng), guid=rand_guid(rng), first=first, last=last,
                                flags=rng.choice([0, 1, 1 << 63, rng.randrange(1 << 64)]), label=rand_label(rng)))
        else:
            entries.append(None)
    tlba = rng.choice([2, 2, 3, rng.randrange(2, 10 if S > 512 else 40)])
    l = dict(kind='gpt', k=k, tlba=tlba, disk_guid=bytes(rng.randrange(256) for _ in range(16)), table_crc=0,
             backup=rng.randrange(1 << 40), first_usable=rng.randrange(1 << 20), last_usable=rng.randrange(1 << 40),
             sector0=rand_sector0(rng), tail=rng.choice([0, 0, 1, 2]), entries=entries)
    l['table_crc'] = binascii.crc32(py_table(l)) & 0xffffffff
    return l


def wire_layout(l):
    if l['kind'] == 'mbr':
        slots = []
        for s in l['slots']:
            if s[0] == 'empty':
                slots.append([0])
            elif s[0] == 'pri':
                slots.append([1, s[1], s[2], s[3]])
            else:
                slots.append([2, s[1], s[2], [[1 if e['part'] else 0] + list(e['part'] or (0, 0, 0)) + [e['link'], e['gap']]
                                              for e in s[3]]])
        return [0, l['sig'], l['tail'], slots]
    ents = [[] if e is None else [e['type'], e['guid'], e['first'], e['last'], e['flags'], list(e['label'])]
            for e in l['entries']]
    return [1, l['k'], l['tlba'], l['disk_guid'], l['table_crc'], l['backup'], l['first_usable'], l['last_usable'],
            l['sector0'], l['tail'], ents]


# ---- python mirror of coq/Disk/Build.v (cross-checked against the extracted build on every case;
#      used alone only when the Coq side does not build, so that the oracle still finds failing inputs)
_PAT = bytes((x * 7 + 5) % 251 for x in range(251))


def fill(n, o):
    n = max(0, n)
    k = o % 251
    return (_PAT * ((n + k) // 251 + 1))[k:k + n]


def part_entry(ty, first, size):
    return struct.pack('<B3sB3sII', 0, b'\0\0\0', ty, b'\0\0\0', first, size)


def boot_sector(sig, p1, p2, p3, p4):
    return bytes(218) + bytes(6) + bytes(216) + struct.pack('<IH', sig, 0) + p1 + p2 + p3 + p4 + struct.pack('<H', BOOT_SIG)


EMPTY = part_entry(0, 0, 0)


def ebr_span(e):
    return (e['part'][1] + e['part'][2] if e['part'] else 1) + e['gap']


def py_chain(S, ext, cur, ebrs):
    out = b''
    for i, e in enumerate(ebrs):
        nxt = cur + ebr_span(e)
        s1 = part_entry(*e['part']) if e['part'] else EMPTY
        s2 = part_entry(e['link'], nxt - ext, ebr_span(ebrs[i + 1])) if i + 1 < len(ebrs) else EMPTY
        out += boot_sector(0, s1, s2, EMPTY, EMPTY) + fill(S * ebr_span(e) - 512, S * cur + 512)
        cur = nxt
    return out


def py_table(l):
    esize = 128 << l['k']
    out = b''
    for e in l['entries']:
        if e is None:
            out += bytes(esize)
        else:
            lab = b''.join(struct.pack('<H', u) for u in e['label'])
            out += e['type'] + e['guid'] + struct.pack('<QQQ', e['first'], e['last'], e['flags']) + \
                lab + bytes(72 - len(lab)) + bytes(esize - 128)
    return out


def py_header(l, crc):
    esize = 128 << l['k']
    return b'EFI PART' + struct.pack('<IIII', 0x10000, 92, crc, 0) + \
        struct.pack('<QQQQ', 1, l['backup'], l['first_usable'], l['last_usable']) + l['disk_guid'] + \
        struct.pack('<QIII', l['tlba'], len(l['entries']), esize, l['table_crc'])


def py_build(S, l):
    if l['kind'] == 'mbr':
        slots = l['slots']
        ext = next(((s[2], s[3]) for s in slots if s[0] == 'ext'), (2, []))
        ents = []
        for s in slots:
            if s[0] == 'empty':
                ents.append(EMPTY)
            elif s[0] == 'pri':
                ents.append(part_entry(s[1], s[2], s[3]))
            else:
                ents.append(part_entry(s[1], s[2], sum(ebr_span(e) for e in s[3])))
        first, ebrs = ext
        chain_end = first + sum(ebr_span(e) for e in ebrs)
        need = max([s[2] + s[3] for s in slots if s[0] == 'pri'] + [0])
        return (boot_sector(l['sig'], *ents) + fill(S - 512, 512) + bytes(S) + fill(S * (first - 2), S * 2)
                + py_chain(S, first, first, ebrs) + fill(S * (max(0, need - chain_end) + l['tail']), S * chain_end))
    esize = 128 << l['k']
    count = len(l['entries'])
    ts = (count * esize + S - 1) // S
    tend = l['tlba'] + ts
    need = max([e['last'] + 1 for e in l['entries'] if e] + [0])
    sec0 = l['sector0']
    h0 = py_header(l, 0)
    hdr = py_header(l, binascii.crc32(h0) & 0xffffffff)
    return (sec0 + fill(S - 512, 512) + hdr + bytes(S - 92) + fill(S * (l['tlba'] - 2), S * 2)
            + py_table(l) + bytes(S * ts - count * esize) + fill(S * (max(0, need - tend) + l['tail']), S * tend))


def units_text(us):
    """the python str denoted by UTF-16 code units (None if not decodable)"""
    try:
        return b''.join(struct.pack('<H', u) for u in us).decode('utf-16-le')
    except UnicodeDecodeError:
        return None


def expected(S, l):
    """the property's statement: [(n, start, length, type, label)] in table order"""
    out = []
    if l['kind'] == 'mbr':
        for num, s in enumerate(l['slots'], 1):
            if s[0] == 'pri':
                out.append((num, s[2] * S, s[3] * S, s[1], f'Partition {num}'))
            elif s[0] == 'ext':
                cur, n = s[2], 5
                for e in s[3]:
                    if e['part']:
                        ty, rel, size = e['part']
                        out.append((n, (cur + rel) * S, size * S, ty, f'Partition {n}'))
                        n += 1
                    cur += ebr_span(e)
    else:
        for i, e in enumerate(l['entries'], 1):
            if e is not None:
                out.append((i, e['first'] * S, (e['last'] + 1 - e['first']) * S, e['type'], units_text(e['label'])))
    return out


def py_wf(l):
    if l['kind'] == 'mbr':
        exp = expected(512, l)
        return not (len(exp) == 1 and exp[0][0] == 1 and exp[0][3] == 0xEE)
    for e in l['entries']:
        if e and (any(0xD800 <= u < 0xE000 for u in e['label']) or (e['label'] and e['label'][-1] == 0)):
            return False
    return True


# ----------------------------------------------------------------------------- implementation probes
def exc_name(e):
    if isinstance(e, struct.error):
        return 'StructError'
    return type(e).__name__


def call(fn):
    try:
        return ('ok', fn())
    except Exception as e:
        return ('err', exc_name(e))


def canon_part(base, raw, p):
    data = p.data
    n = data.nbytes
    start = None
    if n:
        start = ctypes.addressof(ctypes.c_char.from_buffer(data)) - base
    b = bytes(data)
    ok = (start is None) or raw[start:start + n] == b
    ty = p.type
    ty = ty.bytes_le if isinstance(ty, uuid.UUID) else ty
    lab = p.label
    return dict(start=start, length=n, type=ty, label=lab, bytes_ok=ok, sha=hashlib.sha1(b).hexdigest()[:12])


def impl_probe(raw, S, probes):
    """what nobodd makes of the image: ('err', name) or ('ok', dict)"""
    from nobodd.disk import DiskImage
    with tempfile.NamedTemporaryFile(prefix='c12-', suffix='.img') as f:
        f.write(raw); f.flush()
        with warnings.catch_warnings():
            warnings.simplefilter('ignore')
            d = DiskImage(f.name, sector_size=S, access=mmap.ACCESS_COPY)
            held = []
            try:
                base = ctypes.addressof(ctypes.c_char.from_buffer(d._map))
                try:
                    ps = d.partitions
                except Exception as e:
                    return ('err', exc_name(e))

                def item(k):
                    p = ps[k]
                    held.append(p)
                    return canon_part(base, raw, p)
                out = dict(gpt=(ps.style == 'gpt'), len=call(lambda: len(ps)), keys=call(lambda: [k for k in ps]))
                out['items'] = [call(lambda k=k: item(k)) for k in (out['keys'][1] if out['keys'][0] == 'ok' else [])]
                out['probes'] = [call(lambda k=k: item(k)) for k in probes]
                return ('ok', out)
            finally:
                for p in held:
                    p.close()
                held.clear()
                d.close()


def canon_model_part(r):
    """runner VPart -> same shape as canon_part (without the bytes checks)"""
    if r[0] != 0:
        return ('err', r[1].decode())
    start, n, ty, lab = r[1]
    return ('ok', dict(start=start if n else None, length=n, type=ty, label=lib.as_text(lab)))


def model_probe(R, raw, S, probes):
    v = R.call('partitions', (S, raw, [lib.Zint(p) for p in probes]))
    if v and v[0] == 1:
        return ('err', v[1].decode())
    if not v or v[0] != 0:
        raise lib.BuildError(f'bad runner reply {str(v)[:200]}')
    gpt, ln, keys, items, pr = v[1]
    return ('ok', dict(gpt=bool(gpt), len=R.unres(ln), keys=R.unres(keys),
                       items=[canon_model_part(x) for x in items], probes=[canon_model_part(x) for x in pr]))


def strip_part(r):
    if r[0] == 'ok':
        return ('ok', {k: r[1][k] for k in ('start', 'length', 'type', 'label')})
    return r


def same(impl, model):
    if impl[0] != model[0]:
        return False
    if impl[0] == 'err':
        return impl[1] == model[1]
    a, b = impl[1], model[1]
    return (a['gpt'] == b['gpt'] and a['len'] == b['len'] and a['keys'] == b['keys']
            and [strip_part(x) for x in a['items']] == b['items']
            and [strip_part(x) for x in a['probes']] == b['probes'])


def brief(r):
    if r[0] == 'err':
        return r[1]
    d = r[1]
    return f"{'gpt' if d['gpt'] else 'mbr'} len={d['len']} keys={d['keys']} items={[strip_part(x) for x in d['items']]} probes={[strip_part(x) if x[0] == 'ok' else x[1] for x in d['probes']]}"[:600]


def oracle_layout(S, l, impl):
    """the property evaluated on the implementation's output; returns None or a description"""
    exp = expected(S, l)
    if impl[0] == 'err':
        return f'raises-{impl[1]}', f'DiskImage.partitions raised {impl[1]} on a well-formed {l["kind"].upper()} image'
    d = impl[1]
    if d['gpt'] != (l['kind'] == 'gpt'):
        return 'style', f'a {l["kind"].upper()} image was parsed as {"GPT" if d["gpt"] else "MBR"}'
    nums = [e[0] for e in exp]
    if d['keys'][0] != 'ok' or sorted(d['keys'][1]) != sorted(nums) or len(set(d['keys'][1])) != len(d['keys'][1]):
        return 'numbers', f'partition numbers listed {d["keys"]} but the table defines {nums}'
    if d['len'] != ('ok', len(nums)):
        return 'len', f'len(partitions) = {d["len"]} but the table defines {len(nums)} partitions'
    by = {e[0]: e for e in exp}
    for k, it in zip(d['keys'][1], d['items']):
        n, start, length, ty, lab = by[k]
        if it[0] != 'ok':
            return 'getitem', f'partitions[{k}] raised {it[1]}'
        p = it[1]
        if p['length'] != length or (length and p['start'] != start) or not p['bytes_ok']:
            return 'window', (f'partition {k}: window is offset {p["start"]} length {p["length"]}, the table defines '
                    f'[{start}, {start + length})')
        if p['type'] != ty:
            return 'type', f'partition {k}: type {p["type"]!r}, the table says {ty!r}'
        if p['label'] != lab:
            return 'label', f'partition {k}: label {p["label"]!r}, the table says {lab!r}'
    return None


def oracle_probes(l, exp_nums, probes, impl):
    if impl[0] != 'ok':
        return None
    for k, r in zip(probes, impl[1]['probes']):
        if k not in exp_nums and r != ('err', 'KeyError'):
            return 'undefined-number', f'partitions[{k}] for an undefined number gave {r if r[0] == "err" else "a partition"} instead of KeyError'
    return None


# ----------------------------------------------------------------------------- the check
class Gen:
    """image source: the extracted build when available, else the python mirror"""
    def __init__(self, ctx):
        self.ctx = ctx
        self.R = None
        self.err = None
        try:
            # Gen/Disk.v is shared state: make sure the runner was extracted from the
            # translation of THIS source tree (another check run may have regenerated it)
            import gen_disk
            for attempt in range(4):
                with lib.Lock():
                    want = gen_disk.emit()
                    stale = lib.translate.write_if_changed('Disk.v', want)
                if stale and 'Disk' in ctx.runners:
                    ctx.runners.pop('Disk').close()
                self.R = ctx.runner('Disk')
                with open(os.path.join(lib.COQ, 'Gen', 'Disk.v')) as f:
                    if f.read() == want and not stale:
                        break
                ctx.runners.pop('Disk').close()
                self.R = None
            else:
                raise lib.BuildError('Gen/Disk.v keeps changing under the runner build')
        except lib.BuildError as e:
            self.err = str(e)
        except lib.translate.TranslateError as e:
            self.err = 'translator: ' + str(e)

    def build(self, S, l):
        mirror = py_build(S, l)
        if self.R is None:
            return mirror
        img = self.R.call('build', (S, wire_layout(l)))
        if isinstance(img, lib.U):
            raise lib.BuildError('extracted build produced non-byte values')
        if img != mirror:
            raise lib.BuildError(f'extracted build and its python mirror disagree for S={S} layout={json.dumps(lib.jsonable(l))[:400]}')
        return img


def layout_case(ctx, G, S, l, tag):
    raw = G.build(S, l)
    exp = expected(S, l)
    nums = [e[0] for e in exp]
    mx = max(nums + [4])
    probes = sorted(set([0, -1, -7, mx + 1, mx + 2, 1000, 1, 2, 3, 4, 5, 6, len(l.get('entries', [])) + 1,
                         len(l.get('entries', []))]) - set(nums))
    impl = impl_probe(raw, S, probes)
    wf = py_wf(l)
    replay = dict(kind='layout', S=S, layout=l, image=raw if len(raw) <= 70000 else None, tag=tag)
    ctx.case((tag, S, hashlib.sha1(raw).hexdigest()), bool(nums), f'{l["kind"]}-{tag}-S{S}')
    if wf:
        bad = oracle_layout(S, l, impl) or oracle_probes(l, nums, probes, impl)
        if bad:
            ctx.violation(f'{l["kind"]}-layout/{bad[0]}', f'{bad[1]}  [S={S}, layout in replay file]',
                          dict(replay, impl=brief(impl), expected=exp))
    if G.R is not None:
        if wf:
            d = G.R.call('defined', (S, wire_layout(l)))
            got = [(x[0], x[1], x[2], x[3], lib.as_text(x[4])) for x in d]
            want = [(n, st, ln, ty, (lab if l['kind'] == 'mbr' else ''.join(chr(u) for u in
                     next(e for i, e in enumerate(l['entries'], 1) if i == n)['label']))) for n, st, ln, ty, lab in exp]
            if got != want:
                raise lib.BuildError(f'Coq-side `defined` and the harness oracle disagree: {got[:3]} vs {want[:3]}')
            if not G.R.call('wf', wire_layout(l)):
                raise lib.BuildError(f'generator produced a layout the Coq wf predicate rejects: {json.dumps(lib.jsonable(l))[:300]}')
        model = model_probe(G.R, raw, S, probes)
        if not same(impl, model):
            ctx.violation(f'{l["kind"]}-layout/model-mismatch',
                          f'implementation and model disagree on a built {l["kind"].upper()} image (S={S}): impl {brief(impl)} / model {brief(model)}',
                          dict(replay, impl=brief(impl), model=brief(model)))
    return raw


def image_case(ctx, G, S, raw, tag, expect=None, what=''):
    """correspondence (and optional oracle on the outcome class) for an arbitrary image"""
    ctx.case((tag, S, hashlib.sha1(raw).hexdigest()), True, tag.split(':')[0])
    model = None
    if G.R is not None:
        model = model_probe(G.R, raw, S, [0, 1, 2, 5])
        if model == ('err', 'OutOfFuel'):
            with tempfile.NamedTemporaryFile(prefix='c12-', suffix='.img') as f:
                f.write(raw); f.flush()
                code = (f"from nobodd.disk import DiskImage\nd = DiskImage({f.name!r}, sector_size={S})\n"
                        "try:\n    d.partitions\nexcept Exception as e:\n    print(type(e).__name__)\n")
                try:
                    subprocess.run([lib.PY, '-c', code], env=lib.repo_env(), timeout=3, capture_output=True)
                    ctx.violation('ebr-loop/model-mismatch', 'model runs out of fuel on an image the implementation finishes',
                                  dict(kind='image', S=S, image=raw, tag=tag))
                except subprocess.TimeoutExpired:
                    ctx.stat('ebr-loop-hangs-impl')
            return
    impl = impl_probe(raw, S, [0, 1, 2, 5])
    if expect is not None:
        cls = impl[1] if impl[0] == 'err' else 'accepted'
        if cls != expect:
            ctx.violation('reject/' + tag.split(':')[0], f'{what}: outcome {cls}, the property requires {expect} (S={S})',
                          dict(kind='image', S=S, image=raw, tag=tag, expect=expect, impl=brief(impl)))
    if model is not None and not same(impl, model):
        ctx.violation('image/model-mismatch:' + tag.split(':')[0],
                      f'implementation and model disagree on {tag} (S={S}): impl {brief(impl)} / model {brief(model)}',
                      dict(kind='image', S=S, image=raw, tag=tag, impl=brief(impl), model=brief(model)))
    return impl


GPT_FMT = '<8sIIII QQQQ16sQIII'.replace(' ', '')
GPT_FIELDS = ['signature', 'revision', 'header_size', 'header_crc32', 'reserved', 'current_lba', 'backup_lba',
              'first_usable_lba', 'last_usable_lba', 'disk_guid', 'part_table_lba', 'part_table_size',
              'part_entry_size', 'part_table_crc32']
MBR_FIELDS = {'zero': (218, 2), 'physical_drive': (220, 1), 'seconds': (221, 1), 'minutes': (222, 1), 'hours': (223, 1),
              'disk_sig': (440, 4), 'copy_protect': (444, 2), 'partition_1': (446, 16), 'partition_2': (462, 16),
              'partition_3': (478, 16), 'partition_4': (494, 16), 'boot_sig': (510, 2)}


def corrupt_values(rng, name, old):
    if isinstance(old, bytes):
        outs = [bytes(len(old)), bytes([old[0] ^ 1]) + old[1:], old[:-1] + bytes([old[-1] ^ 0x80]),
                bytes(rng.randrange(256) for _ in old)]
        if name == 'signature':
            outs += [b'EPICFART', b'EFI PARt', b'efi part']
        return [o for o in outs if o != old]
    width = {'revision': 32, 'header_size': 32, 'header_crc32': 32, 'reserved': 32, 'part_table_size': 32,
             'part_entry_size': 32, 'part_table_crc32': 32}.get(name, 64)
    outs = [0, 1, old + 1, old - 1, old ^ (1 << (width - 1)), (1 << width) - 1, rng.randrange(1 << width)]
    if name == 'revision':
        outs += [0x20000, 0x10001, 0x100]
    if name == 'header_size':
        outs += [20, 91, 93, 512]
    if name == 'part_entry_size':
        outs += [64, 100, 127, 129, 256, 1024]
    if name == 'part_table_size':
        outs += [2, 5, 200, 1000]
    if name == 'part_table_lba':
        outs += [2, 3, 50, 10 ** 6]
    return sorted(set(o for o in outs if 0 <= o < (1 << width) and o != old))


def gpt_corruptions(ctx, G, S, l, mbr_valid=False):
    """mbr_valid: sector 0 holds a valid (hybrid) MBR, so a rejected GPT falls back to it: no oracle"""
    raw = G.build(S, l)
    hdr = list(struct.unpack_from(GPT_FMT, raw, S))
    for i, name in enumerate(GPT_FIELDS):
        for v in corrupt_values(ctx.rng, name, hdr[i]):
            h = list(hdr); h[i] = v
            for refix in (False, True):
                if refix:
                    if name in ('header_crc32',):
                        continue
                    if name == 'part_table_size' and v > 2000:
                        continue
                    h[3] = 0
                    h[3] = binascii.crc32(struct.pack(GPT_FMT, *h[:4], 0, *h[5:])) & 0xffffffff
                packed = struct.pack(GPT_FMT, *h)
                img = raw[:S] + packed + raw[S + 92:]
                expect = None
                stored_ok = (binascii.crc32(struct.pack(GPT_FMT, *h[:3], 0, 0, *h[5:])) & 0xffffffff) == h[3]
                if not refix:
                    if name in ('signature', 'revision', 'header_size', 'header_crc32') or not stored_ok:
                        expect = 'ValueError'
                elif name in ('signature', 'revision', 'header_size'):
                    expect = 'ValueError'
                if mbr_valid:
                    expect = None
                image_case(ctx, G, S, img, f'gpt-corrupt{"-hybrid" if mbr_valid else ""}{"-recrc" if refix else ""}:{name}={v!r}', expect,
                           f'GPT header field {name} corrupted to {v!r}{" (checksum recomputed)" if refix else ""}, no valid MBR in sector 0')


def mbr_corruptions(ctx, G, S, l):
    raw = G.build(S, l)
    rng = ctx.rng
    exp_ok = py_wf(l)
    for name, (off, n) in MBR_FIELDS.items():
        old = raw[off:off + n]
        vals = [bytes(n), bytes([old[0] ^ 1]) + old[1:], bytes(rng.randrange(256) for _ in range(n)), old[:-1] + bytes([old[-1] ^ 0x80])]
        if name == 'boot_sig':
            vals += [b'\xad\xde', b'\xaa\x55', b'\x55\xab', b'\x54\xaa']
        if name.startswith('partition_'):
            vals += [part_entry(0x05, 1, 3), part_entry(0x0f, rng.randrange(0, 30), 5), part_entry(0xee, 1, 100),
                     part_entry(0, rng.randrange(100), 5), part_entry(0x83, 2 ** 32 - 1, 2 ** 32 - 1)]
        for v in vals:
            if v == old:
                continue
            img = raw[:off] + v + raw[off + n:]
            expect, what = None, ''
            if name == 'boot_sig':
                expect, what = 'ValueError', f'MBR boot signature corrupted to {v.hex()} (no GPT)'
            elif name == 'zero':
                expect, what = 'ValueError', f'MBR reserved (zero) field set to {v.hex()} (no GPT)'
            r = image_case(ctx, G, S, img, f'mbr-corrupt:{name}={v.hex()}', expect, what)
            if r is not None and exp_ok and name in ('physical_drive', 'seconds', 'minutes', 'hours', 'disk_sig', 'copy_protect'):
                bad = oracle_layout(S, l, impl_probe(img, S, []))
                if bad:
                    ctx.violation('mbr-layout/irrelevant-field', f'changing MBR field {name} changed the mapping: {bad[1]}',
                                  dict(kind='image', S=S, image=img, tag=name))


def run(ctx, build):
    rng = ctx.rng
    G = Gen(ctx)
    if G.R is None:
        ctx.assumptions.append('extracted model did not build; images came from the python mirror of Build.v: ' + (G.err or '')[:300])
    deep = ctx.thorough or getattr(ctx, 'widen', False)

    # ---- (iii) CRC-32 model vs binascii ------------------------------------------------------
    if G.R is not None:
        vecs = [b'', b'123456789', b'\0', b'\xff' * 4, bytes(92)]
        vecs += [bytes(rng.randrange(256) for _ in range(rng.choice([1, 2, 3, 7, 64, 92, 93, 300]))) for _ in range(300 if deep else 80)]
        got = G.R.batch('crc32', vecs)
        for v, g in zip(vecs, got):
            ctx.case(('crc', v), True, 'crc32')
            if g != (binascii.crc32(v) & 0xffffffff):
                ctx.violation('crc32/model-mismatch', f'model crc32({v[:16].hex()}..) = {g:#x}, binascii says {binascii.crc32(v):#x}',
                              dict(kind='crc', data=v))
        ctx.sample(dict(api='crc32', data='123456789', expect='0xcbf43926'))

    # ---- (i) random well-formed layouts --------------------------------------------------------
    n_mbr = 900 if ctx.thorough else (400 if deep else 160)
    n_gpt = 500 if ctx.thorough else (250 if deep else 110)
    fixed = []
    # hand-picked shapes first: empty extended, deleted first logical, single partition in a later slot, ...
    for S in S_CHOICES:
        e = lambda part, link=5, gap=0: dict(part=part, link=link, gap=gap)
        fixed += [
            (S, dict(kind='mbr', sig=1, tail=1, slots=[('pri', 0x0c, 3, 2), ('ext', 5, 6, [e(None)]), ('empty',), ('empty',)]), 'empty-extended'),
            (S, dict(kind='mbr', sig=2, tail=0, slots=[('pri', 0x0c, 2, 1), ('ext', 15, 4, [e(None), e((0x83, 1, 2))]), ('empty',), ('empty',)]), 'deleted-first-logical'),
            (S, dict(kind='mbr', sig=3, tail=0, slots=[('empty',), ('pri', 0x0c, 2, 3), ('empty',), ('empty',)]), 'single-in-slot-2'),
            (S, dict(kind='mbr', sig=4, tail=0, slots=[('empty',), ('empty',), ('empty',), ('ext', 5, 2, [e((0x83, 1, 1))])]), 'single-logical'),
            (S, dict(kind='mbr', sig=5, tail=2, slots=[('empty',)] * 4), 'no-partitions'),
            (S, dict(kind='mbr', sig=6, tail=0, slots=[('pri', 0xee, 1, 5), ('pri', 0x0c, 2, 1), ('empty',), ('empty',)]), 'hybrid-like'),
            (S, dict(kind='mbr', sig=7, tail=0, slots=[('pri', 0x83, 2, 2), ('pri', 0x0c, 1, 1), ('ext', 5, 4, [e((0x83, 1, 1), 15, 1), e((0x82, 2, 0)), e(None), e((0x0c, 1, 2))]), ('pri', 7, 0, 3)]), 'full'),
        ]
    for S, l, tag in fixed:
        layout_case(ctx, G, S, l, tag)
    ctx.sample(dict(kind='mbr', S=512, layout=fixed[1][1], expect=expected(512, fixed[1][1])))
    for i in range(n_mbr):
        S = rng.choice(S_CHOICES)
        l = rand_mbr(rng, S, force='ext' if i % 5 == 0 else None)
        layout_case(ctx, G, S, l, 'random')
    for i in range(n_gpt):
        S = rng.choice(S_CHOICES)
        l = rand_gpt(rng, S, count=(i % 140) + 1 if i < 140 and ctx.thorough else None)
        layout_case(ctx, G, S, l, 'random')
        if i == 0:
            ctx.sample(dict(kind='gpt', S=S, entries=len(l['entries']), entry_size=128 << l['k'], table_lba=l['tlba'],
                            defined=[e[0] for e in expected(S, l)]))
    # GPT len() over a table whose last sector is not zero-filled: correspondence only
    for _ in range(6 if not deep else 20):
        S = rng.choice(S_CHOICES)
        l = rand_gpt(rng, S, count=rng.choice([1, 3, 5, 9]))
        raw = bytearray(G.build(S, l))
        esize, count = 128 << l['k'], len(l['entries'])
        ts = (count * esize + S - 1) // S
        a, b = l['tlba'] * S + count * esize, (l['tlba'] + ts) * S
        raw[a:b] = bytes(rng.randrange(1, 256) for _ in range(b - a))
        image_case(ctx, G, S, bytes(raw), 'gpt-dirty-table-tail')

    # ---- (ii) single-field corruptions of both headers ------------------------------------------
    for r in range(3 if deep else 1):
        for S in S_CHOICES:
            l = rand_gpt(rng, S, count=rng.choice([4, 8, 12]), tiny=True)
            l['sector0'] = [bytes(512), protective_sector(77)][(r + (S > 512)) % 2]
            gpt_corruptions(ctx, G, S, l)
            if S == 512 or deep:
                l = rand_gpt(rng, S, count=4, tiny=True)
                l['sector0'] = hybrid_sector(rng)
                gpt_corruptions(ctx, G, S, l, mbr_valid=True)
            m = rand_mbr(rng, S, force='ext', tiny=True)
            while not py_wf(m):
                m = rand_mbr(rng, S, force='ext', tiny=True)
            mbr_corruptions(ctx, G, S, m)
    ctx.sample(dict(kind='corruption', field='revision', value=0x20000, expect='ValueError'))

    # ---- (iv) tiny / truncated images -----------------------------------------------------------
    for S in S_CHOICES:
        for l in (rand_gpt(rng, S, count=6, tiny=True), rand_mbr(rng, S, force='ext', tiny=True)):
            raw = G.build(S, l)
            cuts = {1, 2, 91, 92, 511, 512, 513, 603, 604, S - 1, S, S + 1, S + 91, S + 92, S + 93, 2 * S, 2 * S + 1,
                    len(raw) - 1, len(raw) - S, len(raw) - S - 1, len(raw) // 2, 3 * S + 100}
            if l['kind'] == 'gpt':
                cuts |= {l['tlba'] * S, l['tlba'] * S + 127, l['tlba'] * S + 128, l['tlba'] * S + 129}
            else:
                ext = next((s for s in l['slots'] if s[0] == 'ext'), None)
                if ext:
                    cuts |= {ext[2] * S, ext[2] * S + 511, ext[2] * S + 512, ext[2] * S + S}
            for c in sorted(c for c in cuts if 0 < c < len(raw)):
                image_case(ctx, G, S, raw[:c], f'truncated:{l["kind"]}@{c}')
        for n in (1, 100, 511, 512, 604, S + 92, 2 * S):
            b = bytearray(n)
            if n >= 512:
                b[510:512] = b'\x55\xaa'
            image_case(ctx, G, S, bytes(b), f'tiny:{n}')
    # a looping EBR chain: the implementation never returns (model: OutOfFuel)
    if G.R is not None:
        img = bytearray(512 * 12)
        img[0:512] = boot_sector(9, part_entry(5, 3, 6), EMPTY, EMPTY, EMPTY)
        img[3 * 512:4 * 512] = boot_sector(0, part_entry(0x83, 1, 1), part_entry(5, 0, 3), EMPTY, EMPTY)
        image_case(ctx, G, 512, bytes(img), 'ebr-loop')
    ctx.sample(dict(kind='truncated', note='images shorter than S+92 raise struct.error (not ValueError): compared with the model only'))


def replay(ctx, obj):
    r = obj['replay']
    S = r['S']
    if r.get('kind') == 'layout':
        l = r['layout']
        # json round trip: restore bytes / tuples
        def unhex(x):
            return bytes.fromhex(x['hex']) if isinstance(x, dict) and 'hex' in x else x
        if l['kind'] == 'gpt':
            l['disk_guid'] = unhex(l['disk_guid'])
            l['sector0'] = unhex(l['sector0'])
            for e in l['entries']:
                if e:
                    e['type'], e['guid'] = unhex(e['type']), unhex(e['guid'])
        else:
            l['slots'] = [tuple(s) for s in l['slots']]
            for s in l['slots']:
                if s[0] == 'ext':
                    for e in s[3]:
                        e['part'] = tuple(e['part']) if e['part'] else None
        raw = py_build(S, l)
        exp = expected(S, l)
        nums = [e[0] for e in exp]
        impl = impl_probe(raw, S, [0, -1, max(nums + [4]) + 1])
        print('layout   :', json.dumps(lib.jsonable(l))[:1500])
        print('expected :', exp)
        print('observed :', brief(impl))
        bad = oracle_layout(S, l, impl)
        print('verdict  :', bad[1] if bad else 'property holds')
        return bad is None
    if r.get('kind') == 'image':
        raw = bytes.fromhex(r['image']['hex'])
        impl = impl_probe(raw, S, [0, 1, 2, 5])
        print('observed :', brief(impl), ' required outcome:', r.get('expect'))
        if r.get('expect'):
            return (impl[1] if impl[0] == 'err' else 'accepted') == r['expect']
        return False
    print(json.dumps(r)[:2000])
    return False
