"""C14 -- All image mutations happen under the exclusive lock; locks always balance."""
import gc, json, threading, warnings, copy
import lib, fatimg, fatspec, fatops, fattrace
from props.c04 import new_volume, GUARD, jsonable_op, canon_spec, canon_nobodd, sort_tree, tree_diff

SPEC = {
    'rule': 'every operation of seeded histories (as C04, plus reads, listings, iterdir / glob / rglob generators that are '
            'exhausted, closed early or dropped, and atime-updating reads) is run with the file-system\'s RWLock wrapped by a '
            'recorder and the image diffed at every executed line of fs.py / path.py: each byte change must happen while '
            'the thread holds the write side, and the thread must hold nothing when the operation ends (return, raise, '
            'discarded generator). Atomicity probe: the operation is re-run on a copy of the volume and at every release of the '
            'exclusive lock inside it another thread reads the whole tree, which must be the tree before or after the '
            'operation (or after the open of an open-then-write composite); always run when the stores of an operation are '
            'spread over more than one exclusive section. Generator-window probe: iterdir / glob / rglob listings are consumed '
            'item by item while another thread tries to rename a listed file into a directory not yet visited; the listing must '
            'be the one before or after the rename. Upgrade-window probe: if an operation asks for the write side while holding '
            'only the read side, a conflicting operation of another thread is queued at that moment and outcomes and final tree '
            'must be those of a serial order. Thorough adds 2-4 real threads on disjoint sub-trees of one volume, compared with the '
            'serial result. Non-trivial = operation with at least one byte change; distinct = distinct (history, operation).',
    'trusted_base': [
        'Coq 8.16.1 kernel; theorems closed under the global context',
        'translator gen_fatskel.py: lock / mutation skeleton of every function of fs.py and path.py (AST)',
        'harness/fattrace.py: line-level image diffing (a change made and undone within one line is invisible)',
        'runtime residue: real pre-emption between bytecodes; generator finalisation by the garbage collector',
    ],
    'theorems': {},
    'assumptions': ['one RWLock per FatFileSystem, created in __init__ (the recorder wraps it there)'],
}


def read_ops(rng, t):
    """non-mutating operations (still must balance their locks)"""
    files = [p for p, k in all_paths(t) if k['kind'] == 'file']
    dirs = ['/'] + [p for p, k in all_paths(t) if k['kind'] == 'dir']
    kind = rng.choice(['read', 'read', 'iterdir', 'iterdir-partial', 'glob', 'rglob', 'rglob-partial', 'stat', 'exists', 'readtext'])
    if kind in ('read', 'stat', 'readtext') and files:
        return dict(op=kind, path=rng.choice(files))
    if kind.startswith('iterdir'):
        return dict(op=kind, path=rng.choice(dirs))
    if kind.startswith('glob') or kind.startswith('rglob'):
        return dict(op=kind, path=rng.choice(dirs), pattern=rng.choice(['*', '*.txt', '*/*', '[a-m]*', '**', 'x']))
    return dict(op='exists', path=rng.choice(files + dirs + ['/nope', '/a/b/c']))


def all_paths(t, n=None, base=''):
    n = n or t.root
    out = []
    for k in n['children'].values():
        p = base + '/' + k['name']
        out.append((p, k))
        if k['kind'] == 'dir':
            out += all_paths(t, k, p)
    return out


def do_read_op(fs, op):
    p = fs.root / op['path'].lstrip('/') if op['path'] != '/' else fs.root
    k = op['op']
    with warnings.catch_warnings():
        warnings.simplefilter('ignore')
        if k == 'read':
            with p.open('rb') as f:
                return len(f.read())
        if k == 'readtext':
            return len(p.read_bytes())
        if k == 'stat':
            return p.stat().st_size
        if k == 'exists':
            return p.exists()
        if k == 'iterdir':
            return [c.name for c in p.iterdir()]
        if k == 'iterdir-partial':
            it = p.iterdir()
            first = next(it, None)
            it.close()
            return first
        if k == 'glob':
            return [str(c) for c in p.glob(op['pattern'])]
        if k == 'rglob':
            return [str(c) for c in p.rglob(op['pattern'])]
        if k == 'rglob-partial':
            it = p.rglob(op['pattern'])
            first = next(it, None)
            del it                      # dropped, not closed
            gc.collect()
            return first
    raise ValueError(k)


def check_events(ctx, events, what, info, sig):
    ok = True
    for ev in events:
        if ev[0] == 'poke' and ev[4] <= 0:
            ctx.violation(sig + '/poke-without-write-lock',
                          f'{what}: bytes {ev[1]}..{ev[2]} of the image changed while the thread did not hold the write lock '
                          f'(read depth {ev[5]})', info)
            ok = False
            break
    last = [e for e in events if e[0] in ('acq', 'rel')]
    if last and (last[-1][2], last[-1][3]) != (0, 0):
        ctx.violation(sig + '/locks-not-released', f'{what}: the thread still holds the lock afterwards (write depth {last[-1][2]}, read depth {last[-1][3]})', info)
        ok = False
    return ok


def sections_with_stores(events):
    """number of separate exclusive sections (write depth 0 -> >0 -> 0) of one operation that contain a store"""
    n, depth, stored = 0, 0, False
    for e in events:
        if e[0] == 'acq' and e[1] == 'w':
            depth += 1
        elif e[0] == 'rel' and e[1] == 'w':
            depth -= 1
            if depth == 0:
                n += stored
                stored = False
        elif e[0] == 'poke' and depth > 0:
            stored = True
    return n


def legit_states(t_before, t_after, op):
    """the trees an observer may see between the PUBLIC operations an op of the harness consists of"""
    out = [t_before.canon(), t_after.canon()]
    k = op['op']
    if (k == 'write' and op.get('via') in ('open', 'exclusive')) or k == 'append':
        # open('wb' / 'xb' / 'ab') is a public operation of its own: it creates the file, or truncates it to nothing
        mid = copy.deepcopy(t_before)
        if fatops.apply_model(mid, dict(op='write', path=op['path'], data=b'', via='bytes')) == 'ok' and (k != 'append' or t_before.get(op['path']) is None):
            out.append(mid.canon())
    return out


def atomicity_probe(ctx, FatFileSystem, image_before, t_before, t_after, op, info):
    """Re-run one operation on a copy of the volume; every time the thread lets go of the exclusive lock, another
    thread reads the whole tree through fresh paths.  What it sees must be a state of SOME serial order: the tree
    before the operation, after it, or (for open-then-write composites) after the open."""
    import nobodd.fs as F
    buf = bytearray(image_before)
    seen = []
    state = dict(depth=0, fs=None, busy=False)
    def observe():
        try:
            with warnings.catch_warnings():
                warnings.simplefilter('ignore')
                seen.append(sort_tree(canon_nobodd(fatspec.dump_nobodd(state['fs']))))
        except BaseException as e:      # noqa: BLE001 -- an observer that crashes mid-operation is itself an observation
            seen.append(f'{type(e).__name__}: {e}')
    class W:
        def __init__(s, inner):
            s.inner = inner
        def acquire(s, *a, **k):
            r = s.inner.acquire(*a, **k)
            if r:
                state['depth'] += 1
            return r
        def release(s):
            s.inner.release()
            state['depth'] -= 1
            if state['depth'] == 0 and state['busy'] and threading.current_thread() is threading.main_thread():
                th = threading.Thread(target=observe)
                th.start()
                th.join(20)
        def __enter__(s):
            s.acquire()
            return s
        def __exit__(s, *exc):
            s.release()
    Real = F.RWLock
    class RW(Real):
        def __init__(s):
            super().__init__()
            s.write = W(s.write)
    F.RWLock = RW
    try:
        with warnings.catch_warnings():
            warnings.simplefilter('ignore')
            fs = FatFileSystem(memoryview(buf)[GUARD:len(buf) - GUARD])
    finally:
        F.RWLock = Real
    state['fs'] = fs
    try:
        state['busy'] = True
        fatops.apply_impl(fs, op)
        state['busy'] = False
    finally:
        state['busy'] = False
        try:
            fs.close()
        except Exception:
            pass
    ok = [sort_tree(x) for x in legit_states(t_before, t_after, op)]
    for k, obs in enumerate(seen):
        ctx.stat('atomicity-observations')
        if obs not in ok:
            d = obs if isinstance(obs, str) else (tree_diff(ok[1], obs) or tree_diff(ok[0], obs))
            ctx.violation('fs.atomic/intermediate-state-visible',
                          f'{jsonable_op(op)}: a reader scheduled at the {k + 1}. release of the exclusive lock inside the operation sees a tree that is '
                          f'neither the one before nor the one after it ({str(d)[:160]})', info)
            return False
    return True


def generator_window_probe(ctx, FatFileSystem):
    """A listing generator (iterdir / glob / rglob) is consumed one item at a time; after the first item another thread
    tries to rename a file already listed into a directory not yet visited.  The listing must be the one of the tree
    before or after the rename (with the lock held across the yields the writer simply waits)."""
    rng = ctx.rng
    for ft in ('fat12', 'fat16', 'fat32'):
        for kind, pattern in (('rglob', '*.txt'), ('glob', '**/*.txt'), ('rglob', '*')):
            g = fatimg.Geometry(ft, 120, spc=1, bps=512, nfats=2, root_entries=64, type_string=True)
            b = fatimg.Builder(g, rng)
            buf = bytearray(b.img)
            with warnings.catch_warnings():
                warnings.simplefilter('ignore')
                fs = FatFileSystem(memoryview(buf))
            try:
                (fs.root / 'a.txt').write_bytes(b'a')
                (fs.root / 'sub').mkdir()
                (fs.root / 'sub' / 'b.txt').write_bytes(b'b')
                (fs.root / 'sub' / 'deeper').mkdir()
                (fs.root / 'sub' / 'deeper' / 'c.txt').write_bytes(b'c')
                def listing():
                    return sorted(str(p) for p in getattr(fs.root, kind)(pattern))
                before = listing()
                it = getattr(fs.root, kind)(pattern)
                got = [str(next(it))]
                done = []
                def writer():
                    try:
                        (fs.root / 'a.txt').rename(fs.root / 'sub' / 'deeper' / 'a.txt')
                        done.append('ok')
                    except Exception as e:      # noqa: BLE001
                        done.append(repr(e))
                th = threading.Thread(target=writer)
                th.start()
                th.join(0.3)                    # with the lock held across the yields the writer is still waiting here
                got += [str(p) for p in it]
                th.join(10)
                after = listing()
                ctx.case(('generator-window', ft, kind, pattern), True, 'generator-window')
                if sorted(got) not in (before, after):
                    ctx.violation('fs.atomic/listing-not-serialisable',
                                  f'{kind}({pattern!r}) on {ft}, consumed item by item while another thread renames /a.txt to /sub/deeper/a.txt: '
                                  f'the listing {sorted(got)} is neither the one before {before} nor the one after {after} the rename',
                                  dict(fat_type=ft, kind=kind, pattern=pattern, listing=got, before=before, after=after, writer=done))
                    return False
            finally:
                try:
                    fs.close()
                except Exception:
                    pass
    return True


def interleaved_readers_probe(ctx, FatFileSystem):
    """Readers share the volume: two listings / look-ups may be in progress at once (each holds only the shared side).  One
    listing generator is consumed a few items at a time while, in between, fresh path objects list the same directory,
    resolve names in it and read files -- in one thread, so every interleaving point is chosen, not hoped for.  Each result
    must be what the operation gives alone (a serial order of pure reads).  Directories spanning several clusters (a FAT32
    root included) make per-directory read positions matter."""
    rng = ctx.rng
    for ft in ('fat32', 'fat16', 'fat12'):
        for where in ('root', 'sub'):
            g = fatimg.Geometry(ft, 200, spc=1, bps=512, nfats=2, root_entries=512, type_string=True)
            b = fatimg.Builder(g, rng)
            buf = bytearray(b.img)
            with warnings.catch_warnings():
                warnings.simplefilter('ignore')
                fs = FatFileSystem(memoryview(buf))
            try:
                base = (lambda: fs.root) if where == 'root' else (lambda: fs.root / 'many')
                if where == 'sub':
                    (fs.root / 'many').mkdir()
                names = [f'file number {k:02d} with a long name.txt' for k in range(40)]      # 40 x 4 records = 10 clusters of 16
                for k, n in enumerate(names):
                    (base() / n).write_bytes(bytes([k]) * (k + 1))
                want = sorted(names)
                it = base().iterdir()
                got = []
                info = dict(fat_type=ft, directory=where)
                for rnd in range(8):
                    for _ in range(5):
                        try:
                            got.append(next(it).name)
                        except StopIteration:
                            break
                    # other readers, through fresh paths, while the first listing is suspended
                    other = sorted(p.name for p in base().iterdir())
                    k = rng.randrange(len(names))
                    try:
                        data = (base() / names[k]).read_bytes()
                    except Exception as e:          # noqa: BLE001
                        data = repr(e)
                    ctx.case(('interleaved-readers', ft, where, rnd), True, 'interleaved-readers')
                    if other != want or data != bytes([k]) * (k + 1):
                        ctx.violation('fs.atomic/readers-disturb-each-other',
                                      f'{ft} {where} directory of {len(names)} long-named files ({where} spans several clusters): while one listing is '
                                      f'suspended after {len(got)} items, a second listing gives {len(other)} names (expected {len(want)}) and '
                                      f'reading {names[k]!r} gives {str(data)[:50]!r}', dict(info, suspended_after=len(got)))
                        return False
                got += [p.name for p in it]
                if sorted(got) != want:
                    ctx.violation('fs.atomic/readers-disturb-each-other',
                                  f'{ft} {where} directory: a listing consumed a few items at a time, with other readers in between, gives {len(got)} '
                                  f'names ({len(set(got))} distinct) instead of the {len(want)} the directory holds', dict(info, listing=got[:12]))
                    return False
            finally:
                try:
                    fs.close()
                except Exception:
                    pass
    return True


def two_volumes_probe(ctx, FatFileSystem):
    """Each FatFileSystem has its own lock.  A thread that holds volume A's shared side (inside a listing of A) and then
    writes to volume B must really take B's exclusive side: while ANOTHER thread holds B's shared side, a timed attempt by
    the first thread to get B's exclusive side must fail, and B's image must not change in the meantime."""
    rng = ctx.rng
    vols = []
    for ft in ('fat16', 'fat12'):
        g = fatimg.Geometry(ft, 60, spc=1, bps=512, nfats=2, root_entries=64, type_string=True)
        buf = bytearray(fatimg.Builder(g, rng).img)
        with warnings.catch_warnings():
            warnings.simplefilter('ignore')
            vols.append((FatFileSystem(memoryview(buf)), buf))
    (A, bufa), (B, bufb) = vols
    try:
        (A.root / 'one.txt').write_bytes(b'1'); (A.root / 'two.txt').write_bytes(b'2')
        (B.root / 'there.txt').write_bytes(b'b')
        holding, release, result = threading.Event(), threading.Event(), {}
        def reader_of_b():
            with B.lock.read:
                holding.set()
                release.wait(10)
        th = threading.Thread(target=reader_of_b)
        th.start()
        holding.wait(5)
        before = bytes(bufb)
        it = A.root.iterdir()
        next(it)                                    # this thread now holds A's shared side
        try:
            got = B.lock.write.acquire(timeout=0.3)
            if got:
                B.lock.write.release()
            result['write-side-of-B'] = got
        except Exception as e:                      # noqa: BLE001
            result['write-side-of-B'] = repr(e)
        # and a whole mutating operation on B: it must wait for B's reader (so it runs in a helper thread that ALSO holds A)
        done = []
        def writer_holding_a():
            it2 = A.root.iterdir(); next(it2)
            try:
                (B.root / 'new.txt').write_bytes(b'n'); done.append('ok')
            except Exception as e:                  # noqa: BLE001
                done.append(repr(e))
            list(it2)
        tw = threading.Thread(target=writer_holding_a)
        tw.start(); tw.join(0.4)
        changed_early = bytes(bufb) != before
        release.set(); th.join(5); tw.join(10); list(it)
        ctx.case(('two-volumes',), True, 'two-volumes')
        if result['write-side-of-B'] is not False or changed_early or done != ['ok']:
            ctx.violation('fs.locks/volumes-share-lock-state',
                          f'a thread inside a listing of volume A asked for the exclusive side of volume B while another thread held B\'s '
                          f'shared side: acquire(timeout) gave {result["write-side-of-B"]} (expected False); a write to B by a thread holding A '
                          f'changed B\'s image before B\'s reader let go: {changed_early}; its outcome {done}', dict(result={k: str(v) for k, v in result.items()}))
            return False
    finally:
        for fs, _ in vols:
            try:
                fs.close()
            except Exception:
                pass
    return True


def readonly_volume_probe(ctx, FatFileSystem):
    """Mutating operations on a volume mapped READ-ONLY (what DiskImage gives by default) must fail -- and, like every
    operation that raises, leave the calling thread holding nothing: another thread can take the lock afterwards."""
    rng = ctx.rng
    for ft in ('fat12', 'fat16', 'fat32'):
        g = fatimg.Geometry(ft, 80, spc=1, bps=512, nfats=2, root_entries=64, type_string=True)
        b = fatimg.Builder(g, rng)
        used = set()
        b.add(b.tree, 'f.txt', fatimg.alias_for('f.txt', used), data=b'x' * 700)
        d = b.add(b.tree, 'd', fatimg.alias_for('d', used), is_dir=True)
        b.add(d, 'inner.txt', fatimg.alias_for('inner.txt', set()), data=b'y')
        frozen = bytes(b.img)
        with warnings.catch_warnings():
            warnings.simplefilter('ignore')
            fs = FatFileSystem(memoryview(frozen))
        try:
            ops = [('unlink', lambda: (fs.root / 'f.txt').unlink()), ('mkdir', lambda: (fs.root / 'new').mkdir()),
                   ('rmdir', lambda: (fs.root / 'd').rmdir()), ('rename', lambda: (fs.root / 'f.txt').rename(fs.root / 'g.txt')),
                   ('touch', lambda: (fs.root / 't').touch()), ('write_bytes', lambda: (fs.root / 'f.txt').write_bytes(b'z')),
                   ('open-w', lambda: (fs.root / 'w').open('wb').close()), ('read_bytes', lambda: (fs.root / 'f.txt').read_bytes())]
            for label, fn in ops:
                outcome = 'returned'
                try:
                    with warnings.catch_warnings():
                        warnings.simplefilter('ignore')
                        fn()
                except BaseException as e:      # noqa: BLE001
                    outcome = type(e).__name__
                got = []
                th = threading.Thread(target=lambda: got.append(fs.lock.write.acquire(timeout=2) and (fs.lock.write.release() or True)))
                th.start(); th.join(5)
                ctx.case(('readonly', ft, label), True, 'readonly-volume')
                if got != [True]:
                    ctx.violation('fs.locks/locks-not-released', f'{label} on a read-only {ft} volume ({outcome}): afterwards another thread cannot take the '
                                  f'lock -- the failed operation left the calling thread holding it', dict(fat_type=ft, op=label, outcome=outcome))
                    return False
                if label != 'read_bytes' and outcome == 'returned':
                    ctx.violation('fs.locks/readonly-volume-mutated', f'{label} on a read-only {ft} volume returned normally', dict(fat_type=ft, op=label))
                    return False
        finally:
            try:
                fs.close()
            except Exception:
                pass
    return True


def torn_read_probe(ctx, FatFileSystem):
    """A whole-file read of a multi-cluster file; every time the reading thread lets go of the read side while the read
    is still running, another thread rewrites the file completely.  What the reader gets must be the old content or the
    new content, never a mixture."""
    import nobodd.fs as F
    rng = ctx.rng
    for ft in ('fat12', 'fat16', 'fat32'):
        for how in ('raw-readall', 'buffered-read', 'read_bytes'):
            g = fatimg.Geometry(ft, 120, spc=1, bps=512, nfats=2, root_entries=64, type_string=True)
            b = fatimg.Builder(g, rng)
            buf = bytearray(b.img)
            st = dict(r=0, busy=False, fs=None, fired=0)
            main = threading.main_thread()
            old, new = b'A' * (5 * g.cs + 7), b'B' * (5 * g.cs + 7)
            def rewrite():
                with warnings.catch_warnings():
                    warnings.simplefilter('ignore')
                    with (st['fs'].root / 'big.bin').open('r+b') as f:
                        f.write(new)
            class Rd:
                def __init__(s, inner):
                    s.inner = inner
                def acquire(s, *a, **k):
                    r = s.inner.acquire(*a, **k)
                    if r and threading.current_thread() is main:
                        st['r'] += 1
                    return r
                def release(s):
                    s.inner.release()
                    if threading.current_thread() is main:
                        st['r'] -= 1
                        if st['r'] == 0 and st['busy'] and st['fired'] < 3:
                            st['fired'] += 1
                            th = threading.Thread(target=rewrite)
                            th.start(); th.join(10)
                def __enter__(s):
                    s.acquire()
                    return s
                def __exit__(s, *exc):
                    s.release()
            Real = F.RWLock
            class RW(Real):
                def __init__(s):
                    super().__init__()
                    s.read = Rd(s.read)
            F.RWLock = RW
            try:
                with warnings.catch_warnings():
                    warnings.simplefilter('ignore')
                    fs = FatFileSystem(memoryview(buf))
            finally:
                F.RWLock = Real
            st['fs'] = fs
            try:
                with warnings.catch_warnings():
                    warnings.simplefilter('ignore')
                    (fs.root / 'big.bin').write_bytes(old)
                    if how == 'read_bytes':
                        st['busy'] = True
                        got = (fs.root / 'big.bin').read_bytes()
                        st['busy'] = False
                    else:
                        f = (fs.root / 'big.bin').open('rb', buffering=0 if how == 'raw-readall' else -1)
                        st['busy'] = True
                        got = f.readall() if how == 'raw-readall' else f.read()
                        st['busy'] = False
                        f.close()
            finally:
                st['busy'] = False
                try:
                    fs.close()
                except Exception:
                    pass
            ctx.case(('torn-read', ft, how), True, 'torn-read-probe')
            if got not in (old, new):
                mix = ''.join('A' if got[i * g.cs:(i + 1) * g.cs].startswith(b'A') else 'B' for i in range(6))
                ctx.violation('fs.atomic/torn-read', f'{how} of a 6-cluster file on {ft} while another thread rewrites it whenever the reader lets go of the '
                              f'read side: the reader got a mixture of old and new clusters ({mix})', dict(fat_type=ft, how=how, clusters=mix))
                return False
    return True


def conflicting_op(op):
    """an operation of another thread that a check-then-act on op's target must not let slip in"""
    k = op['op']
    if k == 'rmdir':
        return dict(op='write', path=op['path'] + '/slipped in.txt', data=b'x', via='bytes')
    if k == 'unlink':
        return dict(op='write', path=op['path'], data=b'rewritten meanwhile', via='bytes')
    if k == 'rename':
        return dict(op='write', path=op['target'], data=b'appeared meanwhile', via='bytes')
    if k == 'mkdir':
        return dict(op='mkdir', path=op['path'])
    if k in ('write', 'touch') and op.get('via') != 'open':
        return dict(op='unlink', path=op['path'])
    return None


def upgrade_probe(ctx, FatFileSystem, image_before, t_before, op, info):
    """Re-run one operation on a copy of the volume.  If the thread asks for the write side while it holds only the read
    side (an upgrade: the lock lets go of the read side first), a second thread with a conflicting operation is already
    queued for the write side at that moment.  Outcomes and final tree must be those of one of the two serial orders."""
    import nobodd.fs as F, time
    other = conflicting_op(op)
    if other is None:
        return True
    buf = bytearray(image_before)
    st = dict(r=0, w=0, fs=None, busy=False, fired=False, other_result=None, th=None)
    main = threading.main_thread()
    def run_other():
        st['other_result'] = fatops.apply_impl(st['fs'], other)
    class Wrap:
        def __init__(s, inner, side):
            s.inner, s.side = inner, side
        def acquire(s, *a, **k):
            me = threading.current_thread() is main
            if me and s.side == 'w' and st['busy'] and st['w'] == 0 and st['r'] > 0 and not st['fired']:
                st['fired'] = True
                st['th'] = threading.Thread(target=run_other)
                st['th'].start()
                time.sleep(0.3)             # the other thread is now waiting for the write side
            r = s.inner.acquire(*a, **k)
            if r and me:
                st[s.side] += 1
            return r
        def release(s):
            s.inner.release()
            if threading.current_thread() is main:
                st[s.side] -= 1
        def __enter__(s):
            s.acquire()
            return s
        def __exit__(s, *exc):
            s.release()
    Real = F.RWLock
    class RW(Real):
        def __init__(s):
            super().__init__()
            s.read, s.write = Wrap(s.read, 'r'), Wrap(s.write, 'w')
    F.RWLock = RW
    try:
        with warnings.catch_warnings():
            warnings.simplefilter('ignore')
            fs = FatFileSystem(memoryview(buf)[GUARD:len(buf) - GUARD])
    finally:
        F.RWLock = Real
    st['fs'] = fs
    try:
        st['busy'] = True
        mine = fatops.apply_impl(fs, op)
        st['busy'] = False
        if not st['fired']:
            return True
        st['th'].join(20)
        ctx.stat('upgrade-probes-fired')
        with warnings.catch_warnings():
            warnings.simplefilter('ignore')
            final = sort_tree(canon_nobodd(fatspec.dump_nobodd(fs)))
    finally:
        st['busy'] = False
        try:
            fs.close()
        except Exception:
            pass
    orders = []
    for first, second in ((op, other), (other, op)):
        t = copy.deepcopy(t_before)
        r1 = fatops.apply_model(t, dict(first))
        r2 = fatops.apply_model(t, dict(second))
        res = (r1, r2) if first is op else (r2, r1)
        orders.append((('ok' if res[0] == 'ok' else 'err', 'ok' if res[1] == 'ok' else 'err'), sort_tree(t.canon())))
    seen = (('ok' if mine == 'ok' else 'err', 'ok' if st['other_result'] == 'ok' else 'err'), final)
    if seen not in orders:
        ctx.violation('fs.atomic/upgrade-window',
                      f'{jsonable_op(op)} asks for the write side while holding only the read side; with {jsonable_op(other)} of another thread '
                      f'queued at that moment the outcomes are {mine} / {st["other_result"]} and the final tree is that of neither serial order',
                      dict(info, other=jsonable_op(other), outcomes=[mine, st['other_result']]))
        return False
    return True


def run(ctx, build):
    R = ctx.runner('Fat')
    rng = ctx.rng
    from nobodd.fs import FatFileSystem as _FFS
    if not generator_window_probe(ctx, _FFS):
        return
    if not torn_read_probe(ctx, _FFS):
        return
    if not interleaved_readers_probe(ctx, _FFS):
        return
    if not two_volumes_probe(ctx, _FFS):
        return
    # the lock these guarantees rest on: the scheduler-shim exploration of C13 (real RWLock vs the Coq model, stuck-state
    # search of the model replayed on the implementation), reduced
    from props import c13 as _c13
    ctx.lock_runs = 2500 if ctx.thorough else 400
    _c13.run(ctx, build)
    if ctx.violations:
        return

    if not readonly_volume_probe(ctx, _FFS):
        return
    nhist = 120 if ctx.thorough else 8
    if ctx.widen:
        nhist *= 2
    for h in range(nhist):
        g, buf, t = new_volume(rng, ctx.thorough, populated=(h % 2 == 0))
        tr = fattrace.Tracer(buf, slice(GUARD, len(buf) - GUARD))
        atime = (h % 3 == 0)
        fs = tr.open_fs(atime=atime)
        history = []
        try:
            for i in range(40 if ctx.thorough else 30):
                if rng.random() < 0.35:
                    op = read_ops(rng, t)
                    res, events = tr.run(lambda: do_read_op(fs, op))
                    mutating = False
                else:
                    op = fatops.gen_op(rng, t, g.cs)
                    need = len(op.get('data', b'')) // g.cs + 4 + (op.get('pos', 0) + op.get('size', 0)) // g.cs
                    if t.used_clusters(g.cs) + need > g.n_clusters - 6:
                        continue
                    t_before, image_before = copy.deepcopy(t), bytes(buf)
                    fatops.apply_model(t, op)
                    res, events = tr.run(lambda: fatops.apply_impl(fs, op))
                    mutating = True
                    if any(e[0] == 'acq' and e[1] == 'w' and e[2] == 1 and e[3] > 0 for e in events):
                        # the write side was taken while only the read side was held: an upgrade
                        ctx.stat('upgrades-seen')
                        if not upgrade_probe(ctx, _FFS, image_before, t_before, op,
                                             dict(geometry={k: v for k, v in vars(g).items()}, history=history + [jsonable_op(op)])):
                            return
                    if sections_with_stores(events) >= 2 or ctx.widen or ctx.thorough or i % 3 == 0:
                        ctx.stat('atomicity-probes')
                        if not atomicity_probe(ctx, _FFS, image_before, t_before, t, op,
                                               dict(geometry={k: v for k, v in vars(g).items()}, history=history + [jsonable_op(op)])):
                            return
                jop = jsonable_op(op)
                history.append(jop)
                npokes = sum(1 for e in events if e[0] == 'poke')
                ctx.case((h, i, json.dumps(jop, sort_keys=True)), npokes > 0, op['op'])
                ctx.stat('pokes', npokes)
                info = dict(geometry={k: v for k, v in vars(g).items()}, atime=atime, history=history,
                            events=[e[:3] + e[4:] if e[0] == 'poke' else e for e in events][:60])
                if not check_events(ctx, events, f'{jop}', info, 'fs.locks'):
                    return
                if not mutating and npokes and not atime:
                    ctx.violation('fs.locks/read-op-writes', f'{jop} changed the image (atime updates are off)', info)
                    return
            ctx.sample(dict(fat_type=g.fat_type, atime=atime, ops=len(history), last=history[-1] if history else None))
        finally:
            try:
                fs.close()
            except Exception:
                pass

    # ---- real threads on disjoint sub-trees: the result equals the serial result ------------------
    rounds = 20 if ctx.thorough else 2
    from nobodd.fs import FatFileSystem
    for r in range(rounds):
        g = fatimg.Geometry(rng.choice(['fat12', 'fat16', 'fat32']), 300, spc=1, bps=512, nfats=2, root_entries=128, type_string=True)
        b = fatimg.Builder(g, rng)
        buf = bytearray(b.img)
        nth = rng.choice([2, 3, 4])
        with warnings.catch_warnings():
            warnings.simplefilter('ignore')
            fs = FatFileSystem(memoryview(buf))
        trees = []
        errors = []
        try:
            for k in range(nth):
                (fs.root / f'thread{k}').mkdir()
            def worker(k, seed):
                import random
                lr = random.Random(seed)
                t = fatops.Tree()
                trees.append((k, t))
                try:
                    for _ in range(25):
                        op = fatops.gen_op(lr, t, g.cs)
                        if t.used_clusters(g.cs) > 60:
                            continue
                        op2 = dict(op)
                        op2['path'] = f'/thread{k}' + op['path']
                        if 'target' in op:
                            op2['target'] = f'/thread{k}' + op['target']
                        want = fatops.apply_model(t, op)
                        got = fatops.apply_impl(fs, op2)
                        if (want == 'ok') != (got == 'ok'):
                            errors.append((k, jsonable_op(op2), want, got))
                            return
                except Exception as e:
                    errors.append((k, 'exception', repr(e)))
            ths = [threading.Thread(target=worker, args=(k, ctx.seed * 1000 + r * 10 + k)) for k in range(nth)]
            for th in ths: th.start()
            for th in ths: th.join(120)
            ctx.case(('threads', r, nth), True, f'threads-{nth}')
            info = dict(fat_type=g.fat_type, threads=nth, errors=errors)
            if any(th.is_alive() for th in ths):
                ctx.violation('fs.threads/deadlock', f'{nth} threads on one volume did not finish', info)
                continue
            if errors:
                ctx.violation('fs.threads/outcome', f'concurrent operation outcome differs from its serial outcome: {errors[0]}', info)
                continue
            vol = bytes(buf)
            probs = fatspec.spec_wf(R, vol)
            if probs:
                ctx.violation('fs.threads/structural', f'after {nth} concurrent threads the structural check fails: {probs[:3]}', info)
                continue
            geom, spec = fatspec.spec_abs(R, vol)
            for k, t in trees:
                node = next((c for c in spec['children'] if c['name'] == f'thread{k}'), None)
                want = ('D', f'thread{k}', t.canon()[2])
                d = tree_diff(want, canon_spec(node)) if node else 'directory missing'
                if d:
                    ctx.violation('fs.threads/not-serialisable', f'thread {k}: final content differs from every serial order: {d}', info)
                    break
        finally:
            try:
                fs.close()
            except Exception:
                pass


def replay(ctx, obj):
    print(json.dumps(obj, indent=1)[:4000])
    return False
