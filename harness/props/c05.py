"""C05 -- No datagram can stop the server or make it emit an ill-formed packet."""
import struct, json
import lib
from tftpdrv import Session, addr_of
from props.c20 import gen_fuzz, gen_packet

SPEC = {
    'rule': 'structured and random hostile datagrams (every opcode, truncations, option mixes, invalid UTF-8, '
            'inf/nan/huge numerics, unknown error codes, block 0, up to the UDP maximum) sent to the listening port '
            'and to live transfer ports from the right and from wrong endpoints at random stages, through the real '
            'handler classes in-process; replies and state digests compared with the extracted model after every '
            'event; oracle: independent RFC 1350/2347 grammar on every reply, inertness of garbage, and a control '
            'transfer afterwards. Non-trivial = datagram longer than 2 bytes; distinct = distinct (port kind, datagram).',
    'trusted_base': [
        'Coq 8.16.1 kernel; theorems closed under the global context',
        'translator gen_tftp.py (constants, comparisons, canonical hashes of the handler ladders)',
        'extraction + runner; harness fake sockets',
        'modelled not verified: socketserver.handle_error (logs and continues), liveness of real threads',
    ],
    'theorems': {},
    'assumptions': ['ERROR message texts are compared up to their fixed prefix (the tail is exception text)'],
}


def wf_reply(b, B=65464):
    """independent grammar for what a TFTP server may send"""
    if len(b) < 4:
        return 'too short'
    op = b[0] * 256 + b[1]
    if op == 3:
        k = b[2] * 256 + b[3]
        if not 1 <= k <= 65535:
            return 'DATA block out of range'
        if len(b) - 4 > B:
            return 'DATA payload longer than block size'
        return None
    if op == 5:
        code = b[2] * 256 + b[3]
        if code > 8:
            return 'unknown error code'
        if not b.endswith(b'\0') or b'\0' in b[4:-1]:
            return 'ERROR message not a single NUL-terminated string'
        if any(c > 127 for c in b[4:-1]):
            return 'ERROR message not ASCII'
        return None
    if op == 6:
        parts = b[2:].split(b'\0')
        if parts[-1] != b'' or len(parts) % 2 != 1 or any(not p for p in parts[0:-1:2]):
            return 'OACK not a sequence of name NUL value NUL'
        return None
    return f'opcode {op} is not something a server sends'


def acceptable_rrq(b, files):
    from nobodd.tftp import Packet, RRQPacket, WRQPacket
    try:
        p = Packet.from_bytes(b)
    except Exception:
        return False
    return type(p) is RRQPacket and isinstance(files.get(p.filename), (bytes, bytearray))


def calm_transfer(S, cid, name, content, now, opts=b''):
    """loss-free transfer through session S; returns bytes received or an explanation"""
    sent = S.packet(0, cid, b'\0\1' + name + b'\0octet\0' + opts, now)
    if len(sent) != 1:
        return f'no single reply to RRQ: {sent}'
    tid, cur, _ = sent[0]
    B = S.sim.subs[tid].client_state.block_size if tid in S.sim.subs else 512
    got, blk = b'', 0
    if cur[:2] == b'\0\3':
        got, blk = cur[4:], 1
    elif cur[:2] != b'\0\6':
        return f'unexpected first reply {cur[:30]!r}'
    for _ in range(100000):
        now += 10
        if cur[:2] == b'\0\3' and len(cur) - 4 < B:
            S.packet(tid, cid, struct.pack('!HH', 4, blk), now)
            return got
        out = S.packet(tid, cid, struct.pack('!HH', 4, blk), now)
        if len(out) != 1 or out[0][1][:2] != b'\0\3':
            return f'transfer broke at block {blk}: {out}'
        cur = out[0][1]
        blk = cur[2] * 256 + cur[3]
        got += cur[4:]
    return 'did not finish'


REAL = r'''
import random
rng = random.Random(%(seed)d)
with tempfile.TemporaryDirectory() as d:
    data = bytes(rng.getrandbits(8) for _ in range(1300))
    open(os.path.join(d, 'ok.bin'), 'wb').write(data)
    srv, th = start(d)
    hostile = [b'', b'\0', b'\1', b'\5', b'\xff', b'\0\0', b'\0\5', b'\0\1', b'\0\2', b'\0\3', b'\0\4', b'\0\6', b'\0\7', b'\xff\xff',
               b'\0\1\0', b'\0\1a\0', b'\0\1a\0octet', b'\0\1\xff\xfe\0octet\0', b'\0\2x\0octet\0', b'\0\3\0\1data', b'\0\4\0\1',
               b'\0\5\0\1gone\0', b'\0\5\0\5', b'\0\6blksize\0' + b'8\0', b'\0\1ok.bin\0octet\0blksize\0' + b'7\0',
               b'\0\1ok.bin\0octet\0timeout\0nan\0', b'\0\1' + b'a' * 2000 + b'\0octet\0', bytes(65507), b'\0\1' + bytes(range(1, 256)) + b'\0octet\0']
    hostile += [bytes(rng.getrandbits(8) for _ in range(rng.choice([1, 1, 2, 3, 5, 9, 40]))) for _ in range(%(extra)d)]
    res = {'bad': [], 'sent': 0}
    for i, h in enumerate(hostile):
        c = Client(srv.server_address, 0.3)
        try:
            c.s.sendto(h, srv.server_address)
        except OSError:
            c.close(); continue
        r = c.recv(); c.close()
        res['sent'] += 1
        if r is not None and r[0][:2] != b'\0\5' and not (h[:2] == b'\0\1' and r[0][:2] in (b'\0\3', b'\0\6')):
            res['bad'].append(dict(datagram=h[:40].hex(), reply=r[0][:40].hex(), why='reply is not an ERROR packet'))
        if i %% 4 == 3 or len(h) <= 2:
            c = Client(srv.server_address, 5.0); c.rrq(b'ok.bin'); c.run()
            if not (c.finished and c.buf == data) and th.is_alive():
                c.close(); c = Client(srv.server_address, 5.0); c.rrq(b'ok.bin'); c.run()     # once more: a loaded machine is not a dead server
            if not (c.finished and c.buf == data) or not th.is_alive():
                res['bad'].append(dict(datagram=h[:40].hex(), length=len(h), why='after this datagram a valid request is no longer served',
                                       listener_alive=th.is_alive(), got=len(c.buf)))
                c.close()
                break
            c.close()
    srv.shutdown(); srv.server_close()
print(json.dumps(res))
'''


def real_hostile(ctx):
    """real sockets and threads: hostile datagrams to the listening port of a real server (socketserver's own
    verify_request / handle_error path included), a valid transfer after every few of them"""
    import realserver
    res = realserver.run_script(REAL % dict(seed=ctx.seed, extra=120 if ctx.thorough else 30), timeout=240)
    ctx.case(('real-hostile',), True, 'real-udp')
    if res.get('crash'):
        ctx.violation('tftpd.real/harness-crash', f'real-UDP scenario crashed: {res.get("stderr", "")[-300:]}', res)
        return
    ctx.stat('real-hostile-datagrams', res.get('sent', 0))
    if res['bad']:
        b = res['bad'][0]
        ctx.violation('tftpd.real/hostile-datagram', f'real server, datagram {b.get("datagram")} ({b.get("length", "?")} bytes): {b["why"]}', dict(result=res))


def run(ctx, build):
    # a serial spelled in dozens of ways, boards sharing an image, closing the server: the boot server keeps answering and
    # holds one volume per board (the resource tier of C09, run here because such requests must not wear the server out)
    from props import c09 as _c09
    _c09.boot_resources(ctx)
    if ctx.violations:
        return
    real_hostile(ctx)
    R = ctx.try_runner('Tftp')
    rng = ctx.rng
    nsess = 5000 if ctx.thorough else 80
    if ctx.widen:
        nsess *= 2
    replies = 0
    for i in range(nsess):
        content = bytes(rng.getrandbits(8) for _ in range(rng.choice([0, 5, 40, 100, 1030])))
        files = {'ok.bin': content, 'secret': 2, 'dir': 3, 'io': 4, 'café': b'utf8 name'}
        S = Session(files)
        try:
            now = 5000
            # a live transfer to attack
            victim_B = rng.choice([8, 16, 512])
            sent = S.packet(0, 1, b'\0\1ok.bin\0octet\0blksize\0' + str(victim_B).encode() + b'\0', now)
            vt = sent[0][0] if sent and sent[0][0] != 0 else None
            stage = 0
            for j in range(rng.choice([20, 60, 150])):
                now += rng.choice([1, 1000, 10 ** 6, 10 ** 8])
                r = rng.random()
                if r < 0.08 and vt in S.sim.subs:       # let the victim progress
                    S.packet(vt, 1, struct.pack('!HH', 4, stage), now)
                    stage = min(stage + 1, S.sim.subs[vt].client_state.blocks_read) if vt in S.sim.subs else stage
                    continue
                if r < 0.12 and S.sim.subs:
                    S.tick(rng.choice(list(S.sim.subs)), now)
                    continue
                d = gen_fuzz(rng) if rng.random() < 0.8 else bytes(gen_packet(rng))
                if rng.random() < 0.01:
                    d = d + bytes(rng.getrandbits(8) for _ in range(rng.choice([2000, 65507 - len(d)])))
                if rng.random() < 0.03:
                    d = b'\0\1' + bytes(rng.choice(b'Aa/.b') for _ in range(rng.choice([256, 480, 507, 508, 509, 520, 2000]))) + b'\0octet\0'
                if rng.random() < 0.04:
                    d = b'\0\1' + rng.choice([b'ok.bin', b'secret', b'dir', b'io', b'nope', 'café'.encode(), b'ok.bin\0octet\0blksize\0' + rng.choice([b'7', b'8', b'inf', b'1e9']) + b'\0x']) + b'\0octet\0' + \
                        rng.choice([b'', b'timeout\0inf\0', b'timeout\0nan\0', b'timeout\x001e400\0', b'utimeout\0abc\0', b'blksize\0' + str(2 ** 70).encode() + b'\0'])
                to_main = rng.random() < 0.45 or not S.sim.subs
                if to_main:
                    before = S.sim.digest()
                    nsubs = len(S.sim.subs)
                    out = S.packet(0, rng.choice([1, 2, 3]), d, now)
                    ok_rrq = acceptable_rrq(d, files)
                    ctx.case(('main', d), len(d) > 2, 'listen-' + ('rrq' if ok_rrq else 'hostile'))
                    for t, b, a in out:
                        replies += 1
                        why = wf_reply(b)
                        if why:
                            ctx.violation('tftpd.listen/ill-formed-reply', f'{d[:40]!r} on the listening port answered by {b[:40]!r}: {why}',
                                          dict(port='listen', datagram=d, reply=b, events=[list(e) for e in S.events[-5:]]))
                        elif not ok_rrq and b[:2] != b'\0\5':
                            ctx.violation('tftpd.listen/non-error-reply', f'{d[:40]!r} is not an acceptable RRQ but was answered by {b[:30]!r}',
                                          dict(port='listen', datagram=d, reply=b))
                    if not ok_rrq and (len(S.sim.subs) != nsubs or S.sim.digest() != before):
                        ctx.violation('tftpd.listen/garbage-changes-state', f'{d[:40]!r} changed server state',
                                      dict(port='listen', datagram=d, events=[list(e) for e in S.events[-5:]]))
                else:
                    tid = rng.choice(list(S.sim.subs))
                    right = rng.random() < 0.5
                    owner = next(k for k in (1, 2, 3) if addr_of(k) == S.sim.subs[tid].client_state.address)
                    src = owner if right else rng.choice([x for x in (1, 2, 3, 9) if x != owner])
                    before = S.sim.digest()
                    out = S.packet(tid, src, d, now)
                    ctx.case(('sub', right, d), len(d) > 2, 'transfer-' + ('right' if right else 'foreign'))
                    Bt = S.sim.subs[tid].client_state.block_size
                    for t, b, a in out:
                        replies += 1
                        why = wf_reply(b, Bt)
                        if why or b[:2] == b'\0\6':
                            ctx.violation('tftpd.transfer/ill-formed-reply', f'{d[:40]!r} on a transfer port answered by {b[:40]!r}: {why or "OACK"}',
                                          dict(port='transfer', datagram=d, reply=b, events=[list(e) for e in S.events[-5:]]))
                    if not right and (out or S.sim.digest() != before):
                        ctx.violation('tftpd.transfer/foreign-not-ignored', f'datagram {d[:40]!r} from a foreign endpoint changed the transfer or was answered',
                                      dict(port='transfer', datagram=d, events=[list(e) for e in S.events[-5:]]))
                if S.outs[-1][1] is not None:
                    ctx.stat('handler-raised-' + S.outs[-1][1])
            # service after the attack: a fresh valid request is served correctly
            got = calm_transfer(S, 7, b'ok.bin', content, now + 100, rng.choice([b'', b'blksize\x0016\0']))
            if got != content:
                ctx.violation('tftpd/service-after-garbage', f'control transfer after hostile datagrams failed: {str(got)[:100]}',
                              dict(events=[list(e) for e in S.events[-60:]], file=content))
            # refusals and WRQ
            for req, code in ((b'\0\2ok.bin\0octet\0', None), (b'\0\1nope\0octet\0', 1), (b'\0\1secret\0octet\0', 2)):
                out = S.packet(0, 8, req, now + 10 ** 7)
                if len(out) != 1 or out[0][1][:2] != b'\0\5' or (code is not None and out[0][1][2:4] != struct.pack('!H', code)):
                    ctx.violation('tftpd.listen/refusal', f'{req!r} should be refused with an ERROR packet (code {code}); got {out}',
                                  dict(datagram=req))
            S.compare(ctx, R, 'tftpd.handlers')
            if i == 0:
                ctx.sample(dict(n_events=len(S.events), first=[list(e)[:4] for e in S.events[:3]]))
        finally:
            S.close()
    ctx.extra['replies_checked'] = replies


def replay(ctx, obj):
    print(json.dumps(obj, indent=1)[:4000])
    return False
