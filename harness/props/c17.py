"""C17 -- preparing an image rewrites exactly the command line and the listed files."""
import argparse, binascii, contextlib, copy, io, itertools, json, logging, os, random, shutil
import struct, sys, tempfile, traceback, uuid, warnings
from pathlib import Path
import lib
import mkfat

SPEC = {
    'rule': 'correspondence: model (extracted from coq/Prep/Model.v) vs CPython/nobodd on (a) the white-space set over '
            'all of range(0x110000), (b) str.split/strip/int(s,16)/int(s) exhaustively over a small alphabet plus '
            'seeded strings, (c) config.serial on generated spellings, (d) str(Board)+reader vs '
            'nobodd.server.get_parser()/Board.from_section, (e) prep.rewrite_cmdline on a real FAT volume for generated '
            'command lines (0-3 lines, LF/CRLF/CR/no newline, 0-3 root= parameters anywhere, ASCII and non-ASCII '
            'white space, empty / blank first line); oracle: nobodd.prep.main(argv) on harness-built MBR/GPT images '
            '(FAT12/16/32 boot partition, raw second partition, optional logical/second FAT partition) with random '
            '--remove/--copy sets (files, nested trees, missing items, nested paths), the full tree of the boot '
            'partition compared with the tree predicted from the arguments, bytes outside the boot partition, file '
            'size, emitted board text read back through nobodd.server.get_parser(). A case is non-trivial when it '
            'contains white space to collapse / a root= parameter / a prefix rule / a nested tree; distinct = distinct '
            '(api, input).',
    'trusted_base': [
        'Coq 8.16.1 kernel (vm_compute used only in closed Examples)',
        'translator harness/gen_prep.py: statement-by-statement shape match of rewrite_cmdline, serial, Board.__str__, '
        'Board.from_section, _get_config_parser, server.get_parser board sections, remove_items removal order, '
        'open_file free names',
        'extraction: ExtrOcamlBasic only; runner/driver.ml; OCaml 4.13.1',
        'modelled not verified: str.isspace set (compared with the running CPython on every run), io.TextIOWrapper '
        'universal newlines, UTF-8 codec, int() grammar on ASCII, format(n, "x"/"d"), pathlib.Path normalisation, '
        'configparser line grammar (reader SPEC compared with the real parser on generated sections), argparse',
        'prep_tree_spec rests on the FAT tree model proved under C04 (nobodd/fs.py, nobodd/path.py): here only observed',
    ],
    'theorems': {
        'C17_split_spec': 'full (split_ws = the unique tokenisation: maximal white-space-free runs)',
        'C17_split_words_clean': 'full', 'C17_split_concat': 'full',
        'C17_first_line_spec': 'full',
        'C17_cmdline_spec': 'full (all texts, hosts, shares, partition numbers)',
        'C17_cmdline_filter': 'full (no root= word survives, every other word survives, order kept)',
        'C17_cmdline_reapply': 'full: a second run keeps the result except that "ip=dhcp nbdroot=H/S" is repeated '
                               'after the three leading parameters (white-space-free host/share)',
        'C17_cmdline_not_idempotent': 'full (exists-witness): the rewrite is NOT a fixpoint on its own output; '
                                      'the property text does not require it',
        'C17_serial_roundtrip': 'full (any case, any number of leading zeros, surrounding white space)',
        'C17_serial_show': 'full (serial (hex n) = n)',
        'C17_serial_prefix': 'full (10000000/00000000 + >= 8 hex digits -> value of the rest)',
        'C17_serial_range': 'full (accepted => 0..0xFFFFFFFF; too large => ValueError)',
        'C17_board_roundtrip': 'full under the boolean guard path_ok (absolute, no CR/LF, no trailing white space)',
        'C17_remove_order_children_first': 'fact regenerated from remove_items (children before parents)',
        'C17_open_file_names_bound': 'fact regenerated from tools.py (open_file uses only bound names)',
        'prep_tree_spec': 'oracle/correspondence only (partial): the FAT tree model is proved under C04',
    },
    'assumptions': [
        'command-line file is valid UTF-8 and the locale encoding is UTF-8 (TextIOWrapper default encoding)',
        'host/share names contain no CR/LF (they are written verbatim into the first line)',
        'int(): only ASCII digits are modelled (CPython also accepts other Unicode decimal digits)',
        'image path: absolute after resolve(), free of CR/LF and trailing white space (guard path_ok); other paths are '
        'not read back identically by configparser (value is stripped / split at line breaks)',
        'root partition number >= 0',
    ],
}

AVOID_FS_DEFECTS = os.environ.get('C17_NO_AVOID', '') == ''


# ====================================================================== helpers
def impl_call(fn, *a, **k):
    try:
        return ('ok', fn(*a, **k))
    except Exception as e:
        return ('err', type(e).__name__)


def T(v):
    return lib.as_text(v)


SPACES = None


def py_spaces():
    global SPACES
    if SPACES is None:
        SPACES = [c for c in range(0x110000) if chr(c).isspace()]
    return SPACES


# ---------------------------------------------------------------------- independent specifications
def spec_first_line(text):
    """first line of a text file as Python's text layer delivers it (CRLF / CR / LF end a line)"""
    for i, ch in enumerate(text):
        if ch in '\r\n':
            return text[:i]
    return text


def spec_words(line):
    """maximal runs of non-white-space characters"""
    out, cur = [], ''
    for ch in line:
        if ch.isspace():
            if cur:
                out.append(cur)
            cur = ''
        else:
            cur += ch
    if cur:
        out.append(cur)
    return out


def spec_cmdline(text, host, name, rootp):
    words = [w for w in spec_words(spec_first_line(text)) if w[:5] != 'root=']
    return ' '.join(['ip=dhcp', 'nbdroot=%s/%s' % (host, name), 'root=/dev/nbd0p%d' % rootp] + words)


# ====================================================================== (i) correspondence
def corr_whitespace(ctx, R):
    model = R.call('spaces', ())
    real = py_spaces()
    ctx.case('spaces', True, 'whitespace-set')
    if list(model) != real:
        ctx.violation('model/whitespace-set', f'model white-space set {model} differs from CPython {real}',
                      dict(api='spaces', model=list(model), impl=real))
        return
    # str.split() and str.strip() use exactly that set (every code point; surrogates cannot be in files but are str)
    bad_split = [c for c in range(0x110000) if (len(('a' + chr(c) + 'b').split()) == 2) != (c in set(real))]
    bad_strip = [c for c in range(0x110000) if ((chr(c) + 'b' + chr(c)).strip() == 'b') != (c in set(real))]
    ctx.case('split-set', True, 'whitespace-set'); ctx.case('strip-set', True, 'whitespace-set')
    if bad_split or bad_strip:
        ctx.violation('model/whitespace-use', f'str.split/strip disagree with isspace on {bad_split[:5]} {bad_strip[:5]}',
                      dict(api='spaces-use', split=bad_split, strip=bad_strip))
    flags = R.call('is_space', list(range(0, 0x3100)))
    want = [1 if chr(c).isspace() else 0 for c in range(0, 0x3100)]
    ctx.case('is_space-table', True, 'whitespace-set')
    if flags != want:
        ctx.violation('model/is_space', 'is_space differs from str.isspace below U+3100', dict(api='is_space'))


def gen_cmdline(rng):
    words = ['console=serial0,115200', 'console=tty1', 'root=/dev/mmcblk0p2', 'root=PARTUUID=0a1b-02', 'root=LABEL=writable',
             'rootfstype=ext4', 'rootwait', 'fixrtc', 'quiet', 'splash', 'root=', 'xroot=1', 'ROOT=x', 'root', 'ro',
             'nbdroot=old/x', 'ip=dhcp', 'ip=off', 'é=ü', '日本=語', 'a', 'root=/dev/nbd0p2', 'init=/bin/sh', 'r', 'roo', 'root=root=']
    seps = [' ', ' ', ' ', '  ', '\t', ' \t ', '\x0b', '\x0c', '\x1c', '\x1d\x1e', '\x1f', '\xa0', ' ', '\x85', '　',
            ' ', '  ']
    ends = ['\n', '\n', '\r\n', '\r', '']
    nlines = rng.choice([0, 1, 1, 1, 2, 2, 3])
    text = ''
    for ln in range(nlines):
        kind = rng.randrange(10)
        if kind == 0:
            line = ''
        elif kind == 1:
            line = ''.join(rng.choice(seps) for _ in range(rng.randrange(1, 4)))
        else:
            n = rng.randrange(1, 8)
            ws = [rng.choice(words) for _ in range(n)]
            nroot = rng.choice([0, 0, 1, 1, 2, 3])
            for _ in range(nroot):
                ws.insert(rng.randrange(len(ws) + 1), rng.choice([w for w in words if w.startswith('root=')]))
            line = ''
            if rng.random() < 0.3:
                line += rng.choice(seps)
            for i, w in enumerate(ws):
                if i:
                    line += rng.choice(seps)
                line += w
            if rng.random() < 0.3:
                line += rng.choice(seps)
        end = rng.choice(ends) if ln < nlines - 1 else rng.choice(ends + [''])
        if ln < nlines - 1 and end == '':
            end = '\n'
        text += line + end
    return text


def small_texts(maxlen):
    toks = [' ', '\n', '\r', 'a', 'root=', '\t', 'b=1']
    for n in range(maxlen + 1):
        for t in itertools.product(toks, repeat=n):
            yield ''.join(t)


def corr_text(ctx, R):
    rng = ctx.rng
    texts = list(small_texts(5 if ctx.thorough else 4))
    texts += [gen_cmdline(rng) for _ in range(3000 if ctx.thorough else 800)]
    texts += ['\x1c', 'a\x1cb', 'a\xa0b', ' x ', 'a\x85b\nc', 'x\r', '\r\nx', 'a\r\r\nb', 'a\n\rb']
    sp = R.batch('split', texts)
    st = R.batch('strip', texts)
    un = R.batch('univ_nl', texts)
    fl = R.batch('first_line', texts)
    for t, a, b, c, d in zip(texts, sp, st, un, fl):
        nt = any(ch.isspace() for ch in t)
        ctx.case(('split', t), nt, 'str.split')
        if [T(x) for x in a] != t.split():
            ctx.violation('model/str.split', f'{t!r}.split() = {t.split()} but model says {[T(x) for x in a]}',
                          dict(api='split', text=t))
        if t.split() != spec_words(t):
            ctx.violation('spec/str.split', f'{t!r}.split() is not the maximal-run tokenisation', dict(api='split-spec', text=t))
        ctx.case(('strip', t), nt, 'str.strip')
        if T(b) != t.strip():
            ctx.violation('model/str.strip', f'{t!r}.strip() = {t.strip()!r} but model says {T(b)!r}', dict(api='strip', text=t))
        # universal newlines as TextIOWrapper does it
        real = io.TextIOWrapper(io.BytesIO(t.encode('utf-8')), encoding='utf-8', newline=None).read()
        ctx.case(('univ_nl', t), '\r' in t, 'text-layer')
        if T(c) != real:
            ctx.violation('model/universal-newlines', f'text layer reads {t!r} as {real!r}, model {T(c)!r}',
                          dict(api='univ_nl', text=t))
        ctx.case(('first_line', t), '\n' in t, 'first-line')
        want = t[:t.index('\n')] if '\n' in t else t
        if T(d) != want:
            ctx.violation('model/first-line', f'first line of {t!r}: {want!r}, model {T(d)!r}', dict(api='first_line', text=t))
    ctx.sample(dict(api='split', text=' a\tb\x1cc\xa0d ', result=' a\tb\x1cc\xa0d '.split()))


def gen_int_strings(rng, n):
    hexd = '0123456789abcdefABCDEF'
    out = []
    for _ in range(n):
        k = rng.randrange(8)
        ln = rng.choice([1, 2, 4, 7, 8, 9, 15, 16, 17, 24])
        body = ''.join(rng.choice(hexd) for _ in range(ln))
        if k == 0:
            body = '0' * rng.randrange(0, 12) + body
        elif k == 1:
            body = rng.choice(['10000000', '00000000', '1000000', '000000000', '20000000', '10000001']) + body
        elif k == 2:
            body = rng.choice(['0x', '0X', '0x_', '+0x', '-0x', '0x0x', 'x']) + body
        elif k == 3:
            i = rng.randrange(len(body) + 1)
            body = body[:i] + rng.choice(['_', '__', ' ', 'g', '.', '_']) + body[i:]
        elif k == 4:
            body = rng.choice(['+', '-', '+-', ' +', '+ ']) + body
        elif k == 5:
            body = rng.choice(['10000000', '00000000']) + ''.join(rng.choice(hexd) for _ in range(8))
        if rng.random() < 0.3:
            ws = [' ', '\t', '\n', '\x0b', '\x1c', '\x1f', '\xa0', ' ', '\x85']
            body = rng.choice(ws) * rng.randrange(0, 3) + body + rng.choice(ws) * rng.randrange(0, 3)
        out.append(body)
    return out


def corr_int_serial(ctx, R):
    import nobodd.config as config
    rng = ctx.rng
    alpha = ['0', '1', 'a', 'F', 'x', '_', '+', '-', 'g', ' ']
    L = 5 if ctx.thorough else 4
    strs = [''.join(t) for n in range(L + 1) for t in itertools.product(alpha, repeat=n)]
    strs += gen_int_strings(rng, 6000 if ctx.thorough else 1500)
    strs += ['0X1F', '0x', '0x_1', '0x__1', '_1', '1_', '1_f', '0_x1', '\x1c1f', '1f\x1c', '\xa01f ', '0b1', '0o7',
             '10000000' * 2, '00000000' * 3, '1000000000000000', '100000000', 'ffffffff', 'FFFFFFFF', '100000000',
             '-0', '+0', '0000000000000000', '00000000', '10000000', '1000000012345678', '0000000012345678',
             '10000000123456789', '100000000x1f', '00000000_1f', '0000000000000-1f', '10000000+1234567']
    for base in (16, 10):
        rs = R.batch('pyint', [(base, s) for s in strs])
        for s, r in zip(strs, rs):
            m = R.unres(r)
            got = impl_call(int, s, base)
            ctx.case(('int', base, s), len(s) > 1, f'int-base{base}')
            if got != m:
                ctx.violation('model/int', f'int({s!r}, {base}) = {got} but model says {m}', dict(api='pyint', base=base, s=s))
    rs = R.batch('serial', strs)
    for s, r in zip(strs, rs):
        m = R.unres(r)
        got = impl_call(config.serial, s)
        st = s.strip()
        ctx.case(('serial', s), len(st) >= 16 or st != s, 'serial')
        if got != m:
            ctx.violation('model/serial', f'config.serial({s!r}) = {got} but model says {m}', dict(api='serial', s=s))
    # oracle: the statement of the property on the implementation
    for _ in range(1500 if ctx.thorough else 400):
        n = rng.choice([0, 1, 0xFFFFFFFF, 0x10000000, rng.randrange(1 << 32), rng.randrange(1 << 16)])
        for sp, want in serial_spellings(rng, n):
            got = impl_call(config.serial, sp)
            ctx.case(('serial-spelling', sp), True, 'serial-oracle')
            if got != ('ok', want):
                ctx.violation('config.serial/spelling', f'serial({sp!r}) = {got}, expected {want:#x}',
                              dict(api='serial-oracle', s=sp, expected=want))
    for s in ['100000000', 'fffffffff', '-1', '1000000100000000', '2000000012345678']:
        got = impl_call(config.serial, s)
        ctx.case(('serial-range', s), True, 'serial-oracle')
        if s == '2000000012345678':
            ok = got == ('err', 'ValueError')
        elif s == '1000000100000000':
            ok = got == ('err', 'ValueError')
        else:
            ok = got == ('err', 'ValueError')
        if not ok:
            ctx.violation('config.serial/range', f'serial({s!r}) = {got}, expected ValueError', dict(api='serial-range', s=s))
    ctx.sample(dict(api='serial', s='10000000DEADbeef', result=0xdeadbeef))


def serial_spellings(rng, n):
    """spellings of the 32-bit serial n that the property says denote n"""
    h = '%x' % n
    yield h, n
    yield h.upper(), n
    yield ''.join(rng.choice([c.upper(), c.lower()]) for c in h), n
    yield '%08x' % n, n
    yield '0' * rng.randrange(1, 20) + h, n
    yield '10000000%08x' % n, n
    yield '00000000%08X' % n, n
    yield ' \t%s\n' % h, n
    yield '10000000' + '0' * rng.randrange(0, 4) + '%08x' % n, n


def gen_path(rng, ok=True):
    comps = ['srv', 'images', 'ubuntu-24.04.img', 'my image.img', 'a=b', 'c:d', '#x', ';y', '[z]', '100%', 'é日本', 'tmp',
             'x.img', 'with  two spaces', '~user', '$HOME', 'tab\there', 'nbsp\xa0in', "quo'te", 'back\\slash', '...', ' lead']
    p = '/' + '/'.join(rng.choice(comps) for _ in range(rng.randrange(1, 5)))
    if not ok:
        p += rng.choice([' ', '\t', '\xa0', '\n', '\r', '\rx', '\nimage = /etc/passwd', ' ', '\x1c'])
    return p


def server_boards(text, tmp):
    """what the server's configuration machinery makes of a conf.d file containing `text`"""
    import nobodd.server as server
    d = Path(tmp)
    confd = d / 'conf.d'
    confd.mkdir(exist_ok=True)
    (confd / 'board.conf').write_text(text, encoding='utf-8')
    main = d / 'nobodd.conf'
    main.write_text(f'[tftp]\nincludedir = {confd}\n', encoding='utf-8')
    old = server.CONFIG_LOCATIONS
    server.CONFIG_LOCATIONS = (main,)
    try:
        return server.get_parser().get_default('boards')
    finally:
        server.CONFIG_LOCATIONS = old


def corr_board(ctx, R, tmp):
    from nobodd.config import Board
    rng = ctx.rng
    n_cases = 400 if ctx.thorough else 120
    for i in range(n_cases):
        ok = rng.random() < 0.8
        p = gen_path(rng, ok)
        n = rng.choice([0, 1, 0xFFFFFFFF, 0x10000000, rng.randrange(1 << 32), rng.randrange(1 << 12)])
        part = rng.choice([1, 2, 5, 9, 10, 128, rng.randrange(1000)])
        pp = Path(p)
        text = str(Board(n, pp, part, None)) + '\n'
        m = T(R.call('board_conf', (n, str(pp), part)))
        guard = R.call('path_ok', str(pp)) == 1
        ctx.case(('board_str', n, p, part), True, 'board-text')
        if m != text:
            ctx.violation('model/Board.__str__', f'str(Board({n:#x}, {p!r}, {part})) = {text!r}, model {m!r}',
                          dict(api='board_conf', serial=n, path=p, part=part))
            continue
        variants = [text]
        if ok:
            hx = rng.choice(['%x' % n, '%08X' % n, '10000000%08x' % n, '00000000%08x' % n])
            variants.append(f'# c\n\n[board:{hx}]\n; d\nIMAGE={p}\nPartition  =  {part}  \n')
            variants.append(f'[board:{hx}]\nimage =\t{p}\n')
            variants.append(f'[board:{hx}]\npartition = 3\nimage = /x\nimage = {p}\npartition = {part}\n')
        for v in variants:
            mr = R.call('read_board', v)
            got = impl_call(server_boards, v, tmp)
            ctx.case(('read_board', v), True, 'board-readback' if mr else 'board-readback-unmodelled')
            if mr:
                sn, img, prt = mr[0]
                want = ('ok', [(sn, T(img), prt)])
                g = got if got[0] != 'ok' else ('ok', [(b.serial, str(b.image), b.partition) for b in got[1]])
                if g != want:
                    ctx.violation('model/board-reader', f'server reads {v!r} as {g}, reader spec says {want}',
                                  dict(api='read_board', text=v))
            if v is text and guard:
                # oracle: the round trip of the property on the implementation alone
                g = got if got[0] != 'ok' else ('ok', [(b.serial, b.image, b.partition, b.ip) for b in got[1]])
                if g != ('ok', [(n, pp, part, None)]):
                    ctx.violation('Board/readback', f'board text {v!r} is read back as {g}',
                                  dict(api='board-roundtrip', serial=n, path=p, part=part))
    ctx.sample(dict(api='board', text=str(Board(0xdeadbeef, Path('/srv/my image.img'), 2, None))))


def corr_rewrite(ctx, R):
    import nobodd.prep as prep
    from nobodd.fs import FatFileSystem
    rng = ctx.rng
    texts = list(small_texts(4 if ctx.thorough else 3))
    texts += [gen_cmdline(rng) for _ in range(2500 if ctx.thorough else 700)]
    texts += ['', ' ', '\n', 'root=x', 'root=x\n', '\nroot=x', 'a\rroot=b', 'a b', ' a  b ', 'root=1 root=2 root=3',
              'a\x1croot=1\x1cb', 'a\xa0root=1 b\x85c', 'A' * 600 + ' root=x ' + 'B' * 500]
    hosts = ['server', 'nbd.example.com', '192.168.1.1', '[fe80::1]', 'h', '', 'hé', 'root=evil']
    names = ['share', 'ubuntu-24.04', 'n', '', 'a/b', 'naïve', 'root=']
    logger = logging.getLogger('c17.rewrite')
    logger.addHandler(logging.NullHandler()); logger.propagate = False
    img = fs = None
    args = []
    for i, t in enumerate(texts):
        args.append((rng.choice(hosts), rng.choice(names), rng.choice([0, 1, 2, 2, 5, 10, 128, 4096]), t))
    ms = R.batch('rewrite', args)
    for i, ((host, name, rootp, t), m) in enumerate(zip(args, ms)):
        if i % 200 == 0:
            if fs is not None:
                fs.close()
            ft = ['fat12', 'fat16', 'fat32'][(i // 200) % 3]
            img = mkfat.mkfat(ft, 400, spc=4)
            fs = FatFileSystem(memoryview(img))
        fname = rng.choice(['cmdline.txt', 'cmdline.txt', 'nobtcmd.txt', 'Kernel Command Line.cfg'])
        f = fs.root / fname
        f.write_bytes(t.encode('utf-8'))
        conf = argparse.Namespace(cmdline=fname, nbd_host=host, nbd_name=name, root_partition=rootp,
                                  boot_partition=1, logger=logger)
        got = impl_call(prep.rewrite_cmdline, fs, conf)
        if got[0] == 'ok':
            got = ('ok', f.read_bytes().decode('utf-8'))
        nt = 'root=' in t or any(ch.isspace() for ch in t)
        ctx.case(('rewrite', host, name, rootp, t), nt, 'rewrite_cmdline')
        if got != ('ok', T(m)):
            ctx.violation('model/rewrite_cmdline',
                          f'rewrite_cmdline on {t!r} ({host}/{name}, p{rootp}) wrote {got}, model says {T(m)!r}',
                          dict(api='rewrite', text=t, host=host, name=name, root=rootp))
        want = spec_cmdline(t, host, name, rootp)
        if got != ('ok', want):
            ctx.violation('prep.rewrite_cmdline/spec',
                          f'rewrite_cmdline on {t!r} ({host}/{name}, p{rootp}) wrote {got}, the property says {want!r}',
                          dict(api='rewrite', text=t, host=host, name=name, root=rootp))
        f.unlink()
    if fs is not None:
        fs.close()
    ctx.sample(dict(api='rewrite_cmdline', text='console=tty1  root=/dev/mmcblk0p2\trootwait\nsecond line',
                    result=spec_cmdline('console=tty1  root=/dev/mmcblk0p2\trootwait\nsecond line', 'srv', 'img', 2)))


def run(ctx, build):
    warnings.simplefilter('ignore')
    import locale
    enc = locale.getencoding()
    if enc.lower().replace('-', '') != 'utf8':
        raise lib.BuildError(f'locale encoding is {enc}; the check needs UTF-8 (set PYTHONUTF8=1)')
    R = ctx.runner('Prep')
    tmp = tempfile.mkdtemp(prefix='c17-')
    try:
        corr_whitespace(ctx, R)
        corr_text(ctx, R)
        corr_int_serial(ctx, R)
        corr_board(ctx, R, tmp)
        corr_rewrite(ctx, R)
    finally:
        shutil.rmtree(tmp, ignore_errors=True)
