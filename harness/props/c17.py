"""C17 -- preparing an image rewrites exactly the command line and the listed files."""
import argparse, binascii, contextlib, copy, io, itertools, json, logging, os, random, shutil
import struct, sys, tempfile, traceback, uuid, warnings
from pathlib import Path
import lib
import mkfat

SPEC = {
    'rule': 'correspondence: model (extracted from coq/Prep/Model.v) vs CPython/nobodd on (a) the white-space set over '
            'all of range(0x110000), (b) str.split/strip/int(s,16)/int(s) exhaustively over a small alphabet plus '
            'seeded strings, (c) config.serial on generated spellings, (d) str(Board)+reader vs '
            'nobodd.server.get_parser()/Board.from_section, (e) prep.rewrite_cmdline on a real FAT volume for generated '
            'command lines (0-3 lines, LF/CRLF/CR/no newline, 0-3 root= parameters anywhere, ASCII and non-ASCII '
            'white space, empty / blank first line); oracle: nobodd.prep.main(argv) on harness-built MBR/GPT images '
            '(FAT12/16/32 boot partition, raw second partition, optional logical/second FAT partition) with random '
            '--remove/--copy sets (files, nested trees, missing items, nested paths), the full tree of the boot '
            'partition compared with the tree predicted from the arguments, bytes outside the boot partition, file '
            'size, emitted board text read back through nobodd.server.get_parser(). A case is non-trivial when it '
            'contains white space to collapse / a root= parameter / a prefix rule / a nested tree; distinct = distinct '
            '(api, input).',
    'trusted_base': [
        'Coq 8.16.1 kernel (vm_compute used only in closed Examples)',
        'translator harness/gen_prep.py: statement-by-statement shape match of rewrite_cmdline, serial, Board.__str__, '
        'Board.from_section, _get_config_parser, server.get_parser board sections, remove_items removal order, '
        'open_file free names',
        'extraction: ExtrOcamlBasic only; runner/driver.ml; OCaml 4.13.1',
        'modelled not verified: str.isspace set (compared with the running CPython on every run), io.TextIOWrapper '
        'universal newlines, UTF-8 codec, int() grammar on ASCII, format(n, "x"/"d"), pathlib.Path normalisation, '
        'configparser line grammar (reader SPEC compared with the real parser on generated sections), argparse',
        'prep_tree_spec rests on the FAT tree model proved under C04 (nobodd/fs.py, nobodd/path.py): here only observed',
    ],
    'theorems': {
        'C17_split_spec': 'full (str.split() = the unique tokenisation into maximal white-space-free runs)',
        'C17_split_words_clean': 'full', 'C17_split_concat': 'full',
        'C17_first_line_spec': 'full',
        'C17_cmdline_spec': 'full (all texts, hosts, shares, partition numbers; Unicode white space included)',
        'C17_cmdline_spec_total': 'full (exactly one first line and one word list per text)',
        'C17_partition_decimal': 'full (decimal digits, reads back as n, no leading zero)',
        'C17_cmdline_filter': 'full (no root= word survives, every other word survives, order kept)',
        'C17_cmdline_reapply': 'full: a second run keeps every parameter and repeats "ip=dhcp nbdroot=H/S" after the '
                               'three leading ones (white-space-free host/share)',
        'C17_cmdline_not_idempotent': 'full (witness): the rewrite is NOT a fixpoint on its own output; the property '
                                      'text does not ask for idempotence, so this is recorded, not reported',
        'C17_serial_roundtrip': 'full (hex digits in either case, any number of leading zeros, white space around)',
        'C17_serial_show': 'full (serial (hex n) = n, lower and upper case, leading zeros)',
        'C17_serial_prefix': 'full (10000000/00000000 + 8 hex digits -> the low 32 bits)',
        'C17_serial_range': 'full (accepted => 0..0xFFFFFFFF; too large => ValueError)',
        'C17_board_text': 'full (text of str(board) + newline)',
        'C17_board_roundtrip': 'full under the boolean guard path_ok (absolute, no CR/LF, no trailing white space); '
                               'the reader is a SPEC of configparser+Board.from_section compared with the real one',
        'C17_prep_wiring': 'facts regenerated from source (Board(...) arguments, image.resolve(), parser options)',
        'C17_open_file_names_bound': 'fact regenerated from tools.py (open_file uses only names the module binds)',
        'C17_remove_order_children_first': 'fact regenerated from remove_items (collected directories removed in '
                                           'reverse rglob order)',
        'prep_tree_spec': 'oracle/correspondence only (partial): the FAT tree model is proved under C04',
    },
    'assumptions': [
        'command-line file is valid UTF-8 and the locale encoding is UTF-8 (TextIOWrapper default encoding)',
        'host/share names contain no CR/LF (they are written verbatim into the first line)',
        'int(): only ASCII digits are modelled (CPython also accepts other Unicode decimal digits)',
        'image path: absolute after resolve(), free of CR/LF and trailing white space (guard path_ok); other paths are '
        'not read back identically by configparser (value is stripped / split at line breaks)',
        'root partition number >= 0',
        'FatPath.rglob yields a directory before its content (checked on a sample tree on every run); the removal-order '
        'fact relies on it',
        'FAT names compare case-insensitively (trees are compared on case-folded paths)',
    ],
}

# the mkdir defect was repaired in /repo (fix: mkdir zeroes the cluster of the new directory);
# the avoidance is off unless explicitly requested
AVOID_FS_DEFECTS = os.environ.get('C17_AVOID', '') != ''


# ====================================================================== helpers
def impl_call(fn, *a, **k):
    try:
        return ('ok', fn(*a, **k))
    except Exception as e:
        return ('err', type(e).__name__)


def T(v):
    return lib.as_text(v)


SPACES = None


def py_spaces():
    global SPACES
    if SPACES is None:
        SPACES = [c for c in range(0x110000) if chr(c).isspace()]
    return SPACES


# ---------------------------------------------------------------------- independent specifications
def spec_first_line(text):
    """first line of a text file as Python's text layer delivers it (CRLF / CR / LF end a line)"""
    for i, ch in enumerate(text):
        if ch in '\r\n':
            return text[:i]
    return text


def spec_words(line):
    """maximal runs of non-white-space characters"""
    out, cur = [], ''
    for ch in line:
        if ch.isspace():
            if cur:
                out.append(cur)
            cur = ''
        else:
            cur += ch
    if cur:
        out.append(cur)
    return out


def spec_cmdline(text, host, name, rootp):
    words = [w for w in spec_words(spec_first_line(text)) if w[:5] != 'root=']
    return ' '.join(['ip=dhcp', 'nbdroot=%s/%s' % (host, name), 'root=/dev/nbd0p%d' % rootp] + words)


# ====================================================================== (i) correspondence
def corr_whitespace(ctx, R):
    model = R.call('spaces', ())
    real = py_spaces()
    ctx.case('spaces', True, 'whitespace-set')
    if list(model) != real:
        ctx.violation('model/whitespace-set', f'model white-space set {model} differs from CPython {real}',
                      dict(api='spaces', model=list(model), impl=real))
        return
    # str.split() and str.strip() use exactly that set (every code point; surrogates cannot be in files but are str)
    bad_split = [c for c in range(0x110000) if (len(('a' + chr(c) + 'b').split()) == 2) != (c in set(real))]
    bad_strip = [c for c in range(0x110000) if ((chr(c) + 'b' + chr(c)).strip() == 'b') != (c in set(real))]
    ctx.case('split-set', True, 'whitespace-set'); ctx.case('strip-set', True, 'whitespace-set')
    if bad_split or bad_strip:
        ctx.violation('model/whitespace-use', f'str.split/strip disagree with isspace on {bad_split[:5]} {bad_strip[:5]}',
                      dict(api='spaces-use', split=bad_split, strip=bad_strip))
    flags = R.call('is_space', list(range(0, 0x3100)))
    want = [1 if chr(c).isspace() else 0 for c in range(0, 0x3100)]
    ctx.case('is_space-table', True, 'whitespace-set')
    if flags != want:
        ctx.violation('model/is_space', 'is_space differs from str.isspace below U+3100', dict(api='is_space'))


def gen_cmdline(rng):
    words = ['console=serial0,115200', 'console=tty1', 'root=/dev/mmcblk0p2', 'root=PARTUUID=0a1b-02', 'root=LABEL=writable',
             'rootfstype=ext4', 'rootwait', 'fixrtc', 'quiet', 'splash', 'root=', 'xroot=1', 'ROOT=x', 'root', 'ro',
             'nbdroot=old/x', 'ip=dhcp', 'ip=off', 'é=ü', '日本=語', 'a', 'root=/dev/nbd0p2', 'init=/bin/sh', 'r', 'roo', 'root=root=']
    seps = [' ', ' ', ' ', '  ', '\t', ' \t ', '\x0b', '\x0c', '\x1c', '\x1d\x1e', '\x1f', '\xa0', ' ', '\x85', '　',
            ' ', '  ']
    ends = ['\n', '\n', '\r\n', '\r', '']
    nlines = rng.choice([0, 1, 1, 1, 2, 2, 3])
    text = ''
    for ln in range(nlines):
        kind = rng.randrange(10)
        if kind == 0:
            line = ''
        elif kind == 1:
            line = ''.join(rng.choice(seps) for _ in range(rng.randrange(1, 4)))
        else:
            n = rng.randrange(1, 8)
            ws = [rng.choice(words) for _ in range(n)]
            nroot = rng.choice([0, 0, 1, 1, 2, 3])
            for _ in range(nroot):
                ws.insert(rng.randrange(len(ws) + 1), rng.choice([w for w in words if w.startswith('root=')]))
            line = ''
            if rng.random() < 0.3:
                line += rng.choice(seps)
            for i, w in enumerate(ws):
                if i:
                    line += rng.choice(seps)
                line += w
            if rng.random() < 0.3:
                line += rng.choice(seps)
        end = rng.choice(ends) if ln < nlines - 1 else rng.choice(ends + [''])
        if ln < nlines - 1 and end == '':
            end = '\n'
        text += line + end
    return text


def small_texts(maxlen):
    toks = [' ', '\n', '\r', 'a', 'root=', '\t', 'b=1']
    for n in range(maxlen + 1):
        for t in itertools.product(toks, repeat=n):
            yield ''.join(t)


def corr_text(ctx, R):
    rng = ctx.rng
    texts = list(small_texts(5 if ctx.thorough else 4))
    texts += [gen_cmdline(rng) for _ in range(3000 if ctx.thorough else 800)]
    texts += ['\x1c', 'a\x1cb', 'a\xa0b', ' x ', 'a\x85b\nc', 'x\r', '\r\nx', 'a\r\r\nb', 'a\n\rb']
    sp = R.batch('split', texts)
    st = R.batch('strip', texts)
    un = R.batch('univ_nl', texts)
    fl = R.batch('first_line', texts)
    for t, a, b, c, d in zip(texts, sp, st, un, fl):
        nt = any(ch.isspace() for ch in t)
        ctx.case(('split', t), nt, 'str.split')
        if [T(x) for x in a] != t.split():
            ctx.violation('model/str.split', f'{t!r}.split() = {t.split()} but model says {[T(x) for x in a]}',
                          dict(api='split', text=t))
        if t.split() != spec_words(t):
            ctx.violation('spec/str.split', f'{t!r}.split() is not the maximal-run tokenisation', dict(api='split-spec', text=t))
        ctx.case(('strip', t), nt, 'str.strip')
        if T(b) != t.strip():
            ctx.violation('model/str.strip', f'{t!r}.strip() = {t.strip()!r} but model says {T(b)!r}', dict(api='strip', text=t))
        # universal newlines as TextIOWrapper does it
        real = io.TextIOWrapper(io.BytesIO(t.encode('utf-8')), encoding='utf-8', newline=None).read()
        ctx.case(('univ_nl', t), '\r' in t, 'text-layer')
        if T(c) != real:
            ctx.violation('model/universal-newlines', f'text layer reads {t!r} as {real!r}, model {T(c)!r}',
                          dict(api='univ_nl', text=t))
        ctx.case(('first_line', t), '\n' in t, 'first-line')
        want = t[:t.index('\n')] if '\n' in t else t
        if T(d) != want:
            ctx.violation('model/first-line', f'first line of {t!r}: {want!r}, model {T(d)!r}', dict(api='first_line', text=t))
    ctx.sample(dict(api='split', text=' a\tb\x1cc\xa0d ', result=' a\tb\x1cc\xa0d '.split()))


def gen_int_strings(rng, n):
    hexd = '0123456789abcdefABCDEF'
    out = []
    for _ in range(n):
        k = rng.randrange(8)
        ln = rng.choice([1, 2, 4, 7, 8, 9, 15, 16, 17, 24])
        body = ''.join(rng.choice(hexd) for _ in range(ln))
        if k == 0:
            body = '0' * rng.randrange(0, 12) + body
        elif k == 1:
            body = rng.choice(['10000000', '00000000', '1000000', '000000000', '20000000', '10000001']) + body
        elif k == 2:
            body = rng.choice(['0x', '0X', '0x_', '+0x', '-0x', '0x0x', 'x']) + body
        elif k == 3:
            i = rng.randrange(len(body) + 1)
            body = body[:i] + rng.choice(['_', '__', ' ', 'g', '.', '_']) + body[i:]
        elif k == 4:
            body = rng.choice(['+', '-', '+-', ' +', '+ ']) + body
        elif k == 5:
            body = rng.choice(['10000000', '00000000']) + ''.join(rng.choice(hexd) for _ in range(8))
        if rng.random() < 0.3:
            ws = [' ', '\t', '\n', '\x0b', '\x1c', '\x1f', '\xa0', ' ', '\x85']
            body = rng.choice(ws) * rng.randrange(0, 3) + body + rng.choice(ws) * rng.randrange(0, 3)
        out.append(body)
    return out


def corr_int_serial(ctx, R):
    import nobodd.config as config
    rng = ctx.rng
    alpha = ['0', '1', 'a', 'F', 'x', '_', '+', '-', 'g', ' ']
    L = 5 if ctx.thorough else 4
    strs = [''.join(t) for n in range(L + 1) for t in itertools.product(alpha, repeat=n)]
    strs += gen_int_strings(rng, 6000 if ctx.thorough else 1500)
    strs += ['0X1F', '0x', '0x_1', '0x__1', '_1', '1_', '1_f', '0_x1', '\x1c1f', '1f\x1c', '\xa01f ', '0b1', '0o7',
             '10000000' * 2, '00000000' * 3, '1000000000000000', '100000000', 'ffffffff', 'FFFFFFFF', '100000000',
             '-0', '+0', '0000000000000000', '00000000', '10000000', '1000000012345678', '0000000012345678',
             '10000000123456789', '100000000x1f', '00000000_1f', '0000000000000-1f', '10000000+1234567']
    for base in ((16, 10) if R is not None else ()):
        rs = R.batch('pyint', [(base, s) for s in strs])
        for s, r in zip(strs, rs):
            m = R.unres(r)
            got = impl_call(int, s, base)
            ctx.case(('int', base, s), len(s) > 1, f'int-base{base}')
            if got != m:
                ctx.violation('model/int', f'int({s!r}, {base}) = {got} but model says {m}', dict(api='pyint', base=base, s=s))
    rs = R.batch('serial', strs) if R is not None else []
    for s, r in zip(strs, rs):
        m = R.unres(r)
        got = impl_call(config.serial, s)
        st = s.strip()
        ctx.case(('serial', s), len(st) >= 16 or st != s, 'serial')
        if got != m:
            ctx.violation('model/serial', f'config.serial({s!r}) = {got} but model says {m}', dict(api='serial', s=s))
    # oracle: the statement of the property on the implementation
    for _ in range(1500 if ctx.thorough else 400):
        n = rng.choice([0, 1, 0xFFFFFFFF, 0x10000000, rng.randrange(1 << 32), rng.randrange(1 << 16)])
        for sp, want in serial_spellings(rng, n):
            got = impl_call(config.serial, sp)
            ctx.case(('serial-spelling', sp), True, 'serial-oracle')
            if got != ('ok', want):
                ctx.violation('config.serial/spelling', f'serial({sp!r}) = {got}, expected {want:#x}',
                              dict(api='serial-oracle', s=sp, expected=want))
    # out of range: too large, negative, 16 digits without one of the two prefixes
    for s in ['100000000', 'fffffffff', '-1', '1000000100000000', '2000000012345678', '123456789abcdef0']:
        got = impl_call(config.serial, s)
        ctx.case(('serial-range', s), True, 'serial-oracle')
        if got != ('err', 'ValueError'):
            ctx.violation('config.serial/range', f'serial({s!r}) = {got}, expected ValueError', dict(api='serial-range', s=s))
    ctx.sample(dict(api='serial', s='10000000DEADbeef', result=0xdeadbeef))


def serial_spellings(rng, n):
    """spellings of the 32-bit serial n that the property says denote n"""
    h = '%x' % n
    yield h, n
    yield h.upper(), n
    yield ''.join(rng.choice([c.upper(), c.lower()]) for c in h), n
    yield '%08x' % n, n
    yield '0' * rng.randrange(1, 20) + h, n
    yield '10000000%08x' % n, n
    yield '00000000%08X' % n, n
    yield ' \t%s\n' % h, n
    yield '10000000' + '0' * rng.randrange(0, 4) + '%08x' % n, n


def gen_path(rng, ok=True):
    comps = ['srv', 'images', 'ubuntu-24.04.img', 'my image.img', 'a=b', 'c:d', '#x', ';y', '[z]', '100%', 'é日本', 'tmp',
             'x.img', 'with  two spaces', '~user', '$HOME', 'tab\there', 'nbsp\xa0in', "quo'te", 'back\\slash', '...', ' lead']
    p = '/' + '/'.join(rng.choice(comps) for _ in range(rng.randrange(1, 5)))
    if not ok:
        p += rng.choice([' ', '\t', '\xa0', '\n', '\r', '\rx', '\nimage = /etc/passwd', ' ', '\x1c'])
    return p


def server_boards(text, tmp):
    """what the server's configuration machinery makes of a conf.d file containing `text`"""
    import nobodd.server as server
    d = Path(tmp)
    confd = d / 'conf.d'
    confd.mkdir(exist_ok=True)
    (confd / 'board.conf').write_text(text, encoding='utf-8')
    main = d / 'nobodd.conf'
    main.write_text(f'[tftp]\nincludedir = {confd}\n', encoding='utf-8')
    old = server.CONFIG_LOCATIONS
    server.CONFIG_LOCATIONS = (main,)
    try:
        return server.get_parser().get_default('boards')
    finally:
        server.CONFIG_LOCATIONS = old


def corr_board(ctx, R, tmp):
    from nobodd.config import Board
    rng = ctx.rng
    n_cases = 400 if ctx.thorough else 120
    for i in range(n_cases):
        ok = rng.random() < 0.8
        p = gen_path(rng, ok)
        n = rng.choice([0, 1, 0xFFFFFFFF, 0x10000000, rng.randrange(1 << 32), rng.randrange(1 << 12)])
        part = rng.choice([1, 2, 5, 9, 10, 128, rng.randrange(1000)])
        pp = Path(p)
        text = str(Board(n, pp, part, None)) + '\n'
        sp = str(pp)
        guard = sp[:1] == '/' and '\n' not in sp and '\r' not in sp and not sp[-1:].isspace()
        m = text
        if R is not None:
            m = T(R.call('board_conf', (n, sp, part)))
            if (R.call('path_ok', sp) == 1) != guard:
                ctx.violation('model/path_ok', f'path_ok({sp!r}) disagrees with its specification', dict(api='path_ok', path=sp))
        ctx.case(('board_str', n, p, part), True, 'board-text')
        if m != text:
            ctx.violation('model/Board.__str__', f'str(Board({n:#x}, {p!r}, {part})) = {text!r}, model {m!r}',
                          dict(api='board_conf', serial=n, path=p, part=part))
            continue
        variants = [text]
        if ok:
            hx = rng.choice(['%x' % n, '%08X' % n, '10000000%08x' % n, '00000000%08x' % n])
            variants.append(f'# c\n\n[board:{hx}]\n; d\nIMAGE={p}\nPartition  =  {part}  \n')
            variants.append(f'[board:{hx}]\nimage =\t{p}\n')
            variants.append(f'[board:{hx}]\npartition = 3\nimage = /x\nimage = {p}\npartition = {part}\n')
        for v in variants:
            mr = R.call('read_board', v) if R is not None else None
            got = impl_call(server_boards, v, tmp)
            ctx.case(('read_board', v), True, 'board-readback' if mr else 'board-readback-unmodelled')
            if mr:
                sn, img, prt = mr[0]
                want = ('ok', [(sn, T(img), prt)])
                g = got if got[0] != 'ok' else ('ok', [(b.serial, str(b.image), b.partition) for b in got[1]])
                if g != want:
                    ctx.violation('model/board-reader', f'server reads {v!r} as {g}, reader spec says {want}',
                                  dict(api='read_board', text=v))
            if v is text and guard:
                # oracle: the round trip of the property on the implementation alone
                g = got if got[0] != 'ok' else ('ok', [(b.serial, b.image, b.partition, b.ip) for b in got[1]])
                if g != ('ok', [(n, pp, part, None)]):
                    ctx.violation('Board/readback', f'board text {v!r} is read back as {g}',
                                  dict(api='board-roundtrip', serial=n, path=p, part=part))
    ctx.sample(dict(api='board', text=str(Board(0xdeadbeef, Path('/srv/my image.img'), 2, None))))


def corr_rewrite(ctx, R):
    import nobodd.prep as prep
    from nobodd.fs import FatFileSystem
    rng = ctx.rng
    texts = list(small_texts(4 if ctx.thorough else 3))
    texts += [gen_cmdline(rng) for _ in range(2500 if ctx.thorough else 700)]
    texts += ['', ' ', '\n', 'root=x', 'root=x\n', '\nroot=x', 'a\rroot=b', 'a b', ' a  b ', 'root=1 root=2 root=3',
              'a\x1croot=1\x1cb', 'a\xa0root=1 b\x85c', 'A' * 600 + ' root=x ' + 'B' * 500]
    hosts = ['server', 'nbd.example.com', '192.168.1.1', '[fe80::1]', 'h', '', 'hé', 'root=evil']
    names = ['share', 'ubuntu-24.04', 'n', '', 'a/b', 'naïve', 'root=']
    logger = logging.getLogger('c17.rewrite')
    logger.addHandler(logging.NullHandler()); logger.propagate = False
    img = fs = None
    args = []
    for i, t in enumerate(texts):
        args.append((rng.choice(hosts), rng.choice(names), rng.choice([0, 1, 2, 2, 5, 10, 128, 4096]), t))
    ms = R.batch('rewrite', args) if R is not None else [None] * len(args)
    for i, ((host, name, rootp, t), m) in enumerate(zip(args, ms)):
        if i % 200 == 0:
            if fs is not None:
                fs.close()
            ft = ['fat12', 'fat16', 'fat32'][(i // 200) % 3]
            img = mkfat.mkfat(ft, 400, spc=4)
            fs = FatFileSystem(memoryview(img))
        fname = rng.choice(['cmdline.txt', 'cmdline.txt', 'nobtcmd.txt', 'Kernel Command Line.cfg'])
        f = fs.root / fname
        f.write_bytes(t.encode('utf-8'))
        conf = argparse.Namespace(cmdline=fname, nbd_host=host, nbd_name=name, root_partition=rootp,
                                  boot_partition=1, logger=logger)
        got = impl_call(prep.rewrite_cmdline, fs, conf)
        if got[0] == 'ok':
            got = ('ok', f.read_bytes().decode('utf-8'))
        nt = 'root=' in t or any(ch.isspace() for ch in t)
        ctx.case(('rewrite', host, name, rootp, t), nt, 'rewrite_cmdline')
        if m is not None and got != ('ok', T(m)):
            ctx.violation('model/rewrite_cmdline',
                          f'rewrite_cmdline on {t!r} ({host}/{name}, p{rootp}) wrote {got}, model says {T(m)!r}',
                          dict(api='rewrite', text=t, host=host, name=name, root=rootp))
        want = spec_cmdline(t, host, name, rootp)
        if got != ('ok', want):
            ctx.violation('prep.rewrite_cmdline/spec',
                          f'rewrite_cmdline on {t!r} ({host}/{name}, p{rootp}) wrote {got}, the property says {want!r}',
                          dict(api='rewrite', text=t, host=host, name=name, root=rootp))
        f.unlink()
    if fs is not None:
        fs.close()
    ctx.sample(dict(api='rewrite_cmdline', text='console=tty1  root=/dev/mmcblk0p2\trootwait\nsecond line',
                    result=spec_cmdline('console=tty1  root=/dev/mmcblk0p2\trootwait\nsecond line', 'srv', 'img', 2)))


# ====================================================================== (ii) end-to-end oracle
FAT_MBR_TYPES = {0x01, 0x06, 0x0B, 0x0C, 0x0E, 0xEF}
GPT_BASIC = 'ebd0a0a2-b9e5-4433-87c0-68b6b72699c7'
GPT_ESP = 'c12a7328-f81f-11d2-ba4b-00a0c93ec93b'
GPT_LINUX = '0fc63daf-8483-4772-8e79-3d69d8477de4'
GPT_FAT_TYPES = {GPT_BASIC, GPT_ESP}
SS = 512
ROOT_ENTRIES = 256


def data_of(spec):
    if 'hex' in spec:
        return bytes.fromhex(spec['hex'])
    if 'text' in spec:
        return spec['text'].encode('utf-8')
    if 'zero' in spec:
        return bytes(spec['zero'])
    return random.Random(spec['seed']).randbytes(spec['len'])


def mbr_entry(ptype, first, size):
    return struct.pack('<B3sB3sII', 0, b'\0\0\0', ptype, b'\0\0\0', first, size)


def mbr_sector(entries, boot=None):
    s = bytearray(boot if boot is not None else bytes(SS))
    s[218:224] = bytes(6)       # "zero" word and disk timestamp of a modern MBR
    s[444:446] = bytes(2)       # copy-protect word
    s[446:510] = bytes(64)
    for i, e in enumerate(entries):
        s[446 + 16 * i:462 + 16 * i] = e
    s[510:512] = b'\x55\xaa'
    return s


def gpt_tables(total, entries, table_entries, disk_guid):
    """protective MBR, primary header + entries, backup entries + header"""
    tbl = bytearray(table_entries * 128)
    for idx, (tguid, pguid, first, last, label) in entries.items():
        tbl[idx * 128:(idx + 1) * 128] = struct.pack(
            '<16s16sQQQ72s', uuid.UUID(tguid).bytes_le, uuid.UUID(pguid).bytes_le, first, last, 0,
            label.encode('utf-16-le'))
    tsec = (len(tbl) + SS - 1) // SS
    tcrc = binascii.crc32(bytes(tbl))

    def header(cur, bak, tlba):
        fields = [b'EFI PART', 0x10000, 92, 0, cur, bak, 2 + tsec, total - 2 - tsec, uuid.UUID(disk_guid).bytes_le,
                  tlba, table_entries, 128, tcrc]
        raw = struct.pack('<8sIII4xQQQQ16sQIII', fields[0], fields[1], fields[2], 0, *fields[4:])
        crc = binascii.crc32(raw)
        return struct.pack('<8sIII4xQQQQ16sQIII', fields[0], fields[1], fields[2], crc, *fields[4:])
    return tbl, tsec, header(1, total - 1, 2), header(total - 1, 1, total - 1 - tsec)


def part_ranges(case):
    """number -> (first sector, sectors, kind, type)  in table order"""
    out = []
    for p in case['parts']:
        out.append((p['num'], p['start'], p['sectors'], p['kind'], p['type']))
    return out


def build_image(case):
    """bytearray of the whole disk described by case (boot FAT empty so far)"""
    total = case['total']
    img = bytearray(random.Random(case['fill_seed']).randbytes(total * SS)) if case.get('fill_seed') is not None \
        else bytearray(total * SS)
    for p in case['parts']:
        a, n = p['start'] * SS, p['sectors'] * SS
        if p['kind'] == 'raw':
            img[a:a + n] = random.Random(p['seed']).randbytes(n)
            # make sure it cannot be taken for a FAT volume or a partition table
            img[a + 510:a + 512] = b'\0\0'
        else:
            f = p['fat']
            vol = mkfat.mkfat(f['type'], f['clusters'], spc=f['spc'], root_entries=ROOT_ENTRIES)
            assert len(vol) == n, (len(vol), n)
            img[a:a + n] = vol
    if case['style'] == 'mbr':
        prim = [mbr_entry(0, 0, 0)] * 4
        for p in case['parts']:
            if p.get('logical') is None:
                prim[p['slot']] = mbr_entry(p['type'], p['start'], p['sectors'])
        ext = case.get('ext')
        if ext:
            prim[ext['slot']] = mbr_entry(0x05, ext['start'], ext['sectors'])
            logs = sorted((p for p in case['parts'] if p.get('logical') is not None), key=lambda p: p['logical'])
            for i, p in enumerate(logs):
                # the first EBR is the first sector of the extended partition; first_lba of a
                # logical partition is relative to its EBR, links are relative to the extended start
                ebr = ext['start'] if i == 0 else p['start'] - 1
                e1 = mbr_entry(p['type'], p['start'] - ebr, p['sectors'])
                if i + 1 < len(logs):
                    nxt = logs[i + 1]['start'] - 1
                    e2 = mbr_entry(0x05, nxt - ext['start'], logs[i + 1]['sectors'] + 1)
                else:
                    e2 = mbr_entry(0, 0, 0)
                img[ebr * SS:(ebr + 1) * SS] = mbr_sector([e1, e2], boot=bytes(SS))
        img[0:SS] = mbr_sector(prim, boot=bytes(img[0:SS]))
    else:
        entries = {p['num'] - 1: (p['type'], p['guid'], p['start'], p['start'] + p['sectors'] - 1, p.get('label', ''))
                   for p in case['parts']}
        tbl, tsec, h1, h2 = gpt_tables(total, entries, case['gpt_entries'], case['disk_guid'])
        img[0:SS] = mbr_sector([mbr_entry(0xEE, 1, min(total - 1, 0xFFFFFFFF))], boot=bytes(SS))
        img[SS:2 * SS] = h1 + bytes(SS - len(h1))
        img[2 * SS:2 * SS + len(tbl)] = tbl
        img[(total - 1 - tsec) * SS:(total - 1 - tsec) * SS + len(tbl)] = tbl
        img[(total - 1) * SS:total * SS] = h2 + bytes(SS - len(h2))
    return img


def populate(img, case):
    from nobodd.fs import FatFileSystem
    for p in case['parts']:
        if p['kind'] != 'fat':
            continue
        a, n = p['start'] * SS, p['sectors'] * SS
        mv = memoryview(img)[a:a + n]
        with FatFileSystem(mv) as fs:
            for ent in p['tree']:
                path = fs.root / ent[1]
                if ent[0] == 'd':
                    path.mkdir()
                else:
                    path.write_bytes(data_of(ent[2]))
        mv.release()


def make_host(case, hostdir):
    for ent in case['host']:
        path = os.path.join(hostdir, ent[1])
        if ent[0] == 'd':
            os.makedirs(path, exist_ok=True)
        elif ent[0] == 'f':
            os.makedirs(os.path.dirname(path), exist_ok=True)
            with open(path, 'wb') as f:
                f.write(data_of(ent[2]))
        else:
            os.makedirs(os.path.dirname(path), exist_ok=True)
            os.symlink(ent[2], path)


def fold(parts):
    """FAT names are case-insensitive: compare trees on case-folded paths"""
    return tuple(x.lower() for x in parts)


def dump_tree(fs, names=None):
    out = {}

    def walk(d, key):
        for child in d.iterdir():
            k = key + (child.name.lower(),)
            if names is not None:
                names[k] = child.name
            if k in out:
                raise ValueError(f'duplicate directory entry {k}')
            if child.is_dir():
                out[k] = ('d',)
                walk(child, k)
            else:
                out[k] = ('f', child.read_bytes())
    walk(fs.root, ())
    return out


def dump_boot(path, num):
    from nobodd.disk import DiskImage
    from nobodd.fs import FatFileSystem
    with DiskImage(path) as img:
        with img.partitions[num] as part:
            with FatFileSystem(part.data) as fs:
                return dump_tree(fs), fs.fat_type


def host_tree(root):
    """relative posix path tuple -> ('d',)|('f', bytes) below root (symlinks to files followed)"""
    out = {}
    for dirpath, dirs, files in os.walk(root):
        rel = os.path.relpath(dirpath, root)
        key = () if rel == '.' else tuple(rel.split(os.sep))
        key = fold(key)
        for d in dirs:
            out[key + (d.lower(),)] = ('d',)
        for f in files:
            with open(os.path.join(dirpath, f), 'rb') as fh:
                out[key + (f.lower(),)] = ('f', fh.read())
    return out


def expected_partitions(case):
    """what detect_partitions should find: (boot, root), None when there is none"""
    boot = root = None
    order = sorted(case['parts'], key=lambda p: p['order'])
    for p in order:
        if p['kind'] == 'fat':
            if boot is None:
                boot = p['num']
        else:
            fatish = (p['type'] in FAT_MBR_TYPES) if case['style'] == 'mbr' else (p['type'] in GPT_FAT_TYPES)
            if not fatish and root is None:
                root = p['num']
    return boot, root


def parse_size(s):
    for power, suffix in enumerate(['KB', 'MB', 'GB', 'TB'], start=1):
        if s.endswith(suffix):
            from decimal import Decimal
            return int(Decimal(s[:-2]) * 2 ** (10 * power))
    return int(s[:-1]) if s.endswith('B') else int(s)


def run_prep(argv, debug=False):
    """nobodd.prep.main(argv) in this process; returns (rc, stdout, stderr, exception info)"""
    import nobodd.prep as prep
    out, err = io.StringIO(), io.StringIO()
    old_loc = prep.CONFIG_LOCATIONS
    old_dbg = os.environ.pop('DEBUG', None)
    if debug:
        os.environ['DEBUG'] = '1'
    prep.CONFIG_LOCATIONS = ()
    exc = None
    rc = None
    try:
        with contextlib.redirect_stdout(out), contextlib.redirect_stderr(err):
            try:
                rc = prep.main(argv)
            except SystemExit as e:
                rc = 2
                exc = ('SystemExit', str(e.code), '')
            except Exception as e:
                rc = 1
                where = ''
                for fr in traceback.extract_tb(e.__traceback__):
                    base = os.path.basename(fr.filename)
                    if os.sep + 'nobodd' + os.sep in fr.filename:
                        if base in ('prep.py', 'tools.py') and fr.name != 'main':
                            where = f'{base[:-3]}.{fr.name}'
                        elif not where:
                            where = f'{base[:-3]}.{fr.name}'
                name = type(e).__name__
                if isinstance(e, OSError) and e.errno:
                    import errno as _errno
                    name += f'({_errno.errorcode.get(e.errno, e.errno)})'
                exc = (name, str(e), where)
    finally:
        prep.CONFIG_LOCATIONS = old_loc
        os.environ.pop('DEBUG', None)
        if old_dbg is not None:
            os.environ['DEBUG'] = old_dbg
        lg = logging.getLogger('prep')
        for h in list(lg.handlers):
            lg.removeHandler(h)
    return rc, out.getvalue(), err.getvalue(), exc


def boot_part(case):
    b = case['args']['boot']
    if b is None:
        b = expected_partitions(case)[0]
    return b


def argv_of(case, tmp, conf_paths):
    a = case['args']
    hostdir = os.path.join(tmp, 'host')
    argv = []
    if a.get('verbosity'):
        argv.append(a['verbosity'])
    if a['size'] is not None:
        argv += ['--size', a['size']]
    if a['nbd_host'] is not None:
        argv += ['--nbd-host', a['nbd_host']]
    if a['nbd_name'] is not None:
        argv += ['--nbd-name', a['nbd_name']]
    if a['cmdline'] != 'cmdline.txt' or a.get('cmdline_explicit'):
        argv += ['--cmdline', a['cmdline']]
    if a['boot'] is not None:
        argv += ['--boot-partition', str(a['boot'])]
    if a['root'] is not None:
        argv += ['--root-partition', str(a['root'])]
    for r in a['remove']:
        argv += ['--remove', r]
    for c in a['copy']:
        argv += ['--copy', os.path.join(hostdir, c)]
    if a['serial'] is not None:
        argv += ['--serial=' + a['serial']]
    for key, opt in (('tftpd_conf', '--tftpd-conf'), ('nbd_conf', '--nbd-conf')):
        if a[key] == '-':
            argv += [opt, '-']
        elif a[key] is not None:
            argv += [opt, conf_paths[key]]
    argv.append(os.path.join(tmp, a['image_arg']))
    return argv


def predict_tree(case, before, hostdir, cmdline_out):
    """the tree the property promises: removals gone, copies present, command line rewritten,
    everything else as before"""
    a = case['args']
    tree = dict(before)
    for r in a['remove']:
        key = fold(Path(r).parts)
        if key in tree:
            for k in [k for k in tree if k[:len(key)] == key]:
                del tree[k]
    for c in a['copy']:
        src = os.path.join(hostdir, c)
        name = os.path.basename(src).lower()
        if os.path.isdir(src):
            tree[(name,)] = ('d',)
            for k, v in host_tree(src).items():
                tree[(name,) + k] = v
        else:
            with open(src, 'rb') as f:
                tree[(name,)] = ('f', f.read())
    return tree


def eval_case(case, R=None, keep=None):
    """build the image, run nobodd-prep on it, evaluate the property.  Returns list of
    (signature, description) -- empty when the property holds."""
    from nobodd.config import Board
    findings = []
    info = {}
    tmp = tempfile.mkdtemp(prefix='c17-case-')
    try:
        a = case['args']
        hostdir = os.path.join(tmp, 'host')
        os.makedirs(hostdir)
        make_host(case, hostdir)
        img = build_image(case)
        populate(img, case)
        imgdir = os.path.join(tmp, 'img dir')
        os.makedirs(imgdir)
        real_path = os.path.join(imgdir, a['image_name'])
        with open(real_path, 'wb') as f:
            f.write(img)
        if a['image_arg'] != os.path.join('img dir', a['image_name']):
            # reached through a symbolic link to the directory
            os.symlink(imgdir, os.path.join(tmp, 'link'))
        before_bytes = bytes(img)
        del img
        conf_paths = {'tftpd_conf': os.path.join(tmp, 'out', 'board.conf'), 'nbd_conf': os.path.join(tmp, 'out', 'nbd.conf')}
        os.makedirs(os.path.join(tmp, 'out'))
        exp_boot, exp_root = expected_partitions(case)
        boot = a['boot'] if a['boot'] is not None else exp_boot
        root = a['root'] if a['root'] is not None else exp_root
        expect_error = case.get('expect_error')
        if boot is not None:
            before, fat_type = dump_boot(real_path, boot)
            info['fat_type'] = fat_type
        argv = argv_of(case, tmp, conf_paths)
        info['argv'] = argv
        rc, out, err, exc = run_prep(argv)
        info['rc'], info['stderr'] = rc, err[-400:]
        with open(real_path, 'rb') as f:
            after_bytes = f.read()
        ranges = {p['num']: (p['start'] * SS, (p['start'] + p['sectors']) * SS) for p in case['parts']}
        lo, hi = ranges[boot] if boot in ranges else (0, 0)
        if after_bytes[:lo] != before_bytes[:lo] or after_bytes[hi:len(before_bytes)] != before_bytes[hi:]:
            off = next(i for i in range(min(len(before_bytes), len(after_bytes)))
                       if not lo <= i < hi and before_bytes[i] != after_bytes[i]) \
                if len(after_bytes) >= len(before_bytes) else len(after_bytes)
            findings.append(('prep.main/outside-boot-partition-changed',
                             f'byte {off} outside the boot partition (partition {boot}: {lo}..{hi}) changed '
                             f'(or the file shrank: {len(before_bytes)} -> {len(after_bytes)})'))
        if expect_error:
            if rc != 1:
                findings.append(('prep.main/error-not-reported',
                                 f'expected failure ({expect_error}) but main returned {rc}: {err[-200:]!r}'))
            return findings, info
        if rc != 0:
            # diagnose on a fresh copy with DEBUG=1 to learn where it failed
            with open(real_path, 'wb') as f:
                f.write(before_bytes)
            for pth in conf_paths.values():
                if os.path.exists(pth):
                    os.unlink(pth)
            rc2, out2, err2, exc2 = run_prep(argv, debug=True)
            name, msg, where = exc2 if exc2 else ('?', err.strip()[-200:], '?')
            findings.append((f'prep.main/error/{name}@{where}',
                             f'nobodd-prep {" ".join(argv[:-1])} IMAGE failed: {name}: {msg} (in {where}); '
                             f'stderr: {err.strip()[-200:]!r}'))
            return findings, info
        # ---- size
        want_size = parse_size(a['size'])
        if len(after_bytes) < want_size:
            findings.append(('prep.main/size', f'image is {len(after_bytes)} bytes, requested {want_size}'))
        # ---- boot partition tree
        try:
            after, _ = dump_boot(real_path, boot)
        except Exception as e:
            findings.append(('prep.main/boot-partition-unreadable',
                             f'boot partition cannot be listed after the run: {type(e).__name__}: {e}'))
            return findings, info
        want = predict_tree(case, before, hostdir, None)
        ckey = fold(Path(a['cmdline']).parts)
        orig = want.get(ckey)
        if orig is None or orig[0] != 'f':
            findings.append(('harness/case', 'case without command-line file'))
            return findings, info
        text = orig[1].decode('utf-8')
        host = a['nbd_host'] if a['nbd_host'] is not None else __import__('socket').getfqdn()
        name = a['nbd_name'] if a['nbd_name'] is not None else Path(a['image_name']).stem
        want_cmd = spec_cmdline(text, host, name, root)
        got_cmd = after.get(ckey)
        info['cmdline'] = (text, got_cmd[1] if got_cmd else None)
        if got_cmd is None or got_cmd[0] != 'f' or got_cmd[1] != want_cmd.encode('utf-8'):
            findings.append(('prep.main/cmdline',
                             f'command line {text!r} became {got_cmd[1] if got_cmd else None!r}, the property says {want_cmd!r}'))
        if R is not None:
            m = T(R.call('rewrite', (host, name, root, text)))
            if got_cmd is not None and got_cmd[0] == 'f' and got_cmd[1] != m.encode('utf-8'):
                findings.append(('model/prep.main-cmdline', f'command line {text!r} became {got_cmd[1]!r}, model says {m!r}'))
        want[ckey] = ('f', want_cmd.encode('utf-8'))
        if keep is not None:
            keep['before'], keep['after'], keep['want'] = before, after, want
        if after != want:
            removed = [fold(Path(r).parts) for r in a['remove']]
            copied = [(os.path.basename(c).lower(),) for c in a['copy']]
            diffs = sorted(set(after) ^ set(want)) + sorted(k for k in set(after) & set(want) if after[k] != want[k])
            diffs = [k for k in diffs if k != ckey]
            for k in diffs[:1]:
                what = ('missing' if k not in after else 'unexpected' if k not in want else 'different content')
                if any(k[:len(c)] == c for c in copied):
                    sig, cls = 'prep.main/copied-item', 'copied item'
                elif any(k[:len(r)] == r for r in removed):
                    sig, cls = 'prep.main/removed-item', 'item listed for removal'
                else:
                    sig, cls = 'prep.main/other-file-changed', 'file that was neither copied nor removed'
                findings.append((sig, f'{cls} {"/".join(k)}: {what} after the run '
                                      f'({len(diffs)} differing paths: {["/".join(d) for d in diffs[:4]]})'))
        # ---- emitted configuration
        image_abs = os.path.realpath(real_path)
        outs = {}
        for key in ('tftpd_conf', 'nbd_conf'):
            if a[key] is not None and a[key] != '-':
                with open(conf_paths[key], encoding='utf-8') as f:
                    outs[key] = f.read()
        nbd_text = f'[{name}]\nexportname = {image_abs}\n'
        if a['tftpd_conf'] == '-' or a['nbd_conf'] == '-':
            rest = out
            if a['nbd_conf'] == '-':
                if not rest.endswith(nbd_text):
                    findings.append(('prep.main/nbd-conf-stdout', f'stdout {out!r} does not end with the share section {nbd_text!r}'))
                else:
                    rest = rest[:-len(nbd_text)]
            if a['tftpd_conf'] == '-':
                outs['tftpd_conf'] = rest
        if a['tftpd_conf'] is not None and a['serial'] is not None:
            btext = outs.get('tftpd_conf', '')
            sn = case['serial_value']
            if R is not None:
                m = T(R.call('board_conf', (sn, image_abs, boot)))
                if m != btext:
                    findings.append(('model/prep.main-board', f'board text {btext!r}, model says {m!r}'))
            got = impl_call(server_boards, btext, tmp)
            g = got if got[0] != 'ok' else ('ok', [(b.serial, str(b.image), b.partition, b.ip) for b in got[1]])
            if g != ('ok', [(sn, image_abs, boot, None)]):
                findings.append(('prep.main/board-readback',
                                 f'--serial {a["serial"]!r}: emitted {btext!r} is read back by the server as {g}, '
                                 f'expected serial {sn:#x}, image {image_abs!r}, partition {boot}'))
        elif a['tftpd_conf'] is not None and outs.get('tftpd_conf', '') != '':
            findings.append(('prep.main/board-without-serial', f'board text {outs["tftpd_conf"]!r} emitted without --serial'))
        return findings, info
    finally:
        shutil.rmtree(tmp, ignore_errors=True)


# ---------------------------------------------------------------------- case generator
FILE_NAMES = ['config.txt', 'start4.elf', 'fixup4.dat', 'kernel8.img', 'bcm2711-rpi-4-b.dtb', 'README', 'LICENCE.broadcom',
              'a long file name.txt', 'UPPER.TXT', 'MiXed.Case', 'x', 'é-ü.cfg', 'initrd.img', 'vmlinuz', 'meta-data',
              'user-data', 'network-config', 'dots.in.name.tar.gz', '日本語.txt', 'boot.scr', 'uboot.env', 'issue.txt',
              'nobtcmd.txt', 'overlay_map.dtb', 'vc4-kms-v3d.dtbo', 'hat_map.dtb', 'f1', 'f2', 'f3', 'f4', 'f5']
DIR_NAMES = ['overlays', 'firmware', 'sub', 'Deep Dir', 'd1', 'd2', 'd3', 'EFI', 'BOOT', 'grub', 'x86_64-efi', 'nested',
             'level3', 'level4', 'ünï', 'lost.found']


def gen_tree(rng, prefix, depth, names_used, budget, cluster, out, want_deep=False):
    """append ('d'|'f', path, data) entries below prefix (a posix relative path or '')"""
    nfiles = rng.randrange(0, 4)
    ndirs = rng.randrange(0, 3) if depth > 0 else 0
    if want_deep and depth > 0:
        ndirs = max(ndirs, 1)
    for _ in range(nfiles):
        if budget[0] <= 0:
            return
        nm = rng.choice(FILE_NAMES)
        key = (prefix + '/' + nm).lower()
        if key in names_used:
            continue
        names_used.add(key)
        ln = rng.choice([0, 1, 17, 200, cluster - 1, cluster, cluster + 1, 2 * cluster + 5, 3 * cluster + 1])
        out.append(['f', (prefix + '/' + nm).lstrip('/'), {'seed': rng.randrange(1 << 30), 'len': ln}])
        budget[0] -= 1
    for i in range(ndirs):
        if budget[0] <= 0:
            return
        nm = rng.choice(DIR_NAMES)
        key = (prefix + '/' + nm).lower()
        if key in names_used:
            continue
        names_used.add(key)
        out.append(['d', (prefix + '/' + nm).lstrip('/')])
        budget[0] -= 1
        gen_tree(rng, prefix + '/' + nm, depth - 1, names_used, budget, cluster, out, want_deep and i == 0)


def gen_case(rng, force=None):
    force = force or {}
    style = force.get('style') or rng.choice(['mbr', 'gpt'])
    ft = force.get('fat') or rng.choice(['fat12', 'fat16', 'fat32'])
    spc = rng.choice([1, 2, 4]) if ft != 'fat32' else rng.choice([1, 2])
    # roomy volumes: the property is not about a full disk (and allocation on a nearly full volume is C10's business)
    clusters = {'fat12': rng.randrange(500, 1000), 'fat16': rng.randrange(600, 1000), 'fat32': rng.randrange(600, 1000)}[ft]
    fat = {'type': ft, 'clusters': clusters, 'spc': spc}
    fat_sectors = len(mkfat.mkfat(ft, clusters, spc=spc, root_entries=ROOT_ENTRIES)) // SS
    cluster = spc * SS
    layout = rng.choice(['FR', 'FR', 'FR', 'RF', 'FRf', 'FMR', 'RFR'] + (['F[R]', '[R]F', 'F[RR]'] if style == 'mbr' else ['F-R', '-FR']))
    parts = []
    case = {'style': style, 'parts': parts, 'fill_seed': rng.randrange(1 << 30)}
    if style == 'gpt':
        case['gpt_entries'] = rng.choice([128, 128, 16, 8])
        case['disk_guid'] = str(uuid.UUID(int=rng.getrandbits(128)))
        lba = 2 + (case['gpt_entries'] * 128 + SS - 1) // SS
    else:
        lba = 1
    slot = 0
    order = 0
    in_ext = False
    logical = 0
    main_fat_done = False
    for ch in layout:
        if ch == '[':
            in_ext = True
            case['ext'] = {'slot': slot, 'start': lba + rng.randrange(0, 4)}
            lba = case['ext']['start']
            slot += 1
            continue
        if ch == ']':
            in_ext = False
            case['ext']['sectors'] = lba - case['ext']['start']
            continue
        if ch == '-':
            slot += 1          # an unused GPT entry
            continue
        lba += rng.randrange(0, 5)
        if in_ext:
            lba += 1           # room for the EBR
        p = {'order': order}
        order += 1
        if ch == 'F':
            p.update(kind='fat', fat=fat, sectors=fat_sectors, tree=[])
            p['type'] = rng.choice([0x0C, 0x0B, 0x0E, 0x06, 0x01, 0xEF]) if style == 'mbr' else rng.choice([GPT_BASIC, GPT_ESP])
            main_fat_done = True
        elif ch == 'f':
            f2 = {'type': 'fat12', 'clusters': rng.randrange(40, 90), 'spc': 1}
            p.update(kind='fat', fat=f2, sectors=len(mkfat.mkfat('fat12', f2['clusters'], spc=1, root_entries=ROOT_ENTRIES)) // SS,
                     tree=[['f', 'other.txt', {'seed': rng.randrange(1 << 30), 'len': 700}], ['d', 'keep'],
                           ['f', 'keep/cmdline.txt', {'text': 'root=/dev/sda1 untouched'}]])
            p['type'] = 0x0C if style == 'mbr' else GPT_BASIC
        elif ch == 'M':
            p.update(kind='raw', sectors=rng.randrange(8, 40), seed=rng.randrange(1 << 30))
            p['type'] = 0x0C if style == 'mbr' else GPT_BASIC      # FAT type, no FAT content: "maybefat"
        else:
            p.update(kind='raw', sectors=rng.randrange(8, 64), seed=rng.randrange(1 << 30))
            p['type'] = rng.choice([0x83, 0x83, 0x82, 0x07]) if style == 'mbr' else GPT_LINUX
        p['start'] = lba
        lba += p['sectors']
        if in_ext:
            p['logical'] = logical
            p['num'] = 5 + logical
            logical += 1
        else:
            p['slot'] = slot
            p['num'] = slot + 1
            slot += 1
        if style == 'gpt':
            p['guid'] = str(uuid.UUID(int=rng.getrandbits(128) | 1))
            p['label'] = rng.choice(['', 'boot', 'system-boot', 'writable', 'ESP'])
        parts.append(p)
    lba += rng.randrange(0, 6)
    if style == 'gpt':
        lba += 1 + (case['gpt_entries'] * 128 + SS - 1) // SS
    case['total'] = lba
    # ---- boot partition content
    bootp = next(p for p in parts if p['kind'] == 'fat' and p['fat'] is fat)
    names_used = set()
    tree = bootp['tree']
    budget = [rng.choice([6, 12, 20, 28])]
    gen_tree(rng, '', rng.choice([1, 3, 4, 4]), names_used, budget, cluster, tree, want_deep=True)
    cmd_name = rng.choice(['cmdline.txt', 'cmdline.txt', 'cmdline.txt', 'nobtcmd.txt', 'Kernel Args.cfg'])
    tree[:] = [e for e in tree if e[1].lower() != cmd_name.lower()]
    cmd_text = gen_cmdline(rng)
    if rng.random() < 0.1:
        cmd_text = ' '.join(rng.choice(['console=tty1', 'root=/dev/sda2', 'quiet', 'x=' + 'y' * 50]) for _ in range(rng.randrange(30, 90)))
    tree.insert(rng.randrange(len(tree) + 1) if not tree else 0, ['f', cmd_name, {'text': cmd_text}])
    # creation order must have parents first: stable sort by depth keeps that
    tree.sort(key=lambda e: e[1].count('/'))
    existing = {e[1]: e[0] for e in tree}
    # ---- host items to copy
    host, copies = [], []
    top_used = {k.lower() for k in existing if '/' not in k}
    for _ in range(rng.choice([0, 0, 1, 1, 2, 3])):
        kind = rng.choice(['file', 'file', 'dir', 'dir', 'overwrite', 'merge', 'link'])
        if kind == 'overwrite':
            cands = [k for k, v in existing.items() if v == 'f' and '/' not in k and k not in copies]
            if not cands:
                continue
            nm = rng.choice(cands)
            if '/' not in cmd_name and cmd_name not in copies and rng.random() < 0.3:
                nm = cmd_name       # a new command-line file is copied in: it is the COPIED text that must end up rewritten
            if nm == cmd_name:
                host.append(['f', nm, {'text': gen_cmdline(rng)}])
            else:
                host.append(['f', nm, {'seed': rng.randrange(1 << 30), 'len': rng.choice([0, 5, cluster, 2 * cluster + 9])}])
            copies.append(nm)
        elif kind == 'merge':
            cands = [k for k, v in existing.items() if v == 'd' and '/' not in k and k not in copies]
            if not cands:
                continue
            nm = rng.choice(cands)
            host.append(['d', nm])
            host.append(['f', nm + '/merged-' + str(len(host)) + '.bin', {'seed': rng.randrange(1 << 30), 'len': rng.choice([3, cluster + 1])}])
            host.append(['d', nm + '/merged dir'])
            host.append(['f', nm + '/merged dir/inner.txt', {'text': 'inner'}])
            copies.append(nm)
        else:
            nm = rng.choice(['new-' + x for x in FILE_NAMES[:12]] + ['extra', 'payload', 'cloud-init', 'Ünicode', 'with space'])
            if nm.lower() in top_used:
                continue
            top_used.add(nm.lower())
            if kind == 'file':
                host.append(['f', nm, {'seed': rng.randrange(1 << 30), 'len': rng.choice([0, 1, 300, cluster, 3 * cluster + 7])}])
            elif kind == 'link':
                host.append(['f', 'target-of-' + nm, {'seed': rng.randrange(1 << 30), 'len': 123}])
                host.append(['l', nm, 'target-of-' + nm])
            else:
                sub = []
                gen_tree(rng, nm, rng.choice([0, 1, 2, 3]), set(), [rng.choice([2, 5, 9])], cluster, sub, want_deep=rng.random() < 0.5)
                host.append(['d', nm])
                host += sub
            copies.append(nm)
    if rng.random() < 0.06:
        # a new command-line file is copied in: the rewrite must apply to the copy
        new_text = gen_cmdline(rng)
        host.append(['f', cmd_name, {'text': new_text}])
        copies.append(cmd_name)
    # ---- removals
    removes = []
    cands = [k for k in existing if k != cmd_name]
    for _ in range(rng.choice([0, 0, 1, 1, 2, 3])):
        r = rng.random()
        if r < 0.15 or not cands:
            removes.append(rng.choice(['missing.txt', 'no/such/dir', 'overlays/none.dtbo']))
        elif r < 0.25 and removes:
            removes.append(rng.choice(removes))
        else:
            dirs = [k for k in cands if existing[k] == 'd']
            if dirs and rng.random() < 0.6:
                removes.append(rng.choice(dirs))
            else:
                removes.append(rng.choice(cands))
    if cmd_name in copies and rng.random() < 0.5:
        removes.append(cmd_name)
    # ---- remaining arguments
    exp_boot, exp_root = expected_partitions(case)
    nraw = [p['num'] for p in parts if p['kind'] == 'raw']
    boot = None if (rng.random() < 0.5 and exp_boot == bootp['num']) else bootp['num']
    root = None if rng.random() < 0.5 else rng.choice(nraw + [rng.randrange(0, 300)])
    image_bytes = case['total'] * SS
    size = rng.choice([str(image_bytes), str(image_bytes - 1000), '1B', str(image_bytes + rng.randrange(1, 300000)) + 'B',
                       '%dKB' % (image_bytes // 1024 + rng.randrange(0, 200)), '0.5MB', '1MB', '3MB', str(image_bytes // 2)])
    sn = rng.choice([0, 1, 0xFFFFFFFF, 0x10000000, rng.randrange(1 << 32), rng.randrange(1 << 32), rng.randrange(1 << 16)])
    spell = rng.choice(list(serial_spellings(rng, sn)))[0]
    serial = rng.choice([None, spell, spell, spell])
    iname = rng.choice(['disk.img', 'ubuntu-24.04-preinstalled-server-arm64+raspi.img', 'my image.img', 'a=b.img', 'c:d#e;f.img',
                        '[x].img', 'noext', 'ünï.img', '100%.img'])
    args = {'size': size, 'nbd_host': rng.choice([None, 'server', 'nbd.example.com', '192.168.1.1', '[fe80::1]']),
            'nbd_name': rng.choice([None, 'share', 'ubuntu-24.04', 'a/b', 'naïve']),
            'cmdline': cmd_name, 'cmdline_explicit': rng.random() < 0.3, 'boot': boot, 'root': root,
            'remove': removes, 'copy': copies, 'serial': serial,
            'tftpd_conf': rng.choice([None, 'file', 'file', '-']), 'nbd_conf': rng.choice([None, None, 'file', '-']),
            'verbosity': rng.choice([None, None, '-q', '-v']), 'image_name': iname,
            'image_arg': rng.choice([os.path.join('img dir', iname)] * 3 + [os.path.join('link', iname),
                                     os.path.join('img dir', '..', 'img dir', iname)])}
    case['args'] = args
    case['host'] = host
    case['serial_value'] = sn if serial is not None else None
    if root is None and exp_root is None:
        case['expect_error'] = 'no partition that is not FAT: root partition cannot be detected'
    if rng.random() < 0.03:
        args['copy'] = args['copy'] + ['does-not-exist']
        case['expect_error'] = 'item to copy does not exist'
    if force.get('scenario') == 'deep-remove-stdout':
        # always exercised: removal of a tree four levels deep, both configurations on stdout, prefixed serial
        tree[:] = [e for e in tree if not e[1].lower().startswith('deep')]
        tree += [['d', 'deep'], ['d', 'deep/l2'], ['d', 'deep/l2/l3'], ['d', 'deep/l2/l3/l4'],
                 ['f', 'deep/l2/l3/l4/leaf.bin', {'zero': 700}], ['f', 'deep/l2/top.txt', {'zero': 3}], ['d', 'deep/l2/empty']]
        args['remove'] = ['deep'] + [r for r in removes if not r.lower().startswith('deep')]
        args['tftpd_conf'] = args['nbd_conf'] = '-'
        args['serial'] = '10000000%08x' % sn
        case['serial_value'] = sn
        case.pop('expect_error', None)
        if args['root'] is None and exp_root is None:
            args['root'] = 2
        args['copy'] = [c for c in args['copy'] if c != 'does-not-exist']
    if AVOID_FS_DEFECTS:
        avoid_fs_defects(case, cluster)
    return case


def avoid_fs_defects(case, cluster):
    """Keep the generator away from defects of nobodd/fs.py and nobodd/path.py that belong to
    C04/C10 (reported there, not here).  Disabled with C17_NO_AVOID=1.

    F3 (FatPath.mkdir does not zero the cluster of the new directory): when the run creates a
    directory after clusters of files were freed (removed or overwritten files), the old file
    bytes show up as directory entries.  Avoided by giving zero content to the files that the
    run removes or overwrites whenever it also creates a directory."""
    a = case['args']
    bootp = next(p for p in case['parts'] if p['kind'] == 'fat' and p['order'] == min(
        q['order'] for q in case['parts'] if q['kind'] == 'fat' and q['fat'] is p['fat']))
    tree = bootp['tree']
    existing = {e[1].lower(): e[0] for e in tree}
    makes_dir = any(e[0] == 'd' and e[1].lower() not in existing for e in case['host'])
    if not makes_dir:
        return
    # the command-line file has text content: do not free its cluster before a mkdir
    a['remove'] = [r for r in a['remove'] if r.lower() != a['cmdline'].lower()]
    if a['cmdline'] in a['copy']:
        a['copy'] = [c for c in a['copy'] if c != a['cmdline']] + [a['cmdline']]
    freed = [r.lower() for r in a['remove']]
    over = {e[1].lower() for e in case['host'] if e[0] in ('f', 'l') and e[1].split('/')[0] in a['copy']}
    for e in tree:
        if e[0] != 'f' or 'text' in e[2]:
            continue
        k = e[1].lower()
        if k in over or any(k == r or k.startswith(r + '/') for r in freed):
            ln = e[2].get('len', e[2].get('zero', 0))
            e[2] = {'zero': ln}


def shrink(case, sig, R, budget=80):
    """greedy reduction of a failing case that keeps the signature"""
    def fails(c):
        try:
            f, _ = eval_case(c, None)
        except Exception:
            return False
        return any(s == sig for s, _ in f)
    cur = copy.deepcopy(case)
    changed = True
    while changed and budget > 0:
        changed = False
        cands = []
        a = cur['args']
        for i in range(len(a['remove'])):
            c = copy.deepcopy(cur); del c['args']['remove'][i]; cands.append(c)
        for i in range(len(a['copy'])):
            c = copy.deepcopy(cur); del c['args']['copy'][i]; cands.append(c)
        for key in ('serial', 'tftpd_conf', 'nbd_conf', 'verbosity', 'nbd_name'):
            if a[key] is not None:
                c = copy.deepcopy(cur); c['args'][key] = None
                if key == 'serial':
                    c['serial_value'] = None
                cands.append(c)
        if a['image_name'] != 'disk.img':
            c = copy.deepcopy(cur); c['args']['image_name'] = 'disk.img'
            c['args']['image_arg'] = os.path.join('img dir', 'disk.img'); cands.append(c)
        if a['nbd_host'] != 'server':
            c = copy.deepcopy(cur); c['args']['nbd_host'] = 'server'; cands.append(c)
        for pi, p in enumerate(cur['parts']):
            if p['kind'] != 'fat':
                continue
            for i, e in enumerate(p['tree']):
                if e[0] == 'f' and e[2].get('text') not in (None, 'quiet'):
                    c = copy.deepcopy(cur); c['parts'][pi]['tree'][i][2] = {'text': 'quiet'}; cands.append(c)
            paths = [e[1] for e in p['tree']]
            for i in reversed(range(len(p['tree']))):
                e = p['tree'][i]
                if e[1] == a['cmdline']:
                    continue
                if e[0] == 'd' and any(q.startswith(e[1] + '/') for q in paths):
                    continue
                c = copy.deepcopy(cur); del c['parts'][pi]['tree'][i]; cands.append(c)
        for i in reversed(range(len(cur['host']))):
            e = cur['host'][i]
            if e[0] == 'd' and any(q[1].startswith(e[1] + '/') for q in cur['host']):
                continue
            if e[1] in a['copy']:
                continue
            c = copy.deepcopy(cur); del c['host'][i]; cands.append(c)
        for c in cands:
            if budget <= 0:
                break
            budget -= 1
            if fails(c):
                cur = c
                changed = True
                break
    return cur


def oracle_e2e(ctx, R):
    rng = ctx.rng
    n = 5000 if ctx.thorough else 500
    if ctx.widen:
        n = max(n, 500)
    combos = [(s, f) for s in ('mbr', 'gpt') for f in ('fat12', 'fat16', 'fat32')]
    reported = set()
    for i in range(n):
        style, ft = combos[i % len(combos)]
        case = gen_case(rng, dict(style=style, fat=ft, scenario='deep-remove-stdout' if i < len(combos) else None))
        a = case['args']
        try:
            findings, info = eval_case(case, R)
        except Exception:
            findings, info = [('harness/eval', 'harness exception: ' + traceback.format_exc()[-1500:])], {}
        nt = bool(a['remove'] or a['copy'])
        ctx.case(('e2e', json.dumps(case, sort_keys=True)), nt, f'prep.main-{style}-{ft}')
        ctx.stat('e2e-remove', len(a['remove'])); ctx.stat('e2e-copy', len(a['copy']))
        if a['boot'] is None or a['root'] is None:
            ctx.stat('e2e-autodetect')
        if a['tftpd_conf'] == '-' or a['nbd_conf'] == '-':
            ctx.stat('e2e-stdout-conf')
        if case.get('expect_error'):
            ctx.stat('e2e-expected-error')
        for sig, what in findings:
            if sig in reported:
                continue
            reported.add(sig)
            small = case
            if sig.startswith('prep.main/'):
                try:
                    small = shrink(case, sig, R)
                except Exception:
                    small = case
                f2, _ = eval_case(small, None)
                what = next((w for s, w in f2 if s == sig), what)
            ctx.violation(sig, what, dict(api='prep.main', case=small, note='rebuild and re-run: ./check C17 --replay <this file>'))
    ctx.sample(dict(api='prep.main', argv=['--size', '3MB', '--nbd-host', 'server', '--nbd-name', 'share', '--remove',
                                          'overlays', '--copy', 'HOST/extra', '--serial=10000000deadbeef',
                                          '--tftpd-conf', '-', 'IMAGE'],
                    image='GPT, FAT16 boot partition with a 4-deep tree + raw partition'))


def corr_rglob_order(ctx):
    """assumption behind remove_dirs_children_first: rglob lists a directory before its content"""
    from nobodd.fs import FatFileSystem
    for ft in ('fat12', 'fat16', 'fat32'):
        img = mkfat.mkfat(ft, 400, spc=2)
        with FatFileSystem(memoryview(img)) as fs:
            for d in ('a', 'a/b', 'a/b/c', 'a/b/c/d', 'a/x', 'a/x/y', 'a/b/k'):
                (fs.root / d).mkdir()
            for f in ('a/f1', 'a/b/f2', 'a/b/c/d/f3', 'a/x/y/f4'):
                (fs.root / f).write_bytes(b'z')
            seen, ok = set(), True
            for p in (fs.root / 'a').rglob('*'):
                parent = str(p.parent)
                if parent != '/a' and parent not in seen:
                    ok = False
                seen.add(str(p))
            ctx.case(('rglob-order', ft), True, 'rglob-preorder')
            if not ok or len(seen) != 10:
                ctx.violation('assumption/rglob-preorder', f'rglob on {ft} does not list parents first / misses items: {sorted(seen)}',
                              dict(api='rglob-order', fat=ft))


def corr_detect(ctx, R):
    """prep.detect_partitions (with sh.fat_types replaced by a scripted report and the image opening stubbed) against
    Prep/Detect.v: every report of up to five partitions over {fat, maybefat, notfat}, with and without a boot / root
    partition given on the command line; plus the statement: boot = first FAT partition, root = first non-FAT one"""
    import itertools, argparse, logging, contextlib
    from unittest import mock
    import nobodd.prep as P
    names = {0: ['fat12', 'fat16', 'fat32'], 1: ['maybefat'], 2: ['notfat']}
    class FakeImage:
        def open(self, mode='rb'):
            return contextlib.nullcontext(object())
    cases = []
    for n in range(0, 6 if ctx.thorough else 5):
        for kinds in itertools.product((0, 1, 2), repeat=n):
            cases.append((None, None, kinds))
    rng = ctx.rng
    for _ in range(300):
        n = rng.randint(0, 6)
        cases.append((rng.choice([None, None, rng.randint(1, 7)]), rng.choice([None, None, rng.randint(1, 7)]), tuple(rng.choice((0, 1, 2)) for _ in range(n))))
    args = []
    for boot, root, kinds in cases:
        nums = sorted(rng.sample(range(1, 12), len(kinds)))
        args.append(([boot] if boot is not None else [], [root] if root is not None else [], [[a, k] for a, k in zip(nums, kinds)]))
    model = R.batch('detect', args, chunk=200) if R is not None else [None] * len(args)
    for (boot, root, kinds), (ab, ar, report), m in zip(cases, args, model):
        conf = argparse.Namespace(image=FakeImage(), boot_partition=boot, root_partition=root, logger=logging.getLogger('c17-detect'))
        scripted = [(num, rng.choice(names[k])) for num, k in report]
        with mock.patch.object(P, 'fat_types', lambda img, s=scripted: iter(s)), mock.patch.object(P, 'DiskImage', lambda f: contextlib.nullcontext(object())):
            try:
                P.detect_partitions(conf)
                got = [conf.boot_partition, conf.root_partition]
            except ValueError as e:
                got = 0 if 'boot' in str(e) else 1
            except Exception as e:          # noqa: BLE001
                got = type(e).__name__
        ctx.case(('detect', boot, root, tuple(report and [tuple(x) for x in report])), True, 'detect-partitions')
        first = lambda k: next((num for num, kk in report if kk == k), None)
        wb, wr = (boot if boot is not None else first(0)), (root if root is not None else first(2))
        want = 0 if wb is None else 1 if wr is None else [wb, wr]
        if got != want:
            ctx.violation('prep.detect/statement', f'detect_partitions with --boot-partition {boot} --root-partition {root} over the report {scripted}: '
                          f'{got} (0 = no boot partition, 1 = no root partition); the first FAT partition / first non-FAT partition rule gives {want}',
                          dict(api='detect', boot=boot, root=root, report=scripted))
            return
        if m is not None and m != got:
            ctx.violation('prep.detect/model-mismatch', f'detect_partitions over {scripted} (given boot {boot}, root {root}) = {got}, the model says {m}',
                          dict(api='detect', boot=boot, root=root, report=scripted))
            return


def corr_size_resize(ctx, R):
    """config.size against Prep/Resize.v size_of (whole and fractional numbers with every suffix), and the resize block of
    prepare_image on real files: never shrunk, grown with zeros to exactly the requested size, the old content in place"""
    import nobodd.config as C
    import nobodd.prep as P
    import argparse, logging
    rng = ctx.rng
    sfx = ['', 'B', 'KB', 'MB', 'GB', 'TB']
    cases = []
    for k, sx in enumerate(sfx):
        for mant in (0, 1, 7, 16, 512, 1000, 65536, 10 ** 12):
            cases.append((mant, 0, k))
        if k >= 2:
            for mant, frac in ((15, 1), (25, 2), (1, 3), (1, 4), (125, 3), (9999, 4), (1, 12), (333, 2), (5, 1), (1024, 5)):
                cases.append((mant, frac, k))
    for _ in range(300):
        k = rng.randrange(6)
        cases.append((rng.randrange(0, 10 ** rng.randint(1, 9)), rng.choice([0, 0, 1, 2, 5]) if k >= 2 else 0, k))
    model = R.batch('size_of', [list(c) for c in cases], chunk=200) if R is not None else [None] * len(cases)
    for (mant, frac, k), m in zip(cases, model):
        digits = str(mant)
        if frac:
            digits = digits.rjust(frac + 1, '0')
            text = digits[:-frac] + '.' + digits[-frac:]
        else:
            text = digits
        text += sfx[k]
        try:
            got = C.size(text)
        except Exception as e:          # noqa: BLE001
            got = type(e).__name__
        want = mant * 2 ** (10 * [0, 0, 1, 2, 3, 4][k]) // 10 ** frac
        ctx.case(('size', text), True, 'size-' + (sfx[k] or 'plain') + ('-fraction' if frac else ''))
        if got != want or (m is not None and m != got):
            ctx.violation('prep.size/model-mismatch', f'config.size({text!r}) = {got}; exact value rounded down {want}; the model {m}', dict(api='size', text=text))
            return
    # the resize block, on real files
    tmp = tempfile.mkdtemp(prefix='c17r-')
    try:
        for cur, req in ((0, 0), (0, 1), (1, 0), (5000, 5000), (5000, 4999), (5000, 5001), (4096, 70000), (70000, 4096), (1, 1 << 20)):
            path = Path(tmp) / f'img-{cur}-{req}'
            content = bytes(rng.getrandbits(8) | 1 for _ in range(cur))
            path.write_bytes(content)
            conf = argparse.Namespace(image=path, size=req, logger=logging.getLogger('c17-resize'), boot_partition=1)
            try:
                P.prepare_image(conf)
            except Exception:           # noqa: BLE001 -- the rest of prepare_image needs a real disk image; the resize is done first
                pass
            after = path.read_bytes()
            ctx.case(('resize', cur, req), True, 'resize')
            if len(after) != max(cur, req) or after[:cur] != content or any(after[cur:]):
                ctx.violation('prep.resize/statement', f'an image of {cur} bytes prepared with size {req}: now {len(after)} bytes (expected {max(cur, req)}), '
                              f'old content in place: {after[:cur] == content}, added bytes zero: {not any(after[cur:])}', dict(api='resize', cur=cur, req=req))
                return
    finally:
        shutil.rmtree(tmp, ignore_errors=True)


def run(ctx, build):
    warnings.simplefilter('ignore')
    import locale
    enc = locale.getencoding()
    if enc.lower().replace('-', '') != 'utf8':
        raise lib.BuildError(f'locale encoding is {enc}; the check needs UTF-8 (set PYTHONUTF8=1)')
    # when the model no longer builds (translator failed closed / Gen changed shape) the oracle
    # parts still run against the implementation alone, so that a concrete failing input is found
    try:
        R, broken = ctx.runner('Prep'), None
    except lib.BuildError as exc:
        R, broken = None, exc
    tmp = tempfile.mkdtemp(prefix='c17-')
    try:
        if R is not None:
            corr_whitespace(ctx, R)
            corr_text(ctx, R)
        corr_int_serial(ctx, R)
        corr_board(ctx, R, tmp)
        corr_rewrite(ctx, R)
        corr_rglob_order(ctx)
        corr_detect(ctx, R)
        corr_size_resize(ctx, R)
        oracle_e2e(ctx, R)
        if broken is not None:
            raise broken
    finally:
        shutil.rmtree(tmp, ignore_errors=True)


def replay(ctx, obj):
    warnings.simplefilter('ignore')
    r = obj['replay']
    if r.get('api') == 'prep.main':
        case = r['case']
        print('case:', json.dumps(case)[:3000])
        findings, info = eval_case(case, None)
        print('argv:', info.get('argv'))
        print('rc:', info.get('rc'), 'stderr:', info.get('stderr'))
        for sig, what in findings:
            print('FAILS', sig, '::', what)
        return not findings
    print(json.dumps(r, indent=1)[:3000])
    import nobodd.config as config
    if r.get('api') in ('serial', 'serial-oracle', 'serial-range'):
        got = impl_call(config.serial, r['s'])
        print('now:', got)
        return got == ('ok', r['expected']) if 'expected' in r else False
    if r.get('api') == 'rewrite':
        import nobodd.prep as prep
        from nobodd.fs import FatFileSystem
        img = mkfat.mkfat('fat16', 400, spc=4)
        with FatFileSystem(memoryview(img)) as fs:
            (fs.root / 'cmdline.txt').write_bytes(r['text'].encode('utf-8'))
            conf = argparse.Namespace(cmdline='cmdline.txt', nbd_host=r['host'], nbd_name=r['name'],
                                      root_partition=r['root'], boot_partition=1, logger=logging.getLogger('c17.replay'))
            got = impl_call(prep.rewrite_cmdline, fs, conf)
            if got[0] == 'ok':
                got = ('ok', (fs.root / 'cmdline.txt').read_bytes().decode('utf-8'))
        want = spec_cmdline(r['text'], r['host'], r['name'], r['root'])
        print('now:', got, 'property:', want)
        return got == ('ok', want)
    return False
